/-
  C13SrcB — the binary / count-based sparse metrics, `sparse_ll_dirichlet` and `sparse_correlation`
  generated from the source text of umap/sparse.py (`Generated/SparseSrc.lean`, namespace
  `Umap.SrcSparse`) are EQUAL to the hand-written model `Umap.Sparse` the C13 property theorems are
  about, on canonical CSR rows (`Canon ind data`), relative to `H : SparseSrcSpec.CoreSpec`
  (the translated merge helpers compute what the model's `merge` computes; proved in C13SrcCore).

  Generality.
  * `sparseLlDirichlet_src(_of_length)`: ANY scalar type `α` (the unbundled instance list, covers `Float`),
    no `CoreSpec`, no sortedness — only `len(ind) = len(data)`; the source's own while-loop merge is
    tied to the model's `merge` by the loop invariant `whileN_merge_sum`.
  * everything else: ordered field `K` (the source does Python-int arithmetic, translated to `Int`
    and cast; the model uses naturals — the casts `Nat → Int → K` need the ring laws).

  Extra hypotheses (all named, all preconditions of the library: column indices `< n_features`).
  * `sparseKulsinski_src`, `sparseRussellrao_src`: `h_nfeatures : ∀ k ∈ ind1, k < n`.
    The `_of_le` forms state the exact arithmetic condition.  WITHOUT it the equality is FALSE:
    the source's `num_not_equal - num_true_true + n_features` / `n_features - num_true_true` are
    Python ints that go negative, the model's `Nat` subtraction truncates at 0.
      kulsinski:  ind1 = [0,1,2,3], ind2 = [0,1,2], n = 1 :  source (1-3+1)/(1+1) = -1/2, model 0/2 = 0.
      russellrao: ind1 = [0,1,2], ind2 = [0,1,3], n = 1 :    source (1-2)/1 = -1,        model 0/1 = 0.
  * `sparseCorrelation_src`: `h_nfeatures1/2` (same reason: `n - len(ind)`, `n - |union|` as ints vs
    truncated naturals) and `h_sqrt : ∀ a ≥ 0, T.sqrt a * T.sqrt a = a` — the source computes
    `norm(shifted)**2` (the square of a square root), the model the sum of squares itself; equal for
    the real square root, not bit-identical in floating point.
-/
import UmapModel.Sparse
import Generated.SparseSrc
import UmapProofs.SparseSrcSpec
import UmapProofs.SrcLemmas
import UmapProofs.SrcLemmasD
import UmapProofs.SrcLemmasE
import UmapProps.C13
import Mathlib.Tactic

set_option linter.unusedSectionVars false
set_option linter.unusedVariables false

namespace Umap
namespace C13SrcB
open Sparse SparseSrcSpec SrcLemmas

section counts
variable {K : Type} [Field K] [LinearOrder K] [IsStrictOrderedRing K]

theorem length_pack {α : Type} {ind : List Nat} {data : List α} (hc : Canon ind data) :
    (pack ind data).length = ind.length := by
  unfold pack; rw [List.length_zip, ← hc.1]; simp

/-- the three counts of the model, as naturals without truncated subtraction -/
theorem counts_split (H : CoreSpec K) {ind1 ind2 : List Nat} {data1 data2 : List K}
    (hc1 : Canon ind1 data1) (hc2 : Canon ind2 data2) :
    ∃ tt tf ft : Nat,
      (SrcSparse.arrIntersect ind1 ind2).length = tt ∧
      (SrcSparse.arrUnion ind1 ind2).length = tt + tf + ft ∧
      ∀ n, sCounts n (pack ind1 data1) (pack ind2 data2) = { n := n, tt := tt, tf := tf, ft := ft } := by
  have h1 := C13.interSize_add_unionSize (pack ind1 data1) (pack ind2 data2)
  have h2 := C13.interSize_le_min (pack ind1 data1) (pack ind2 data2)
  rw [le_min_iff] at h2
  refine ⟨interSize (pack ind1 data1) (pack ind2 data2),
    (pack ind1 data1).length - interSize (pack ind1 data1) (pack ind2 data2),
    (pack ind2 data2).length - interSize (pack ind1 data1) (pack ind2 data2),
    H.interLen _ _ _ _ hc1 hc2, ?_, fun n => rfl⟩
  rw [H.unionLen _ _ _ _ hc1 hc2]
  omega

theorem sparseJaccard_src (H : CoreSpec K) (ind1 ind2 : List Nat) (data1 data2 : List K)
    (hc1 : Canon ind1 data1) (hc2 : Canon ind2 data2) :
    SrcSparse.sparseJaccard ind1 data1 ind2 data2
      = Sparse.sJaccard (pack ind1 data1) (pack ind2 data2) := by
  obtain ⟨tt, tf, ft, hI, hU, hC⟩ := counts_split H hc1 hc2
  unfold SrcSparse.sparseJaccard Sparse.sJaccard Metrics.jaccardC Metrics.rat
  simp only [hI, hU, hC]
  by_cases h0 : tt + tf + ft = 0
  · simp [h0]
  · simp only [beq_iff_eq, h0, if_false]
    congr 1
    push_cast
    rw [Nat.cast_sub (by omega)]
    push_cast
    ring

theorem sparseMatching_src (H : CoreSpec K) (ind1 ind2 : List Nat) (data1 data2 : List K) (n : Nat)
    (hc1 : Canon ind1 data1) (hc2 : Canon ind2 data2) :
    SrcSparse.sparseMatching ind1 data1 ind2 data2 n
      = Sparse.sMatching n (pack ind1 data1) (pack ind2 data2) := by
  obtain ⟨tt, tf, ft, hI, hU, hC⟩ := counts_split H hc1 hc2
  unfold SrcSparse.sparseMatching Sparse.sMatching Metrics.matchingC Metrics.rat Metrics.Counts.neq
  simp only [hI, hU, hC]
  congr 1
  push_cast
  ring

theorem sparseDice_src (H : CoreSpec K) (ind1 ind2 : List Nat) (data1 data2 : List K)
    (hc1 : Canon ind1 data1) (hc2 : Canon ind2 data2) :
    SrcSparse.sparseDice ind1 data1 ind2 data2
      = Sparse.sDice (pack ind1 data1) (pack ind2 data2) := by
  obtain ⟨tt, tf, ft, hI, hU, hC⟩ := counts_split H hc1 hc2
  unfold SrcSparse.sparseDice Sparse.sDice Metrics.diceC Metrics.rat Metrics.Counts.neq
  simp only [hI, hU, hC]
  have e : ((tt + tf + ft : Nat) : Int) - (tt : Int) = ((tf + ft : Nat) : Int) := by
    push_cast; ring
  rw [e]
  by_cases h0 : tf + ft = 0
  · simp [h0]
  · have h0' : ¬ (((tf + ft : Nat) : Int) = ((0 : Nat) : Int)) := by exact_mod_cast h0
    simp only [beq_iff_eq, h0, h0', if_false]
    push_cast
    ring

theorem sparseRogersTanimoto_src (H : CoreSpec K) (ind1 ind2 : List Nat) (data1 data2 : List K)
    (n : Nat) (hc1 : Canon ind1 data1) (hc2 : Canon ind2 data2) :
    SrcSparse.sparseRogersTanimoto ind1 data1 ind2 data2 n
      = Sparse.sRogersTanimoto n (pack ind1 data1) (pack ind2 data2) := by
  obtain ⟨tt, tf, ft, hI, hU, hC⟩ := counts_split H hc1 hc2
  unfold SrcSparse.sparseRogersTanimoto Sparse.sRogersTanimoto Metrics.rogersTanimotoC Metrics.rat
    Metrics.Counts.neq
  simp only [hI, hU, hC]
  have e : ((tt + tf + ft : Nat) : Int) - (tt : Int) = ((tf + ft : Nat) : Int) := by
    push_cast; ring
  rw [e]
  push_cast
  ring

theorem sparseSokalMichener_src (H : CoreSpec K) (ind1 ind2 : List Nat) (data1 data2 : List K)
    (n : Nat) (hc1 : Canon ind1 data1) (hc2 : Canon ind2 data2) :
    SrcSparse.sparseSokalMichener ind1 data1 ind2 data2 n
      = Sparse.sSokalMichener n (pack ind1 data1) (pack ind2 data2) := by
  obtain ⟨tt, tf, ft, hI, hU, hC⟩ := counts_split H hc1 hc2
  unfold SrcSparse.sparseSokalMichener Sparse.sSokalMichener Metrics.sokalMichenerC Metrics.rat
    Metrics.Counts.neq
  simp only [hI, hU, hC]
  have e : ((tt + tf + ft : Nat) : Int) - (tt : Int) = ((tf + ft : Nat) : Int) := by
    push_cast; ring
  rw [e]
  push_cast
  ring

theorem sparseSokalSneath_src (H : CoreSpec K) (ind1 ind2 : List Nat) (data1 data2 : List K)
    (hc1 : Canon ind1 data1) (hc2 : Canon ind2 data2) :
    SrcSparse.sparseSokalSneath ind1 data1 ind2 data2
      = Sparse.sSokalSneath (pack ind1 data1) (pack ind2 data2) := by
  obtain ⟨tt, tf, ft, hI, hU, hC⟩ := counts_split H hc1 hc2
  unfold SrcSparse.sparseSokalSneath Sparse.sSokalSneath Metrics.sokalSneathC Metrics.two
    Metrics.Counts.neq
  simp only [hI, hU, hC]
  have e : ((tt + tf + ft : Nat) : Int) - (tt : Int) = ((tf + ft : Nat) : Int) := by
    push_cast; ring
  rw [e]
  by_cases h0 : tf + ft = 0
  · simp [h0]
  · have h0' : ¬ (((tf + ft : Nat) : Int) = ((0 : Nat) : Int)) := by exact_mod_cast h0
    simp only [beq_iff_eq, h0, h0', if_false]
    push_cast
    ring

/-- `sparse_kulsinski`, general form.  The source computes `num_not_equal - num_true_true + n_features`
    in Python ints (it may be negative); the model uses the truncating `Nat` expression
    `neq + n - tt`.  They agree iff that integer is non-negative, i.e. `2·|x ∩ y| ≤ |x ∪ y| + n`
    (true whenever the indices are `< n_features`, see `sparseKulsinski_src`). -/
theorem sparseKulsinski_src_of_le (H : CoreSpec K) (ind1 ind2 : List Nat) (data1 data2 : List K)
    (n : Nat) (hc1 : Canon ind1 data1) (hc2 : Canon ind2 data2)
    (h_nfeatures : 2 * interSize (pack ind1 data1) (pack ind2 data2)
        ≤ unionSize (pack ind1 data1) (pack ind2 data2) + n) :
    SrcSparse.sparseKulsinski ind1 data1 ind2 data2 n
      = Sparse.sKulsinski n (pack ind1 data1) (pack ind2 data2) := by
  obtain ⟨tt, tf, ft, hI, hU, hC⟩ := counts_split H hc1 hc2
  rw [← H.interLen _ _ _ _ hc1 hc2, ← H.unionLen _ _ _ _ hc1 hc2, hI, hU] at h_nfeatures
  unfold SrcSparse.sparseKulsinski Sparse.sKulsinski Metrics.kulsinskiC Metrics.rat
    Metrics.Counts.neq
  simp only [hI, hU, hC]
  have e : ((tt + tf + ft : Nat) : Int) - (tt : Int) = ((tf + ft : Nat) : Int) := by
    push_cast; ring
  rw [e]
  by_cases h0 : tf + ft = 0
  · simp [h0]
  · have h0' : ¬ (((tf + ft : Nat) : Int) = ((0 : Nat) : Int)) := by exact_mod_cast h0
    simp only [beq_iff_eq, h0, h0', if_false]
    rw [Nat.cast_sub (by omega)]
    push_cast
    ring

theorem map_fst_pack {α : Type} {ind : List Nat} {data : List α} (hc : Canon ind data) :
    (pack ind data).map (·.1) = ind := by
  unfold pack; exact List.map_fst_zip (by rw [hc.1])

theorem vals_pack {α : Type} {ind : List Nat} {data : List α} (hc : Canon ind data) :
    vals (pack ind data) = data := by
  unfold pack vals; exact List.map_snd_zip (by rw [hc.1])

theorem sorted_pack {α : Type} {ind : List Nat} {data : List α} (hc : Canon ind data) :
    C13.Sorted (pack ind data) := by
  unfold C13.Sorted; rw [map_fst_pack hc]; exact hc.2

/-- indices below `n_features` ⇒ the intersection has at most `n_features` elements -/
theorem interSize_le_of_bound {ind1 ind2 : List Nat} {data1 data2 : List K} (n : Nat)
    (hc1 : Canon ind1 data1) (h_nfeatures : ∀ k ∈ ind1, k < n) :
    interSize (pack ind1 data1) (pack ind2 data2) ≤ n := by
  refine le_trans (C13.interSize_le_left _ _) ?_
  refine C13.length_le_of_bound n _ (sorted_pack hc1) ?_
  intro p hp
  apply h_nfeatures
  rw [← map_fst_pack hc1]
  exact List.mem_map_of_mem hp

/-- `sparse_kulsinski` under the library's precondition that the indices of (one of) the rows
    are `< n_features`. -/
theorem sparseKulsinski_src (H : CoreSpec K) (ind1 ind2 : List Nat) (data1 data2 : List K)
    (n : Nat) (hc1 : Canon ind1 data1) (hc2 : Canon ind2 data2)
    (h_nfeatures : ∀ k ∈ ind1, k < n) :
    SrcSparse.sparseKulsinski ind1 data1 ind2 data2 n
      = Sparse.sKulsinski n (pack ind1 data1) (pack ind2 data2) := by
  apply sparseKulsinski_src_of_le H _ _ _ _ n hc1 hc2
  have h1 := C13.interSize_add_unionSize (pack ind1 data1) (pack ind2 data2)
  have h2 := C13.interSize_le_min (pack ind1 data1) (pack ind2 data2)
  have h3 := interSize_le_of_bound (ind2 := ind2) (data2 := data2) n hc1 h_nfeatures
  rw [le_min_iff] at h2
  omega

theorem zipWith_beq_all (l1 l2 : List Nat) :
    ((l1.length == l2.length) && (List.zipWith (fun a b => a == b) l1 l2).all id) = decide (l1 = l2) := by
  induction l1 generalizing l2 with
  | nil => cases l2 <;> simp
  | cons a l1 ih =>
    cases l2 with
    | nil => simp
    | cons b l2 =>
      have := ih l2
      simp only [List.length_cons, List.zipWith_cons_cons, List.all_cons, id] at this ⊢
      by_cases hab : a = b
      · subst hab
        by_cases hl : l1 = l2
        · subst hl; simp
        · simp only [hl, decide_false] at this
          simp [hl]
          simpa using this
      · simp [hab]

/-- `sparse_russellrao`, general form: the source's `n_features - num_true_true` is a Python int, the
    model's is a truncating `Nat`; they agree when `|x ∩ y| ≤ n_features`. -/
theorem sparseRussellrao_src_of_le (H : CoreSpec K) (ind1 ind2 : List Nat) (data1 data2 : List K)
    (n : Nat) (hc1 : Canon ind1 data1) (hc2 : Canon ind2 data2)
    (h_nfeatures : interSize (pack ind1 data1) (pack ind2 data2) ≤ n) :
    SrcSparse.sparseRussellrao ind1 data1 ind2 data2 n
      = Sparse.sRussellRao n (pack ind1 data1) (pack ind2 data2) := by
  unfold SrcSparse.sparseRussellrao Sparse.sRussellRao Metrics.rat
  simp only [zipWith_beq_all, map_fst_pack hc1, map_fst_pack hc2, vals_pack hc1, vals_pack hc2,
    H.interLen _ _ _ _ hc1 hc2, isZ]
  by_cases he : ind1 = ind2
  · simp [he]
  · simp only [he, decide_false, if_false, Bool.false_eq_true]
    simp only [Bool.and_eq_true, eqV_iff, Nat.cast_inj]
    split_ifs with h
    · rfl
    · congr 1
      rw [Nat.cast_sub h_nfeatures]
      push_cast
      ring

theorem sparseRussellrao_src (H : CoreSpec K) (ind1 ind2 : List Nat) (data1 data2 : List K)
    (n : Nat) (hc1 : Canon ind1 data1) (hc2 : Canon ind2 data2)
    (h_nfeatures : ∀ k ∈ ind1, k < n) :
    SrcSparse.sparseRussellrao ind1 data1 ind2 data2 n
      = Sparse.sRussellRao n (pack ind1 data1) (pack ind2 data2) :=
  sparseRussellrao_src_of_le H _ _ _ _ n hc1 hc2 (interSize_le_of_bound n hc1 h_nfeatures)

end counts
section lld
variable {α : Type} [Add α] [Sub α] [Mul α] [Div α] [Neg α] [LT α] [LE α]
  [DecidableLT α] [DecidableLE α] [OfNat α 0] [OfNat α 1] [NatCast α] [IntCast α]

theorem merge_nil_right (f : α → α → Option α) (g2 : α → Option α) (x : SVec α) :
    merge f (fun _ => none) g2 x [] = [] := by
  induction x with
  | nil => simp [merge]
  | cons p t ih => obtain ⟨i, a⟩ := p; simp [merge, ih]

theorem merge_nil_left (f : α → α → Option α) (g1 : α → Option α) (y : SVec α) :
    merge f g1 (fun _ => none) [] y = [] := by
  induction y with
  | nil => simp [merge]
  | cons p t ih => obtain ⟨i, a⟩ := p; simp [merge, ih]

theorem drop_zip_cons {β : Type} (ind : List Nat) (data : List β) (d : β) (h : ind.length = data.length)
    (i : Nat) (hi : i < ind.length) :
    (ind.zip data).drop i = (ind.getD i 0, data.getD i d) :: (ind.zip data).drop (i + 1) := by
  have hz : i < (ind.zip data).length := by simp [← h, hi]
  rw [List.drop_eq_getElem_cons hz]
  congr 1
  rw [List.getElem_zip]
  have hd : i < data.length := h ▸ hi
  simp [List.getD_eq_getElem?_getD, List.getElem?_eq_getElem hi, List.getElem?_eq_getElem hd]

theorem whileN_merge_sum (F : α → α → Option α) (ind1 ind2 : List Nat) (data1 data2 : List α)
    (h1 : ind1.length = data1.length) (h2 : ind2.length = data2.length)
    (c : Nat × Nat × α → Bool) (b : Nat × Nat × α → Nat × Nat × α)
    (hc : ∀ s, c s = (decide (s.1 < ind1.length) && decide (s.2.1 < ind2.length)))
    (hb : ∀ s, s.1 < ind1.length → s.2.1 < ind2.length → b s =
      if ind1.getD s.1 0 = ind2.getD s.2.1 0 then
        (s.1 + 1, s.2.1 + 1,
          match F (data1.getD s.1 0) (data2.getD s.2.1 0) with
          | some v => s.2.2 + v
          | none => s.2.2)
      else if ind1.getD s.1 0 < ind2.getD s.2.1 0 then (s.1 + 1, s.2.1, s.2.2)
      else (s.1, s.2.1 + 1, s.2.2)) :
    ∀ (fuel i1 i2 : Nat) (acc : α), (ind1.length - i1) + (ind2.length - i2) < fuel →
      (SrcSparse.whileN fuel c b (i1, i2, acc)).2.2
        = ((merge F (fun _ => none) (fun _ => none) ((ind1.zip data1).drop i1)
              ((ind2.zip data2).drop i2)).map (·.2)).foldl (· + ·) acc := by
  intro fuel
  induction fuel with
  | zero => intro i1 i2 acc h; omega
  | succ fuel ih =>
    intro i1 i2 acc hf
    unfold SrcSparse.whileN
    rw [hc]
    by_cases hi1 : i1 < ind1.length
    · by_cases hi2 : i2 < ind2.length
      · simp only [hi1, hi2, decide_true, Bool.and_self, if_true]
        rw [hb _ hi1 hi2]
        rw [drop_zip_cons ind1 data1 0 h1 i1 hi1, drop_zip_cons ind2 data2 0 h2 i2 hi2]
        rw [merge]
        simp only []
        split_ifs with he hlt
        · rw [ih _ _ _ (by omega)]
          cases F (data1.getD i1 0) (data2.getD i2 0) <;> simp
        · rw [ih _ _ _ (by omega)]
          rw [drop_zip_cons ind2 data2 0 h2 i2 hi2]
          simp
        · rw [ih _ _ _ (by omega)]
          rw [drop_zip_cons ind1 data1 0 h1 i1 hi1]
          simp
      · have : (ind2.zip data2).drop i2 = [] := by
          apply List.drop_eq_nil_of_le; simp [← h2]; omega
        simp [hi2, this, merge_nil_right]
    · have : (ind1.zip data1).drop i1 = [] := by
        apply List.drop_eq_nil_of_le; simp [← h1]; omega
      simp [hi1, this, merge_nil_left]

theorem approxLogGamma_src (T : Transc α) (pi x : α) :
    SrcSparse.approxLogGamma T pi x = Metrics.approxLogGamma T pi x := by
  unfold SrcSparse.approxLogGamma Metrics.approxLogGamma Metrics.two
  rfl

theorem logBeta_src (T : Transc α) (pi x y : α) :
    SrcSparse.logBeta T pi x y = Metrics.logBeta T pi x y := by
  unfold SrcSparse.logBeta Metrics.logBeta
  simp only [approxLogGamma_src, SrcSparse.rangeFrom, List.foldl_map, Nat.add_comm 1]

theorem logSingleBeta_src (T : Transc α) (pi x : α) :
    SrcSparse.logSingleBeta T pi x = Metrics.logSingleBeta T pi x := by
  unfold SrcSparse.logSingleBeta Metrics.logSingleBeta Metrics.two
  rfl

/-- `sparse_ll_dirichlet`: any scalar type, no sortedness needed (the source's own while-loop merge and
    the model's `merge` walk the two rows in the same way); only `len(ind) = len(data)` is used. -/
theorem sparseLlDirichlet_src_of_length (T : Transc α) (pi : α) (ind1 ind2 : List Nat)
    (data1 data2 : List α) (h1 : ind1.length = data1.length) (h2 : ind2.length = data2.length) :
    SrcSparse.sparseLlDirichlet T pi ind1 data1 ind2 data2
      = Sparse.sLlDirichlet T pi ((100000000 : Nat) : α) (pack ind1 data1) (pack ind2 data2) := by
  unfold SrcSparse.sparseLlDirichlet Sparse.sLlDirichlet
  have v1 : vals (pack ind1 data1) = data1 := by
    unfold pack vals; exact List.map_snd_zip (by rw [h1])
  have v2 : vals (pack ind2 data2) = data2 := by
    unfold pack vals; exact List.map_snd_zip (by rw [h2])
  simp only [v1, v2, isZ, logBeta_src, logSingleBeta_src]
  rw [whileN_merge_sum
    (fun a b => if eqV (a * b) 0 = true then none else some (Metrics.logBeta T pi a b))
    ind1 ind2 data1 data2 h1 h2 _ _ (fun s => rfl) ?hb _ 0 0 0 (by omega)]
  case hb =>
    intro s _ _
    simp only [beq_iff_eq]
    split_ifs <;> simp_all
  simp only [List.drop_zero, sumL, pack, List.foldl_map]
  rfl

theorem sparseLlDirichlet_src (T : Transc α) (pi : α) (ind1 ind2 : List Nat) (data1 data2 : List α)
    (hc1 : Canon ind1 data1) (hc2 : Canon ind2 data2) :
    SrcSparse.sparseLlDirichlet T pi ind1 data1 ind2 data2
      = Sparse.sLlDirichlet T pi ((100000000 : Nat) : α) (pack ind1 data1) (pack ind2 data2) :=
  sparseLlDirichlet_src_of_length T pi ind1 ind2 data1 data2 hc1.1 hc2.1

end lld

theorem pack_mapVal {α : Type} (ind : List Nat) (data : List α) (f : α → α) :
    (pack ind data).map (fun p => (p.1, f p.2)) = pack ind (data.map f) := by
  unfold pack
  rw [List.zip_map_right]
  rfl

theorem canon_map {α : Type} {ind : List Nat} {data : List α} (hc : Canon ind data) (f : α → α) :
    Canon ind (data.map f) := ⟨by rw [List.length_map]; exact hc.1, hc.2⟩

theorem any_pack {α : Type} {ind : List Nat} {data : List α} (hc : Canon ind data) (i : Nat) :
    (pack ind data).any (·.1 == i) = ind.contains i := by
  have : (pack ind data).any (·.1 == i) = ((pack ind data).map (·.1)).any (· == i) := by
    rw [List.any_map]; rfl
  rw [this, map_fst_pack hc, List.contains_eq_any_beq]
  congr 1
  funext a
  exact Bool.beq_comm

section corr
variable {K : Type} [Field K] [LinearOrder K] [IsStrictOrderedRing K]

theorem sumL_sq_nonneg (l : List K) : 0 ≤ sumL (l.map (fun v => v * v)) := by
  rw [sumL_eq_sum]
  apply List.sum_nonneg
  intro a ha
  rw [List.mem_map] at ha
  obtain ⟨v, _, rfl⟩ := ha
  exact mul_self_nonneg v

theorem sparseCorrelation_src_of_le (H : CoreSpec K) (T : Transc K)
    (h_sqrt : ∀ a : K, 0 ≤ a → T.sqrt a * T.sqrt a = a)
    (ind1 ind2 : List Nat) (data1 data2 : List K)
    (n : Nat) (hc1 : Canon ind1 data1) (hc2 : Canon ind2 data2)
    (h_n1 : ind1.length ≤ n) (h_n2 : ind2.length ≤ n)
    (h_nU : unionSize (pack ind1 data1) (pack ind2 data2) ≤ n) :
    SrcSparse.sparseCorrelation T ind1 data1 ind2 data2 n
      = Sparse.sCorrelation T n (pack ind1 data1) (pack ind2 data2) := by
  unfold SrcSparse.sparseCorrelation Sparse.sCorrelation SrcSparse.norm
  simp only []
  rw [foldl_range_getD' data1 0 (fun st a => st + a) 0, foldl_range_getD' data2 0 (fun st a => st + a) 0]
  have hs : ∀ l : List K, List.foldl (fun st a => st + a) 0 l = sumL l := fun _ => rfl
  simp only [hs, vals_pack hc1, vals_pack hc2, length_pack hc1, length_pack hc2]
  generalize sumL data1 / (n : K) = mx
  generalize sumL data2 / (n : K) = my
  have e1 : List.foldl (fun st i => st.set i (data1.getD i 0 - mx)) (List.replicate data1.length 0)
      (List.range data1.length) = data1.map (fun a => a - mx) := by
    rw [SrcLemmasD.foldl_set (fun i => data1.getD i 0 - mx)]
    exact SrcLemmasD.map_range_getD data1 0 (fun a => a - mx)
  have e2 : List.foldl (fun st i => st.set i (data2.getD i 0 - my)) (List.replicate data2.length 0)
      (List.range data2.length) = data2.map (fun a => a - my) := by
    rw [SrcLemmasD.foldl_set (fun i => data2.getD i 0 - my)]
    exact SrcLemmasD.map_range_getD data2 0 (fun a => a - my)
  rw [e1, e2]
  rw [pack_mapVal ind1 data1 (fun a => a - mx), pack_mapVal ind2 data2 (fun a => a - my)]
  have hs1 := canon_map hc1 (fun a => a - mx)
  have hs2 := canon_map hc2 (fun a => a - my)
  generalize data1.map (fun a => a - mx) = sh1 at *
  generalize data2.map (fun a => a - my) = sh2 at *
  rw [H.mul _ _ _ _ hs1 hs2]
  simp only [vals_pack hs1, vals_pack hs2, unpack]
  have hN : ∀ (sh : List K) (m : K) (k : Nat), k ≤ n →
      T.sqrt (SrcSparse.sq (T.sqrt (List.foldl (fun st i => st + SrcSparse.sq (sh.getD i 0)) 0
          (List.range sh.length))) + ((((n : Nat) : Int) - ((k : Nat) : Int) : Int) : K) * SrcSparse.sq m)
        = T.sqrt (sumL (sh.map (fun v => v * v)) + ((n - k : Nat) : K) * (m * m)) := by
    intro sh m k hk
    rw [foldl_range_getD' sh 0 (fun st a => st + SrcSparse.sq a) 0]
    have : List.foldl (fun st a => st + SrcSparse.sq a) 0 sh = sumL (sh.map (fun v => v * v)) := by
      simp [sumL, List.foldl_map, SrcSparse.sq]
    rw [this]
    unfold SrcSparse.sq
    rw [h_sqrt _ (sumL_sq_nonneg sh), Nat.cast_sub hk]
    push_cast
    rfl
  have hD : ∀ (ind : List Nat) (sh : List K) (hlen : ind.length = sh.length) (m init : K),
      List.foldl (fun st i =>
          if (!(SrcSparse.arrIntersect ind1 ind2).contains (ind.getD i 0)) = true then
            st - sh.getD i 0 * m else st) init (List.range ind.length)
        = List.foldl (fun acc p =>
            if ((List.any (pack ind1 data1) fun x => x.1 == p.1) &&
                List.any (pack ind2 data2) fun x => x.1 == p.1) = true then acc
            else acc - p.2 * m) init (pack ind sh) := by
    intro ind sh hlen m init
    rw [foldl_range_getD₂ ind sh 0 0 hlen
      (fun st k a => if (!(SrcSparse.arrIntersect ind1 ind2).contains k) = true then st - a * m else st) init]
    unfold pack
    apply List.foldl_ext
    intro acc p _
    rw [H.interMem ind1 ind2 hc1.2 hc2.2 p.1]
    have a1 := any_pack hc1 p.1
    have a2 := any_pack hc2 p.1
    unfold pack at a1 a2
    rw [a1, a2]
    cases (ind1.contains p.1 && ind2.contains p.1) <;> simp
  have hU : ((((n : Nat) : Int) - (((SrcSparse.arrUnion ind1 ind2).length : Nat) : Int) : Int) : K)
      = ((n - unionSize (pack ind1 data1) (pack ind2 data2) : Nat) : K) := by
    rw [H.unionLen _ _ _ _ hc1 hc2, Nat.cast_sub h_nU]
    push_cast
    rfl
  have hS : ∀ l : List K, List.foldl (fun st i => st + l.getD i 0) 0 (List.range l.length) = sumL l :=
    fun l => foldl_range_getD' l 0 (fun st a => st + a) 0
  have n1 := hN sh1 mx _ h_n1
  have n2 := hN sh2 my _ h_n2
  have d1 := hD ind1 sh1 hs1.1 my
  have d2 := hD ind2 sh2 hs2.1 mx
  simp only [n1, n2, hU, d1, d2, hS]
  simp [isZ, vals]
theorem mem_pack_bound {α : Type} {ind : List Nat} {data : List α} (n : Nat) (hc : Canon ind data)
    (h : ∀ k ∈ ind, k < n) : ∀ p ∈ pack ind data, p.1 < n := by
  intro p hp
  apply h
  rw [← map_fst_pack hc]
  exact List.mem_map_of_mem hp

/-- `sparse_correlation` under the library's precondition that all indices are `< n_features`. -/
theorem sparseCorrelation_src (H : CoreSpec K) (T : Transc K)
    (h_sqrt : ∀ a : K, 0 ≤ a → T.sqrt a * T.sqrt a = a)
    (ind1 ind2 : List Nat) (data1 data2 : List K)
    (n : Nat) (hc1 : Canon ind1 data1) (hc2 : Canon ind2 data2)
    (h_nfeatures1 : ∀ k ∈ ind1, k < n) (h_nfeatures2 : ∀ k ∈ ind2, k < n) :
    SrcSparse.sparseCorrelation T ind1 data1 ind2 data2 n
      = Sparse.sCorrelation T n (pack ind1 data1) (pack ind2 data2) := by
  have b1 := mem_pack_bound n hc1 h_nfeatures1
  have b2 := mem_pack_bound n hc2 h_nfeatures2
  apply sparseCorrelation_src_of_le H T h_sqrt _ _ _ _ n hc1 hc2
  · rw [← length_pack hc1]; exact C13.length_le_of_bound n _ (sorted_pack hc1) b1
  · rw [← length_pack hc2]; exact C13.length_le_of_bound n _ (sorted_pack hc2) b2
  · unfold unionSize
    exact C13.length_le_of_bound n _ (C13.merge_sorted _ _ _ _ _ (sorted_pack hc1) (sorted_pack hc2))
      (C13.merge_index_bound (fun k => k < n) _ _ _ _ _ b1 b2)

end corr

end C13SrcB
end Umap
