/-
  C13Src — property C13 (sparse metric = dense metric on the densified rows) at the level of the
  translated SOURCE of umap/sparse.py and umap/distances.py.

  (a) `…_tied` : the theorems of `C13SrcA` / `C13SrcB` (translated sparse kernel = hand-written model,
      relative to `H : SparseSrcSpec.CoreSpec _`) with `H := C13SrcCore.coreSpec` supplied — unconditional.

  (b) `<metric>_sparse_eq_dense_src` : over an ordered field `K`, for canonical CSR rows
      (`Canon ind data`: as many values as indices, strictly increasing indices) whose indices are `< n`,

        SrcSparse.sparse<Metric> … ind1 data1 ind2 data2 …
          = Src.<metric> … (toDense n (pack ind1 data1)) (toDense n (pack ind2 data2)) …

      obtained by chaining
        (a)  translated sparse kernel = model sparse kernel          (C13SrcA/B + C13SrcCore)
        C13  model sparse kernel = model dense kernel on `toDense`     (C13.sX_eq)
        C12  translated dense kernel = model dense kernel, read ←      (C12SrcA/B/C, lengths equal `n`).

  Hypothesis names:
    hc1 hc2        : `Canon ind data`
    h_n1 h_n2      : all column indices `< n`  (`n` = `n_features`)
    h_nz1 h_nz2    : no stored zero            (binary family: C13 needs `Canonical`)
    h_nonneg1/2    : stored values `≥ 0`       (hellinger)
    h_ge1_1/2      : stored values `≥ 1`       (ll_dirichlet)
    h_sqrt…, h_pow : named facts about the abstract `T.sqrt` / `T.pow`.
-/
import UmapModel.Sparse
import UmapModel.Metrics
import Generated.SparseSrc
import Generated.DistSrc
import UmapProofs.SparseSrcSpec
import UmapProps.C12SrcA
import UmapProps.C12SrcB
import UmapProps.C12SrcC
import UmapProps.C13
import UmapProps.C13SrcCore
import UmapProps.C13SrcA
import UmapProps.C13SrcB
import Mathlib.Tactic

set_option linter.unusedSectionVars false
set_option linter.unusedVariables false

namespace Umap
namespace C13Src
open Sparse SparseSrcSpec

/-! ## (a) the `CoreSpec`-relative theorems, with `C13SrcCore.coreSpec` supplied -/

section tiedGeneric
variable {α : Type} [Add α] [Sub α] [Mul α] [Div α] [Neg α] [LT α] [LE α]
  [DecidableLT α] [DecidableLE α] [OfNat α 0] [OfNat α 1] [NatCast α] [IntCast α]

theorem sparseEuclidean_tied (T : Transc α) (ind1 : List Nat) (data1 : List α) (ind2 : List Nat)
    (data2 : List α) (hc1 : Canon ind1 data1) (hc2 : Canon ind2 data2) :
    SrcSparse.sparseEuclidean T ind1 data1 ind2 data2
      = sEuclidean T (pack ind1 data1) (pack ind2 data2) :=
  C13SrcA.sparseEuclidean_src C13SrcCore.coreSpec T ind1 data1 ind2 data2 hc1 hc2

theorem sparseManhattan_tied (ind1 : List Nat) (data1 : List α) (ind2 : List Nat)
    (data2 : List α) (hc1 : Canon ind1 data1) (hc2 : Canon ind2 data2) :
    SrcSparse.sparseManhattan ind1 data1 ind2 data2
      = sManhattan (pack ind1 data1) (pack ind2 data2) :=
  C13SrcA.sparseManhattan_src C13SrcCore.coreSpec ind1 data1 ind2 data2 hc1 hc2

theorem sparseChebyshev_tied (ind1 : List Nat) (data1 : List α) (ind2 : List Nat)
    (data2 : List α) (hc1 : Canon ind1 data1) (hc2 : Canon ind2 data2) :
    SrcSparse.sparseChebyshev ind1 data1 ind2 data2
      = sChebyshev (pack ind1 data1) (pack ind2 data2) :=
  C13SrcA.sparseChebyshev_src C13SrcCore.coreSpec ind1 data1 ind2 data2 hc1 hc2

/-- argument order differs: the model takes `p` first -/
theorem sparseMinkowski_tied (T : Transc α) (ind1 : List Nat) (data1 : List α) (ind2 : List Nat)
    (data2 : List α) (p : α) (hc1 : Canon ind1 data1) (hc2 : Canon ind2 data2) :
    SrcSparse.sparseMinkowski T ind1 data1 ind2 data2 p
      = sMinkowski T p (pack ind1 data1) (pack ind2 data2) :=
  C13SrcA.sparseMinkowski_src C13SrcCore.coreSpec T ind1 data1 ind2 data2 p hc1 hc2

theorem sparseHamming_tied (ind1 : List Nat) (data1 : List α) (ind2 : List Nat)
    (data2 : List α) (n_features : Nat) (hc1 : Canon ind1 data1) (hc2 : Canon ind2 data2) :
    SrcSparse.sparseHamming ind1 data1 ind2 data2 n_features
      = sHamming n_features (pack ind1 data1) (pack ind2 data2) :=
  C13SrcA.sparseHamming_src C13SrcCore.coreSpec ind1 data1 ind2 data2 n_features hc1 hc2

theorem sparseCanberra_tied (ind1 : List Nat) (data1 : List α) (ind2 : List Nat)
    (data2 : List α) (hc1 : Canon ind1 data1) (hc2 : Canon ind2 data2) :
    SrcSparse.sparseCanberra ind1 data1 ind2 data2
      = sCanberra (pack ind1 data1) (pack ind2 data2) :=
  C13SrcA.sparseCanberra_src C13SrcCore.coreSpec ind1 data1 ind2 data2 hc1 hc2

theorem sparseBrayCurtis_tied (ind1 : List Nat) (data1 : List α) (ind2 : List Nat)
    (data2 : List α) (hc1 : Canon ind1 data1) (hc2 : Canon ind2 data2) :
    SrcSparse.sparseBrayCurtis ind1 data1 ind2 data2
      = sBrayCurtis (pack ind1 data1) (pack ind2 data2) :=
  C13SrcA.sparseBrayCurtis_src C13SrcCore.coreSpec ind1 data1 ind2 data2 hc1 hc2

theorem sparseCosine_tied (T : Transc α) (ind1 : List Nat) (data1 : List α) (ind2 : List Nat)
    (data2 : List α) (hc1 : Canon ind1 data1) (hc2 : Canon ind2 data2) :
    SrcSparse.sparseCosine T ind1 data1 ind2 data2
      = sCosine T (pack ind1 data1) (pack ind2 data2) :=
  C13SrcA.sparseCosine_src C13SrcCore.coreSpec T ind1 data1 ind2 data2 hc1 hc2

theorem sparseHellinger_tied (T : Transc α) (ind1 : List Nat) (data1 : List α) (ind2 : List Nat)
    (data2 : List α) (hc1 : Canon ind1 data1) (hc2 : Canon ind2 data2) :
    SrcSparse.sparseHellinger T ind1 data1 ind2 data2
      = sHellinger T (pack ind1 data1) (pack ind2 data2) :=
  C13SrcA.sparseHellinger_src C13SrcCore.coreSpec T ind1 data1 ind2 data2 hc1 hc2

/-- `sparse_ll_dirichlet` never needed `CoreSpec` (it has its own merge loop); restated here so that
    every metric has a `_tied` name. -/
theorem sparseLlDirichlet_tied (T : Transc α) (pi : α) (ind1 ind2 : List Nat) (data1 data2 : List α)
    (hc1 : Canon ind1 data1) (hc2 : Canon ind2 data2) :
    SrcSparse.sparseLlDirichlet T pi ind1 data1 ind2 data2
      = Sparse.sLlDirichlet T pi ((100000000 : Nat) : α) (pack ind1 data1) (pack ind2 data2) :=
  C13SrcB.sparseLlDirichlet_src T pi ind1 ind2 data1 data2 hc1 hc2

end tiedGeneric

section tiedField
variable {K : Type} [Field K] [LinearOrder K] [IsStrictOrderedRing K]

theorem sparseJaccard_tied (ind1 ind2 : List Nat) (data1 data2 : List K)
    (hc1 : Canon ind1 data1) (hc2 : Canon ind2 data2) :
    SrcSparse.sparseJaccard ind1 data1 ind2 data2
      = Sparse.sJaccard (pack ind1 data1) (pack ind2 data2) :=
  C13SrcB.sparseJaccard_src C13SrcCore.coreSpec ind1 ind2 data1 data2 hc1 hc2

theorem sparseMatching_tied (ind1 ind2 : List Nat) (data1 data2 : List K) (n : Nat)
    (hc1 : Canon ind1 data1) (hc2 : Canon ind2 data2) :
    SrcSparse.sparseMatching ind1 data1 ind2 data2 n
      = Sparse.sMatching n (pack ind1 data1) (pack ind2 data2) :=
  C13SrcB.sparseMatching_src C13SrcCore.coreSpec ind1 ind2 data1 data2 n hc1 hc2

theorem sparseDice_tied (ind1 ind2 : List Nat) (data1 data2 : List K)
    (hc1 : Canon ind1 data1) (hc2 : Canon ind2 data2) :
    SrcSparse.sparseDice ind1 data1 ind2 data2
      = Sparse.sDice (pack ind1 data1) (pack ind2 data2) :=
  C13SrcB.sparseDice_src C13SrcCore.coreSpec ind1 ind2 data1 data2 hc1 hc2

theorem sparseRogersTanimoto_tied (ind1 ind2 : List Nat) (data1 data2 : List K)
    (n : Nat) (hc1 : Canon ind1 data1) (hc2 : Canon ind2 data2) :
    SrcSparse.sparseRogersTanimoto ind1 data1 ind2 data2 n
      = Sparse.sRogersTanimoto n (pack ind1 data1) (pack ind2 data2) :=
  C13SrcB.sparseRogersTanimoto_src C13SrcCore.coreSpec ind1 ind2 data1 data2 n hc1 hc2

theorem sparseSokalMichener_tied (ind1 ind2 : List Nat) (data1 data2 : List K)
    (n : Nat) (hc1 : Canon ind1 data1) (hc2 : Canon ind2 data2) :
    SrcSparse.sparseSokalMichener ind1 data1 ind2 data2 n
      = Sparse.sSokalMichener n (pack ind1 data1) (pack ind2 data2) :=
  C13SrcB.sparseSokalMichener_src C13SrcCore.coreSpec ind1 ind2 data1 data2 n hc1 hc2

theorem sparseSokalSneath_tied (ind1 ind2 : List Nat) (data1 data2 : List K)
    (hc1 : Canon ind1 data1) (hc2 : Canon ind2 data2) :
    SrcSparse.sparseSokalSneath ind1 data1 ind2 data2
      = Sparse.sSokalSneath (pack ind1 data1) (pack ind2 data2) :=
  C13SrcB.sparseSokalSneath_src C13SrcCore.coreSpec ind1 ind2 data1 data2 hc1 hc2

/-- exact arithmetic condition (see `C13SrcB.sparseKulsinski_src_of_le`) -/
theorem sparseKulsinski_of_le_tied (ind1 ind2 : List Nat) (data1 data2 : List K)
    (n : Nat) (hc1 : Canon ind1 data1) (hc2 : Canon ind2 data2)
    (h_nfeatures : 2 * interSize (pack ind1 data1) (pack ind2 data2)
        ≤ unionSize (pack ind1 data1) (pack ind2 data2) + n) :
    SrcSparse.sparseKulsinski ind1 data1 ind2 data2 n
      = Sparse.sKulsinski n (pack ind1 data1) (pack ind2 data2) :=
  C13SrcB.sparseKulsinski_src_of_le C13SrcCore.coreSpec ind1 ind2 data1 data2 n hc1 hc2 h_nfeatures

theorem sparseKulsinski_tied (ind1 ind2 : List Nat) (data1 data2 : List K)
    (n : Nat) (hc1 : Canon ind1 data1) (hc2 : Canon ind2 data2)
    (h_nfeatures : ∀ k ∈ ind1, k < n) :
    SrcSparse.sparseKulsinski ind1 data1 ind2 data2 n
      = Sparse.sKulsinski n (pack ind1 data1) (pack ind2 data2) :=
  C13SrcB.sparseKulsinski_src C13SrcCore.coreSpec ind1 ind2 data1 data2 n hc1 hc2 h_nfeatures

/-- exact arithmetic condition (see `C13SrcB.sparseRussellrao_src_of_le`) -/
theorem sparseRussellrao_of_le_tied (ind1 ind2 : List Nat) (data1 data2 : List K)
    (n : Nat) (hc1 : Canon ind1 data1) (hc2 : Canon ind2 data2)
    (h_nfeatures : interSize (pack ind1 data1) (pack ind2 data2) ≤ n) :
    SrcSparse.sparseRussellrao ind1 data1 ind2 data2 n
      = Sparse.sRussellRao n (pack ind1 data1) (pack ind2 data2) :=
  C13SrcB.sparseRussellrao_src_of_le C13SrcCore.coreSpec ind1 ind2 data1 data2 n hc1 hc2 h_nfeatures

theorem sparseRussellrao_tied (ind1 ind2 : List Nat) (data1 data2 : List K)
    (n : Nat) (hc1 : Canon ind1 data1) (hc2 : Canon ind2 data2)
    (h_nfeatures : ∀ k ∈ ind1, k < n) :
    SrcSparse.sparseRussellrao ind1 data1 ind2 data2 n
      = Sparse.sRussellRao n (pack ind1 data1) (pack ind2 data2) :=
  C13SrcB.sparseRussellrao_src C13SrcCore.coreSpec ind1 ind2 data1 data2 n hc1 hc2 h_nfeatures

/-- exact arithmetic conditions (see `C13SrcB.sparseCorrelation_src_of_le`) -/
theorem sparseCorrelation_of_le_tied (T : Transc K)
    (h_sqrt : ∀ a : K, 0 ≤ a → T.sqrt a * T.sqrt a = a)
    (ind1 ind2 : List Nat) (data1 data2 : List K)
    (n : Nat) (hc1 : Canon ind1 data1) (hc2 : Canon ind2 data2)
    (h_n1 : ind1.length ≤ n) (h_n2 : ind2.length ≤ n)
    (h_nU : unionSize (pack ind1 data1) (pack ind2 data2) ≤ n) :
    SrcSparse.sparseCorrelation T ind1 data1 ind2 data2 n
      = Sparse.sCorrelation T n (pack ind1 data1) (pack ind2 data2) :=
  C13SrcB.sparseCorrelation_src_of_le C13SrcCore.coreSpec T h_sqrt ind1 ind2 data1 data2 n hc1 hc2
    h_n1 h_n2 h_nU

theorem sparseCorrelation_tied (T : Transc K)
    (h_sqrt : ∀ a : K, 0 ≤ a → T.sqrt a * T.sqrt a = a)
    (ind1 ind2 : List Nat) (data1 data2 : List K)
    (n : Nat) (hc1 : Canon ind1 data1) (hc2 : Canon ind2 data2)
    (h_nfeatures1 : ∀ k ∈ ind1, k < n) (h_nfeatures2 : ∀ k ∈ ind2, k < n) :
    SrcSparse.sparseCorrelation T ind1 data1 ind2 data2 n
      = Sparse.sCorrelation T n (pack ind1 data1) (pack ind2 data2) :=
  C13SrcB.sparseCorrelation_src C13SrcCore.coreSpec T h_sqrt ind1 ind2 data1 data2 n hc1 hc2
    h_nfeatures1 h_nfeatures2

end tiedField

/-! ## (b) end to end: translated sparse kernel = translated dense kernel on the densified rows -/

section bridge
variable {α : Type}

/-- `Canon` rows are `C13.Sorted` once packed -/
theorem sorted_pack {ind : List Nat} {data : List α} (hc : Canon ind data) :
    C13.Sorted (pack ind data) := C13SrcB.sorted_pack hc

/-- index bound on the row ⇒ index bound on the packed cells -/
theorem bound_pack {ind : List Nat} {data : List α} (n : Nat) (hc : Canon ind data)
    (h : ∀ k ∈ ind, k < n) : ∀ p ∈ pack ind data, p.1 < n := C13SrcB.mem_pack_bound n hc h

/-- a property of all stored values is a property of all packed cells -/
theorem vals_pack_forall {ind : List Nat} {data : List α} (P : α → Prop)
    (h : ∀ v ∈ data, P v) : ∀ p ∈ pack ind data, P p.2 := by
  intro p hp
  obtain ⟨i, a⟩ := p
  exact h a (List.of_mem_zip hp).2

end bridge

section e2e
variable {K : Type} [Field K] [LinearOrder K] [IsStrictOrderedRing K]

/-- no stored zero ⇒ `C13.Canonical` -/
theorem canonical_pack {ind : List Nat} {data : List K} (hc : Canon ind data)
    (h_nz : ∀ v ∈ data, v ≠ 0) : C13.Canonical (pack ind data) :=
  ⟨sorted_pack hc, vals_pack_forall (fun v => v ≠ 0) h_nz⟩

/-- the two densified rows have the same length -/
theorem length_toDense_eq (n : Nat) (x y : SVec K) :
    (toDense n x).length = (toDense n y).length := by
  rw [C13.length_toDense, C13.length_toDense]

variable (ind1 ind2 : List Nat) (data1 data2 : List K) (n : Nat)
  (hc1 : Canon ind1 data1) (hc2 : Canon ind2 data2)
  (h_n1 : ∀ k ∈ ind1, k < n) (h_n2 : ∀ k ∈ ind2, k < n)

/-! ### real-valued metrics: sortedness and the index bound suffice -/

include hc1 hc2 h_n1 h_n2 in
theorem euclidean_sparse_eq_dense_src (T : Transc K) :
    SrcSparse.sparseEuclidean T ind1 data1 ind2 data2
      = Src.euclidean T (toDense n (pack ind1 data1)) (toDense n (pack ind2 data2)) := by
  rw [sparseEuclidean_tied T ind1 data1 ind2 data2 hc1 hc2,
    C13.sEuclidean_eq T n _ _ (sorted_pack hc1) (sorted_pack hc2)
      (bound_pack n hc1 h_n1) (bound_pack n hc2 h_n2),
    C12SrcA.euclidean_src T _ _ (length_toDense_eq n _ _)]

include hc1 hc2 h_n1 h_n2 in
theorem manhattan_sparse_eq_dense_src :
    SrcSparse.sparseManhattan ind1 data1 ind2 data2
      = Src.manhattan (toDense n (pack ind1 data1)) (toDense n (pack ind2 data2)) := by
  rw [sparseManhattan_tied ind1 data1 ind2 data2 hc1 hc2,
    C13.sManhattan_eq n _ _ (sorted_pack hc1) (sorted_pack hc2)
      (bound_pack n hc1 h_n1) (bound_pack n hc2 h_n2),
    C12SrcA.manhattan_src _ _ (length_toDense_eq n _ _)]

include hc1 hc2 h_n1 h_n2 in
theorem chebyshev_sparse_eq_dense_src :
    SrcSparse.sparseChebyshev ind1 data1 ind2 data2
      = Src.chebyshev (toDense n (pack ind1 data1)) (toDense n (pack ind2 data2)) := by
  rw [sparseChebyshev_tied ind1 data1 ind2 data2 hc1 hc2,
    C13.sChebyshev_eq n _ _ (sorted_pack hc1) (sorted_pack hc2)
      (bound_pack n hc1 h_n1) (bound_pack n hc2 h_n2),
    C12SrcA.chebyshev_src _ _ (length_toDense_eq n _ _)]

include hc1 hc2 h_n1 h_n2 in
/-- `h_pow`: the power function sends `0` to `0` at exponent `p` (true of `Real.rpow` for `p ≠ 0`). -/
theorem minkowski_sparse_eq_dense_src (T : Transc K) (p : K) (h_pow : T.pow 0 p = 0) :
    SrcSparse.sparseMinkowski T ind1 data1 ind2 data2 p
      = Src.minkowski T (toDense n (pack ind1 data1)) (toDense n (pack ind2 data2)) p := by
  rw [sparseMinkowski_tied T ind1 data1 ind2 data2 p hc1 hc2,
    C13.sMinkowski_eq T p h_pow n _ _ (sorted_pack hc1) (sorted_pack hc2)
      (bound_pack n hc1 h_n1) (bound_pack n hc2 h_n2),
    C12SrcA.minkowski_src T p _ _ (length_toDense_eq n _ _)]

include hc1 hc2 h_n1 h_n2 in
/-- the sparse kernel's `n_features` argument is the densification length `n` -/
theorem hamming_sparse_eq_dense_src :
    SrcSparse.sparseHamming ind1 data1 ind2 data2 n
      = Src.hamming (toDense n (pack ind1 data1)) (toDense n (pack ind2 data2)) := by
  rw [sparseHamming_tied ind1 data1 ind2 data2 n hc1 hc2,
    C13.sHamming_eq n _ _ (sorted_pack hc1) (sorted_pack hc2)
      (bound_pack n hc1 h_n1) (bound_pack n hc2 h_n2),
    C12SrcA.hamming_src _ _ (length_toDense_eq n _ _)]

include hc1 hc2 h_n1 h_n2 in
theorem canberra_sparse_eq_dense_src :
    SrcSparse.sparseCanberra ind1 data1 ind2 data2
      = Src.canberra (toDense n (pack ind1 data1)) (toDense n (pack ind2 data2)) := by
  rw [sparseCanberra_tied ind1 data1 ind2 data2 hc1 hc2,
    C13.sCanberra_eq n _ _ (sorted_pack hc1) (sorted_pack hc2)
      (bound_pack n hc1 h_n1) (bound_pack n hc2 h_n2),
    C12SrcA.canberra_src _ _ (length_toDense_eq n _ _)]

include hc1 hc2 h_n1 h_n2 in
theorem braycurtis_sparse_eq_dense_src :
    SrcSparse.sparseBrayCurtis ind1 data1 ind2 data2
      = Src.brayCurtis (toDense n (pack ind1 data1)) (toDense n (pack ind2 data2)) := by
  rw [sparseBrayCurtis_tied ind1 data1 ind2 data2 hc1 hc2,
    C13.sBrayCurtis_eq n _ _ (sorted_pack hc1) (sorted_pack hc2)
      (bound_pack n hc1 h_n1) (bound_pack n hc2 h_n2),
    C12SrcA.brayCurtis_src _ _ (length_toDense_eq n _ _)]

include hc1 hc2 h_n1 h_n2 in
/-- `h_sqrt0`, `h_sqrt_mul`: the square root vanishes only at `0` and is multiplicative on `[0, ∞)`. -/
theorem cosine_sparse_eq_dense_src (T : Transc K)
    (h_sqrt0 : ∀ a, 0 ≤ a → (T.sqrt a = 0 ↔ a = 0))
    (h_sqrt_mul : ∀ a b, 0 ≤ a → 0 ≤ b → T.sqrt a * T.sqrt b = T.sqrt (a * b)) :
    SrcSparse.sparseCosine T ind1 data1 ind2 data2
      = Src.cosine T (toDense n (pack ind1 data1)) (toDense n (pack ind2 data2)) := by
  rw [sparseCosine_tied T ind1 data1 ind2 data2 hc1 hc2,
    C13.sCosine_eq T h_sqrt0 h_sqrt_mul n _ _ (sorted_pack hc1) (sorted_pack hc2)
      (bound_pack n hc1 h_n1) (bound_pack n hc2 h_n2),
    C12SrcA.cosine_src T _ _ (length_toDense_eq n _ _)]

include hc1 hc2 h_n1 h_n2 in
/-- `h_nonneg1/2`: the stored values are non-negative (hellinger is a distance between
    non-negative vectors); `h_sqrt_zero`, `h_sqrt_pos`: `sqrt 0 = 0`, `sqrt` positive on `(0, ∞)`. -/
theorem hellinger_sparse_eq_dense_src (T : Transc K)
    (h_sqrt_zero : T.sqrt 0 = 0) (h_sqrt_pos : ∀ a, 0 < a → 0 < T.sqrt a)
    (h_nonneg1 : ∀ v ∈ data1, 0 ≤ v) (h_nonneg2 : ∀ v ∈ data2, 0 ≤ v) :
    SrcSparse.sparseHellinger T ind1 data1 ind2 data2
      = Src.hellinger T (toDense n (pack ind1 data1)) (toDense n (pack ind2 data2)) := by
  rw [sparseHellinger_tied T ind1 data1 ind2 data2 hc1 hc2,
    C13.sHellinger_eq T h_sqrt_zero h_sqrt_pos n _ _ (sorted_pack hc1) (sorted_pack hc2)
      (bound_pack n hc1 h_n1) (bound_pack n hc2 h_n2)
      (vals_pack_forall (fun v => 0 ≤ v) h_nonneg1) (vals_pack_forall (fun v => 0 ≤ v) h_nonneg2),
    C12SrcA.hellinger_src T _ _ (length_toDense_eq n _ _)]

include hc1 hc2 h_n1 h_n2 in
/-- `h_sqrt_sq` (needed by the source→model step: the source squares a square root),
    `h_sqrt0`, `h_sqrt_mul` (needed by the model sparse→dense step). -/
theorem correlation_sparse_eq_dense_src (T : Transc K)
    (h_sqrt_sq : ∀ a : K, 0 ≤ a → T.sqrt a * T.sqrt a = a)
    (h_sqrt0 : ∀ a, 0 ≤ a → (T.sqrt a = 0 ↔ a = 0))
    (h_sqrt_mul : ∀ a b, 0 ≤ a → 0 ≤ b → T.sqrt a * T.sqrt b = T.sqrt (a * b)) :
    SrcSparse.sparseCorrelation T ind1 data1 ind2 data2 n
      = Src.correlation T (toDense n (pack ind1 data1)) (toDense n (pack ind2 data2)) := by
  rw [sparseCorrelation_tied T h_sqrt_sq ind1 ind2 data1 data2 n hc1 hc2 h_n1 h_n2,
    C13.sCorrelation_eq T h_sqrt0 h_sqrt_mul n _ _ (sorted_pack hc1) (sorted_pack hc2)
      (bound_pack n hc1 h_n1) (bound_pack n hc2 h_n2),
    C12SrcA.correlation_src T _ _ (length_toDense_eq n _ _)]

include hc1 hc2 h_n1 h_n2 in
/-- `h_ge1_1/2`: the stored values are `≥ 1` (counts); both sides then use the same cut-off constant
    `10^8` (`C12SrcC.llDirichlet_src`, `C13SrcB.sparseLlDirichlet_src`). -/
theorem ll_dirichlet_sparse_eq_dense_src (T : Transc K) (pi : K)
    (h_ge1_1 : ∀ v ∈ data1, 1 ≤ v) (h_ge1_2 : ∀ v ∈ data2, 1 ≤ v) :
    SrcSparse.sparseLlDirichlet T pi ind1 data1 ind2 data2
      = Src.llDirichlet T pi (toDense n (pack ind1 data1)) (toDense n (pack ind2 data2)) := by
  rw [sparseLlDirichlet_tied T pi ind1 ind2 data1 data2 hc1 hc2,
    C13.sLlDirichlet_eq T pi _ n _ _ (sorted_pack hc1) (sorted_pack hc2)
      (bound_pack n hc1 h_n1) (bound_pack n hc2 h_n2)
      (vals_pack_forall (fun v => 1 ≤ v) h_ge1_1) (vals_pack_forall (fun v => 1 ≤ v) h_ge1_2),
    C12SrcC.llDirichlet_src_field T pi _ _ (length_toDense_eq n _ _)]

/-! ### the binary / count family: additionally no stored zero (`C13.Canonical`) -/

variable (h_nz1 : ∀ v ∈ data1, v ≠ 0) (h_nz2 : ∀ v ∈ data2, v ≠ 0)

include hc1 hc2 h_n1 h_n2 h_nz1 h_nz2 in
theorem jaccard_sparse_eq_dense_src :
    SrcSparse.sparseJaccard ind1 data1 ind2 data2
      = Src.jaccard (toDense n (pack ind1 data1)) (toDense n (pack ind2 data2)) := by
  rw [sparseJaccard_tied ind1 ind2 data1 data2 hc1 hc2,
    C13.sJaccard_eq n _ _ (canonical_pack hc1 h_nz1) (canonical_pack hc2 h_nz2)
      (bound_pack n hc1 h_n1) (bound_pack n hc2 h_n2),
    C12SrcB.jaccard_src _ _ (length_toDense_eq n _ _)]

include hc1 hc2 h_n1 h_n2 h_nz1 h_nz2 in
theorem matching_sparse_eq_dense_src :
    SrcSparse.sparseMatching ind1 data1 ind2 data2 n
      = Src.matching (toDense n (pack ind1 data1)) (toDense n (pack ind2 data2)) := by
  rw [sparseMatching_tied ind1 ind2 data1 data2 n hc1 hc2,
    C13.sMatching_eq n _ _ (canonical_pack hc1 h_nz1) (canonical_pack hc2 h_nz2)
      (bound_pack n hc1 h_n1) (bound_pack n hc2 h_n2),
    C12SrcB.matching_src _ _ (length_toDense_eq n _ _)]

include hc1 hc2 h_n1 h_n2 h_nz1 h_nz2 in
theorem dice_sparse_eq_dense_src :
    SrcSparse.sparseDice ind1 data1 ind2 data2
      = Src.dice (toDense n (pack ind1 data1)) (toDense n (pack ind2 data2)) := by
  rw [sparseDice_tied ind1 ind2 data1 data2 hc1 hc2,
    C13.sDice_eq n _ _ (canonical_pack hc1 h_nz1) (canonical_pack hc2 h_nz2)
      (bound_pack n hc1 h_n1) (bound_pack n hc2 h_n2),
    C12SrcB.dice_src _ _ (length_toDense_eq n _ _)]

include hc1 hc2 h_n1 h_n2 h_nz1 h_nz2 in
theorem kulsinski_sparse_eq_dense_src :
    SrcSparse.sparseKulsinski ind1 data1 ind2 data2 n
      = Src.kulsinski (toDense n (pack ind1 data1)) (toDense n (pack ind2 data2)) := by
  rw [sparseKulsinski_tied ind1 ind2 data1 data2 n hc1 hc2 h_n1,
    C13.sKulsinski_eq n _ _ (canonical_pack hc1 h_nz1) (canonical_pack hc2 h_nz2)
      (bound_pack n hc1 h_n1) (bound_pack n hc2 h_n2),
    C12SrcB.kulsinski_src _ _ (length_toDense_eq n _ _)]

include hc1 hc2 h_n1 h_n2 h_nz1 h_nz2 in
theorem rogerstanimoto_sparse_eq_dense_src :
    SrcSparse.sparseRogersTanimoto ind1 data1 ind2 data2 n
      = Src.rogersTanimoto (toDense n (pack ind1 data1)) (toDense n (pack ind2 data2)) := by
  rw [sparseRogersTanimoto_tied ind1 ind2 data1 data2 n hc1 hc2,
    C13.sRogersTanimoto_eq n _ _ (canonical_pack hc1 h_nz1) (canonical_pack hc2 h_nz2)
      (bound_pack n hc1 h_n1) (bound_pack n hc2 h_n2),
    C12SrcB.rogersTanimoto_src _ _ (length_toDense_eq n _ _)]

include hc1 hc2 h_n1 h_n2 h_nz1 h_nz2 in
theorem sokalmichener_sparse_eq_dense_src :
    SrcSparse.sparseSokalMichener ind1 data1 ind2 data2 n
      = Src.sokalMichener (toDense n (pack ind1 data1)) (toDense n (pack ind2 data2)) := by
  rw [sparseSokalMichener_tied ind1 ind2 data1 data2 n hc1 hc2,
    C13.sSokalMichener_eq n _ _ (canonical_pack hc1 h_nz1) (canonical_pack hc2 h_nz2)
      (bound_pack n hc1 h_n1) (bound_pack n hc2 h_n2),
    C12SrcB.sokalMichener_src _ _ (length_toDense_eq n _ _)]

include hc1 hc2 h_n1 h_n2 h_nz1 h_nz2 in
theorem sokalsneath_sparse_eq_dense_src :
    SrcSparse.sparseSokalSneath ind1 data1 ind2 data2
      = Src.sokalSneath (toDense n (pack ind1 data1)) (toDense n (pack ind2 data2)) := by
  rw [sparseSokalSneath_tied ind1 ind2 data1 data2 hc1 hc2,
    C13.sSokalSneath_eq n _ _ (canonical_pack hc1 h_nz1) (canonical_pack hc2 h_nz2)
      (bound_pack n hc1 h_n1) (bound_pack n hc2 h_n2),
    C12SrcB.sokalSneath_src _ _ (length_toDense_eq n _ _)]

include hc1 hc2 h_n1 h_n2 h_nz1 h_nz2 in
theorem russellrao_sparse_eq_dense_src :
    SrcSparse.sparseRussellrao ind1 data1 ind2 data2 n
      = Src.russellrao (toDense n (pack ind1 data1)) (toDense n (pack ind2 data2)) := by
  rw [sparseRussellrao_tied ind1 ind2 data1 data2 n hc1 hc2 h_n1,
    C13.sRussellRao_eq n _ _ (canonical_pack hc1 h_nz1) (canonical_pack hc2 h_nz2)
      (bound_pack n hc1 h_n1) (bound_pack n hc2 h_n2),
    C12SrcB.russellrao_src _ _ (length_toDense_eq n _ _)]

end e2e

end C13Src
end Umap
