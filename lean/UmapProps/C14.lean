/-
  C14 — metric gradients are the derivatives of the distances they accompany.
-/
import UmapModel.Grad
