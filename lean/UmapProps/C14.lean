/-
  C14 — metric gradients are the derivatives of the distances they accompany.

  Model: `Umap.Grad` (Python: `umap/distances.py`, the `*_grad` functions), at `ℝ` with
  `Umap.realT`.  Vectors are functions `Fin n → ℝ` turned into the model's lists by `List.ofFn`;
  "coordinate `i` varies" is `Function.update x i t`.  For each metric:

  * `…Grad_fst`, `…Grad_snd`: closed forms of the returned distance / gradient list;
  * `…Grad_length`: the gradient list has length `n`;
  * `…_grad_hasDerivAt`: at `eps = 0` the `i`-th gradient entry is the derivative in `x i` of
    the returned distance, under the differentiability conditions of the metric;
  * `…_grad_eps`: the exact relation between the regularised (`eps ≠ 0`) gradient and the true one.
-/
import UmapProofs.GradLemmas
import Mathlib.Analysis.SpecialFunctions.Pow.Deriv
import Mathlib.Analysis.InnerProductSpace.NormPow
import Mathlib.Analysis.SpecialFunctions.Arcosh
import Mathlib.Analysis.SpecialFunctions.Log.Deriv

namespace Umap
namespace C14
open Metrics

variable {n : ℕ}

/-! ### small algebra helpers -/

theorem two_mul_div_two_mul (a b : ℝ) : 2 * a / (2 * b) = a / b :=
  mul_div_mul_left a b two_ne_zero

theorem sumsq_ne_zero {x y : Fin n → ℝ} (hne : x ≠ y) :
    ∑ j, (x j - y j) * (x j - y j) ≠ 0 := by
  intro h
  apply hne
  funext j
  have := (Finset.sum_eq_zero_iff_of_nonneg
    (fun j _ => mul_self_nonneg (x j - y j))).1 h j (Finset.mem_univ j)
  have := mul_self_eq_zero.1 this
  linarith

theorem sumsq_pos {x y : Fin n → ℝ} (hne : x ≠ y) :
    0 < ∑ j, (x j - y j) * (x j - y j) :=
  lt_of_le_of_ne (Finset.sum_nonneg (fun j _ => mul_self_nonneg _)) (Ne.symm (sumsq_ne_zero hne))

/-! ### euclidean -/

theorem euclideanGrad_fst (eps : ℝ) (x y : Fin n → ℝ) :
    (Grad.euclideanGrad realT eps (List.ofFn x) (List.ofFn y)).1
      = Real.sqrt (∑ j, (x j - y j) * (x j - y j)) := by
  simp only [Grad.euclideanGrad, euclidean, diffs_ofFn, map_ofFn', sumL_ofFn, realT]

theorem euclideanGrad_snd (eps : ℝ) (x y : Fin n → ℝ) :
    (Grad.euclideanGrad realT eps (List.ofFn x) (List.ofFn y)).2
      = List.ofFn (fun j => (x j - y j) / (eps + Real.sqrt (∑ k, (x k - y k) * (x k - y k)))) := by
  simp only [Grad.euclideanGrad, euclidean, diffs_ofFn, map_ofFn', sumL_ofFn, realT]

theorem euclideanGrad_length (eps : ℝ) (x y : Fin n → ℝ) :
    (Grad.euclideanGrad realT eps (List.ofFn x) (List.ofFn y)).2.length = n := by
  rw [euclideanGrad_snd, List.length_ofFn]

/-- the squared euclidean norm of the difference, as a function of coordinate `i`. -/
theorem hasDerivAt_sumsq (x y : Fin n → ℝ) (i : Fin n) :
    HasDerivAt (fun t => ∑ j, (Function.update x i t j - y j) * (Function.update x i t j - y j))
      (2 * (x i - y i)) (x i) := by
  apply hasDerivAt_sum_update (fun j s => (s - y j) * (s - y j))
  have h : HasDerivAt (fun s : ℝ => s - y i) 1 (x i) := (hasDerivAt_id' (x i)).sub_const (y i)
  exact (h.fun_mul h).congr_deriv (by ring)

/-- C14, euclidean: the gradient is the derivative of the distance wherever `x ≠ y`. -/
theorem euclidean_grad_hasDerivAt (n : ℕ) (x y : Fin n → ℝ) (i : Fin n) (hne : x ≠ y) :
    HasDerivAt
      (fun t => (Grad.euclideanGrad realT 0 (List.ofFn (Function.update x i t)) (List.ofFn y)).1)
      ((Grad.euclideanGrad realT 0 (List.ofFn x) (List.ofFn y)).2.getD i.val 0) (x i) := by
  simp_rw [euclideanGrad_fst]
  rw [euclideanGrad_snd, getD_ofFn]
  have h2 := (hasDerivAt_sumsq x y i).sqrt
    (by simp only [Function.update_eq_self]; exact sumsq_ne_zero hne)
  convert h2 using 1
  simp only [Function.update_eq_self, zero_add]
  rw [two_mul_div_two_mul]

example : HasDerivAt
    (fun t => (Grad.euclideanGrad realT 0 (List.ofFn (Function.update ![1, 2] 0 t))
      (List.ofFn ![0, 0])).1)
    ((Grad.euclideanGrad realT 0 (List.ofFn ![1, 2]) (List.ofFn ![0, 0])).2.getD (0 : Fin 2).val 0)
    ((![1, 2] : Fin 2 → ℝ) 0) :=
  euclidean_grad_hasDerivAt 2 ![1, 2] ![0, 0] 0
    (by intro h; have := congrFun h 0; simp at this)

/-- the regularised gradient is the true one shrunk by `d / (eps + d)`. -/
theorem euclidean_grad_eps (eps : ℝ) (x y : Fin n → ℝ) (i : Fin n) (hne : x ≠ y) :
    (Grad.euclideanGrad realT eps (List.ofFn x) (List.ofFn y)).2.getD i.val 0
      = (Grad.euclideanGrad realT 0 (List.ofFn x) (List.ofFn y)).2.getD i.val 0
        * ((Grad.euclideanGrad realT 0 (List.ofFn x) (List.ofFn y)).1
            / (eps + (Grad.euclideanGrad realT 0 (List.ofFn x) (List.ofFn y)).1)) := by
  rw [euclideanGrad_snd, euclideanGrad_snd, euclideanGrad_fst, getD_ofFn, getD_ofFn, zero_add]
  have hd : Real.sqrt (∑ j, (x j - y j) * (x j - y j)) ≠ 0 :=
    (Real.sqrt_pos.2 (sumsq_pos hne)).ne'
  rw [div_mul_div_comm, mul_comm (x i - y i), mul_div_mul_left _ _ hd]

/-! ### manhattan -/

theorem manhattanGrad_fst (x y : Fin n → ℝ) :
    (Grad.manhattanGrad (List.ofFn x) (List.ofFn y)).1 = ∑ j, |x j - y j| := by
  simp only [Grad.manhattanGrad, manhattan, diffs_ofFn, map_ofFn', sumL_ofFn, absV_eq_abs]

theorem manhattanGrad_snd (x y : Fin n → ℝ) :
    (Grad.manhattanGrad (List.ofFn x) (List.ofFn y)).2
      = List.ofFn (fun j => signV (x j - y j)) := by
  simp only [Grad.manhattanGrad, diffs_ofFn, map_ofFn']

theorem manhattanGrad_length (x y : Fin n → ℝ) :
    (Grad.manhattanGrad (List.ofFn x) (List.ofFn y)).2.length = n := by
  rw [manhattanGrad_snd, List.length_ofFn]

/-- C14, manhattan: differentiable in `x i` wherever `x i ≠ y i`. -/
theorem manhattan_grad_hasDerivAt (n : ℕ) (x y : Fin n → ℝ) (i : Fin n) (hi : x i ≠ y i) :
    HasDerivAt
      (fun t => (Grad.manhattanGrad (List.ofFn (Function.update x i t)) (List.ofFn y)).1)
      ((Grad.manhattanGrad (List.ofFn x) (List.ofFn y)).2.getD i.val 0) (x i) := by
  simp_rw [manhattanGrad_fst]
  rw [manhattanGrad_snd, getD_ofFn]
  exact hasDerivAt_sum_update (fun j s => |s - y j|) x i _ (hasDerivAt_abs_sub hi)

example : HasDerivAt
    (fun t => (Grad.manhattanGrad (List.ofFn (Function.update ![1, 0] 0 t))
      (List.ofFn ![0, 0])).1)
    ((Grad.manhattanGrad (List.ofFn ![1, 0]) (List.ofFn ![0, 0])).2.getD (0 : Fin 2).val 0)
    ((![1, 0] : Fin 2 → ℝ) 0) :=
  manhattan_grad_hasDerivAt 2 ![1, 0] ![0, 0] 0 (by simp)

/-! ### standardised euclidean -/

theorem seuclideanGrad_fst (eps : ℝ) (sigma x y : Fin n → ℝ) :
    (Grad.seuclideanGrad realT eps (List.ofFn sigma) (List.ofFn x) (List.ofFn y)).1
      = Real.sqrt (∑ j, (x j - y j) * (x j - y j) / sigma j) := by
  simp only [Grad.seuclideanGrad, seuclidean, diffs_ofFn, zip_ofFn, map_ofFn', sumL_ofFn, realT]

theorem seuclideanGrad_snd (eps : ℝ) (sigma x y : Fin n → ℝ) :
    (Grad.seuclideanGrad realT eps (List.ofFn sigma) (List.ofFn x) (List.ofFn y)).2
      = List.ofFn (fun j => (x j - y j)
          / (eps + Real.sqrt (∑ k, (x k - y k) * (x k - y k) / sigma k) * sigma j)) := by
  simp only [Grad.seuclideanGrad, seuclidean, diffs_ofFn, zip_ofFn, map_ofFn', sumL_ofFn, realT]

theorem seuclideanGrad_length (eps : ℝ) (sigma x y : Fin n → ℝ) :
    (Grad.seuclideanGrad realT eps (List.ofFn sigma) (List.ofFn x) (List.ofFn y)).2.length = n := by
  rw [seuclideanGrad_snd, List.length_ofFn]

/-- C14, seuclidean, general form: differentiable wherever the weighted sum of squares is
    non-zero. -/
theorem seuclidean_grad_hasDerivAt' (n : ℕ) (sigma x y : Fin n → ℝ) (i : Fin n)
    (hS : ∑ j, (x j - y j) * (x j - y j) / sigma j ≠ 0) :
    HasDerivAt
      (fun t => (Grad.seuclideanGrad realT 0 (List.ofFn sigma)
        (List.ofFn (Function.update x i t)) (List.ofFn y)).1)
      ((Grad.seuclideanGrad realT 0 (List.ofFn sigma) (List.ofFn x) (List.ofFn y)).2.getD i.val 0)
      (x i) := by
  simp_rw [seuclideanGrad_fst]
  rw [seuclideanGrad_snd, getD_ofFn]
  have h1 : HasDerivAt (fun t => ∑ j, (Function.update x i t j - y j)
      * (Function.update x i t j - y j) / sigma j) (2 * (x i - y i) / sigma i) (x i) := by
    apply hasDerivAt_sum_update (fun j s => (s - y j) * (s - y j) / sigma j)
    have h : HasDerivAt (fun s : ℝ => s - y i) 1 (x i) := (hasDerivAt_id' (x i)).sub_const (y i)
    exact ((h.fun_mul h).div_const (sigma i)).congr_deriv (by ring)
  have h2 := h1.sqrt (by simp only [Function.update_eq_self]; exact hS)
  convert h2 using 1
  simp only [Function.update_eq_self, zero_add]
  rw [mul_div_assoc, two_mul_div_two_mul, div_div, mul_comm]

/-- C14, seuclidean: positive variances, `x ≠ y`. -/
theorem seuclidean_grad_hasDerivAt (n : ℕ) (sigma x y : Fin n → ℝ) (i : Fin n)
    (hs : ∀ j, 0 < sigma j) (hne : x ≠ y) :
    HasDerivAt
      (fun t => (Grad.seuclideanGrad realT 0 (List.ofFn sigma)
        (List.ofFn (Function.update x i t)) (List.ofFn y)).1)
      ((Grad.seuclideanGrad realT 0 (List.ofFn sigma) (List.ofFn x) (List.ofFn y)).2.getD i.val 0)
      (x i) := by
  apply seuclidean_grad_hasDerivAt'
  intro h
  apply hne
  funext j
  have := (Finset.sum_eq_zero_iff_of_nonneg
    (fun j _ => div_nonneg (mul_self_nonneg (x j - y j)) (hs j).le)).1 h j (Finset.mem_univ j)
  rw [div_eq_zero_iff] at this
  rcases this with h0 | h0
  · have := mul_self_eq_zero.1 h0; linarith
  · exact absurd h0 (hs j).ne'

example : HasDerivAt
    (fun t => (Grad.seuclideanGrad realT 0 (List.ofFn ![2, 3])
      (List.ofFn (Function.update ![1, 2] 0 t)) (List.ofFn ![0, 0])).1)
    ((Grad.seuclideanGrad realT 0 (List.ofFn ![2, 3]) (List.ofFn ![1, 2])
      (List.ofFn ![0, 0])).2.getD (0 : Fin 2).val 0)
    ((![1, 2] : Fin 2 → ℝ) 0) :=
  seuclidean_grad_hasDerivAt 2 ![2, 3] ![1, 2] ![0, 0] 0
    (by intro j; fin_cases j <;> simp)
    (by intro h; have := congrFun h 0; simp at this)

/-! ### cosine -/

theorem sum_mul_self_ne_zero {x : Fin n → ℝ} (hx : x ≠ 0) : ∑ j, x j * x j ≠ 0 := by
  intro h
  apply hx
  funext j
  have := (Finset.sum_eq_zero_iff_of_nonneg
    (fun j _ => mul_self_nonneg (x j))).1 h j (Finset.mem_univ j)
  exact mul_self_eq_zero.1 this

theorem sum_mul_self_pos {x : Fin n → ℝ} (hx : x ≠ 0) : 0 < ∑ j, x j * x j :=
  lt_of_le_of_ne (Finset.sum_nonneg (fun j _ => mul_self_nonneg _))
    (Ne.symm (sum_mul_self_ne_zero hx))

/-- closed form of the cosine distance returned by `cosineGrad`, for every `x` once `y ≠ 0`
    (for `x = 0` the convention `1` agrees with `1 - r / 0`). -/
theorem cosineGrad_fst (x y : Fin n → ℝ) (hy : y ≠ 0) :
    (Grad.cosineGrad realT (List.ofFn x) (List.ofFn y)).1
      = 1 - (∑ j, x j * y j) / Real.sqrt ((∑ j, x j * x j) * (∑ j, y j * y j)) := by
  have hy' := sum_mul_self_ne_zero hy
  simp only [Grad.cosineGrad, dot_ofFn, Bool.and_eq_true, Bool.or_eq_true, eqV_iff, realT]
  split_ifs with h1 h2
  · exact absurd h1.2 hy'
  · rcases h2 with h2 | h2
    · rw [h2]; simp
    · exact absurd h2 hy'
  · rfl

theorem cosineGrad_snd (x y : Fin n → ℝ) (hx : x ≠ 0) (hy : y ≠ 0) :
    (Grad.cosineGrad realT (List.ofFn x) (List.ofFn y)).2
      = List.ofFn (fun j => (x j * (∑ k, x k * y k) - y j * (∑ k, x k * x k))
          / Real.sqrt ((∑ k, x k * x k) * (∑ k, x k * x k) * (∑ k, x k * x k)
              * (∑ k, y k * y k))) := by
  have hx' := sum_mul_self_ne_zero hx
  have hy' := sum_mul_self_ne_zero hy
  simp only [Grad.cosineGrad, dot_ofFn, Bool.and_eq_true, Bool.or_eq_true, eqV_iff, realT]
  split_ifs with h1 h2
  · exact absurd h1.2 hy'
  · rcases h2 with h2 | h2
    · exact absurd h2 hx'
    · exact absurd h2 hy'
  · simp only [zip_ofFn, map_ofFn']

theorem cosineGrad_length (x y : Fin n → ℝ) :
    (Grad.cosineGrad realT (List.ofFn x) (List.ofFn y)).2.length = n := by
  simp only [Grad.cosineGrad]
  split_ifs <;> simp

theorem cosine_alg (r nx ny s xi yi : ℝ) (hnx : nx ≠ 0) (hs : s ≠ 0) (hs2 : s * s = nx * ny) :
    -((yi * s - r * (2 * xi * ny / (2 * s))) / s ^ 2) = (xi * r - yi * nx) / (nx * s) := by
  have hny : ny = s * s / nx := by field_simp; linarith
  subst hny
  field_simp
  ring

/-- C14, cosine: differentiable wherever both vectors are non-zero. -/
theorem cosine_grad_hasDerivAt (n : ℕ) (x y : Fin n → ℝ) (i : Fin n) (hx : x ≠ 0) (hy : y ≠ 0) :
    HasDerivAt
      (fun t => (Grad.cosineGrad realT (List.ofFn (Function.update x i t)) (List.ofFn y)).1)
      ((Grad.cosineGrad realT (List.ofFn x) (List.ofFn y)).2.getD i.val 0) (x i) := by
  simp_rw [cosineGrad_fst _ y hy]
  rw [cosineGrad_snd x y hx hy, getD_ofFn]
  have hnx := sum_mul_self_pos hx
  have hny := sum_mul_self_pos hy
  have hr : HasDerivAt (fun t => ∑ j, Function.update x i t j * y j) (y i) (x i) := by
    apply hasDerivAt_sum_update (fun j s => s * y j)
    exact ((hasDerivAt_id' (x i)).mul_const (y i)).congr_deriv (by ring)
  have hn : HasDerivAt (fun t => ∑ j, Function.update x i t j * Function.update x i t j)
      (2 * x i) (x i) := by
    apply hasDerivAt_sum_update (fun j s => s * s)
    exact ((hasDerivAt_id' (x i)).fun_mul (hasDerivAt_id' (x i))).congr_deriv (by ring)
  have hpos : 0 < (∑ j, x j * x j) * (∑ j, y j * y j) := mul_pos hnx hny
  have hs := (hn.mul_const (∑ j, y j * y j)).sqrt
    (by simp only [Function.update_eq_self]; exact hpos.ne')
  have hd := (hr.fun_div hs
    (by simp only [Function.update_eq_self]; exact (Real.sqrt_pos.2 hpos).ne')).const_sub 1
  refine hd.congr_deriv ?_
  simp only [Function.update_eq_self]
  have e4 : Real.sqrt ((∑ k, x k * x k) * (∑ k, x k * x k) * (∑ k, x k * x k) * (∑ k, y k * y k))
      = (∑ k, x k * x k) * Real.sqrt ((∑ k, x k * x k) * (∑ k, y k * y k)) := by
    rw [mul_assoc, Real.sqrt_mul (mul_self_nonneg _), Real.sqrt_mul_self hnx.le]
  rw [e4]
  exact cosine_alg _ _ _ _ _ _ hnx.ne' (Real.sqrt_pos.2 hpos).ne' (Real.mul_self_sqrt hpos.le)

example : HasDerivAt
    (fun t => (Grad.cosineGrad realT (List.ofFn (Function.update ![1, 2] 0 t))
      (List.ofFn ![3, 1])).1)
    ((Grad.cosineGrad realT (List.ofFn ![1, 2]) (List.ofFn ![3, 1])).2.getD (0 : Fin 2).val 0)
    ((![1, 2] : Fin 2 → ℝ) 0) :=
  cosine_grad_hasDerivAt 2 ![1, 2] ![3, 1] 0
    (by intro h; have := congrFun h 0; simp at this)
    (by intro h; have := congrFun h 0; simp at this)

/-! ### Bray–Curtis -/

/-- closed form of the returned distance, for all inputs (a zero denominator gives `0` either
    way). -/
theorem brayCurtisGrad_fst (x y : Fin n → ℝ) :
    (Grad.brayCurtisGrad (List.ofFn x) (List.ofFn y)).1
      = (∑ j, |x j - y j|) / (∑ j, |x j + y j|) := by
  simp only [Grad.brayCurtisGrad, sumL_zip_map_ofFn, absV_eq_abs]
  split_ifs with h
  · rfl
  · have : ∑ j, |x j + y j| = 0 :=
      le_antisymm (not_lt.1 h) (Finset.sum_nonneg (fun j _ => abs_nonneg _))
    rw [this, div_zero]

theorem brayCurtisGrad_snd (x y : Fin n → ℝ) (hden : 0 < ∑ j, |x j + y j|) :
    (Grad.brayCurtisGrad (List.ofFn x) (List.ofFn y)).2
      = List.ofFn (fun j => (signV (x j - y j)
          - (∑ k, |x k - y k|) / (∑ k, |x k + y k|) * signV (x j + y j))
          / (∑ k, |x k + y k|)) := by
  simp only [Grad.brayCurtisGrad, sumL_zip_map_ofFn, absV_eq_abs]
  rw [if_pos hden]
  simp only [zip_ofFn, map_ofFn']

theorem brayCurtisGrad_length (x y : Fin n → ℝ) :
    (Grad.brayCurtisGrad (List.ofFn x) (List.ofFn y)).2.length = n := by
  simp only [Grad.brayCurtisGrad]
  split_ifs <;> simp

/-- C14, Bray–Curtis: differentiable in `x i` wherever `x i ≠ y i` and `x i + y i ≠ 0` (the
    latter also makes the denominator positive). -/
theorem brayCurtis_grad_hasDerivAt (n : ℕ) (x y : Fin n → ℝ) (i : Fin n)
    (hi : x i ≠ y i) (hs : x i + y i ≠ 0) :
    HasDerivAt
      (fun t => (Grad.brayCurtisGrad (List.ofFn (Function.update x i t)) (List.ofFn y)).1)
      ((Grad.brayCurtisGrad (List.ofFn x) (List.ofFn y)).2.getD i.val 0) (x i) := by
  have hden : 0 < ∑ j, |x j + y j| :=
    lt_of_lt_of_le (abs_pos.2 hs)
      (Finset.single_le_sum (f := fun j => |x j + y j|) (fun j _ => abs_nonneg _)
        (Finset.mem_univ i))
  simp_rw [brayCurtisGrad_fst]
  rw [brayCurtisGrad_snd x y hden, getD_ofFn]
  have hnum := hasDerivAt_sum_update (fun j s => |s - y j|) x i _ (hasDerivAt_abs_sub hi)
  have hd := hasDerivAt_sum_update (fun j s => |s + y j|) x i _ (hasDerivAt_abs_add hs)
  have h := hnum.fun_div hd (by simp only [Function.update_eq_self]; exact hden.ne')
  refine h.congr_deriv ?_
  simp only [Function.update_eq_self]
  field_simp

example : HasDerivAt
    (fun t => (Grad.brayCurtisGrad (List.ofFn (Function.update ![1, 2] 0 t))
      (List.ofFn ![3, 1])).1)
    ((Grad.brayCurtisGrad (List.ofFn ![1, 2]) (List.ofFn ![3, 1])).2.getD (0 : Fin 2).val 0)
    ((![1, 2] : Fin 2 → ℝ) 0) :=
  brayCurtis_grad_hasDerivAt 2 ![1, 2] ![3, 1] 0 (by simp) (by simp; norm_num)

/-! ### Canberra -/

theorem canberraGrad_fst (x y : Fin n → ℝ) :
    (Grad.canberraGrad (List.ofFn x) (List.ofFn y)).1
      = ∑ j, |x j - y j| / (|x j| + |y j|) := by
  simp only [Grad.canberraGrad, canberra, sumL_zip_map_ofFn, absV_eq_abs]
  apply Finset.sum_congr rfl
  intro j _
  split_ifs with h
  · rfl
  · have : |x j| + |y j| = 0 :=
      le_antisymm (not_lt.1 h) (add_nonneg (abs_nonneg _) (abs_nonneg _))
    rw [this, div_zero]

theorem canberraGrad_snd (x y : Fin n → ℝ) :
    (Grad.canberraGrad (List.ofFn x) (List.ofFn y)).2
      = List.ofFn (fun j => if 0 < |x j| + |y j| then
          signV (x j - y j) / (|x j| + |y j|)
            - |x j - y j| * signV (x j) / ((|x j| + |y j|) * (|x j| + |y j|)) else 0) := by
  simp only [Grad.canberraGrad, zip_ofFn, map_ofFn', absV_eq_abs]

theorem canberraGrad_length (x y : Fin n → ℝ) :
    (Grad.canberraGrad (List.ofFn x) (List.ofFn y)).2.length = n := by
  rw [canberraGrad_snd, List.length_ofFn]

/-- C14, Canberra: differentiable in `x i` wherever `x i ≠ 0` and `x i ≠ y i`. -/
theorem canberra_grad_hasDerivAt (n : ℕ) (x y : Fin n → ℝ) (i : Fin n)
    (h0 : x i ≠ 0) (hi : x i ≠ y i) :
    HasDerivAt
      (fun t => (Grad.canberraGrad (List.ofFn (Function.update x i t)) (List.ofFn y)).1)
      ((Grad.canberraGrad (List.ofFn x) (List.ofFn y)).2.getD i.val 0) (x i) := by
  have hden : 0 < |x i| + |y i| := add_pos_of_pos_of_nonneg (abs_pos.2 h0) (abs_nonneg _)
  simp_rw [canberraGrad_fst]
  rw [canberraGrad_snd, getD_ofFn, if_pos hden]
  apply hasDerivAt_sum_update (fun j s => |s - y j| / (|s| + |y j|))
  have h := (hasDerivAt_abs_sub hi).fun_div ((hasDerivAt_abs_signV h0).add_const |y i|) hden.ne'
  refine h.congr_deriv ?_
  field_simp

example : HasDerivAt
    (fun t => (Grad.canberraGrad (List.ofFn (Function.update ![1, 2] 0 t))
      (List.ofFn ![3, 1])).1)
    ((Grad.canberraGrad (List.ofFn ![1, 2]) (List.ofFn ![3, 1])).2.getD (0 : Fin 2).val 0)
    ((![1, 2] : Fin 2 → ℝ) 0) :=
  canberra_grad_hasDerivAt 2 ![1, 2] ![3, 1] 0 (by simp) (by simp)

/-! ### correlation -/

/-- the mean of a vector. -/
noncomputable def cmean (x : Fin n → ℝ) : ℝ := (∑ j, x j) / (n : ℝ)

/-- the centred dot product `∑ (x j - mean x) (y j - mean y)`. -/
noncomputable def cdot (x y : Fin n → ℝ) : ℝ := ∑ j, (x j - cmean x) * (y j - cmean y)

theorem sum_sub_cmean (y : Fin n → ℝ) (hn : (n : ℝ) ≠ 0) : ∑ j, (y j - cmean y) = 0 := by
  rw [Finset.sum_sub_distrib, Finset.sum_const, Finset.card_univ, Fintype.card_fin, nsmul_eq_mul,
    cmean, mul_div_cancel₀ _ hn, sub_self]

theorem correlation_core (x y : Fin n → ℝ) :
    dot ((List.ofFn x).map (· - mean (List.ofFn x)))
        ((List.ofFn y).map (· - sumL (List.ofFn y) / ((List.ofFn x).length : ℝ)))
      = cdot x y := by
  simp only [mean, sumL_ofFn, List.length_ofFn, map_ofFn', dot_ofFn, cdot, cmean]

/-- closed form of the returned correlation distance, for every `x` once `y` is not constant
    (for a constant `x` the value is `1`, which is what the closed form evaluates to in `ℝ`
    because `cdot x y / √0 = 0`; `cdot x y` is `0` there anyway, see `cdot_eq_zero_of_left`). -/
theorem correlationGrad_fst (x y : Fin n → ℝ) (hy : cdot y y ≠ 0) :
    (Grad.correlationGrad realT (List.ofFn x) (List.ofFn y)).1
      = 1 - cdot x y / Real.sqrt (cdot x x * cdot y y) := by
  have e1 := correlation_core x y
  have e2 := correlation_core x x
  have e3 : dot ((List.ofFn y).map (· - sumL (List.ofFn y) / ((List.ofFn x).length : ℝ)))
        ((List.ofFn y).map (· - sumL (List.ofFn y) / ((List.ofFn x).length : ℝ))) = cdot y y := by
    simp only [sumL_ofFn, List.length_ofFn, map_ofFn', dot_ofFn, cdot, cmean]
  simp only [mean] at e1 e2
  simp only [Grad.correlationGrad, mean, e1, e2, e3, Bool.and_eq_true, Bool.or_eq_true, eqV_iff,
    realT]
  split_ifs with h1 h2
  · exact absurd h1.2 hy
  · rcases h2 with h2 | h2
    · rw [h2]; simp
    · exact absurd h2 hy
  · rfl

/-- closed form of the returned gradient where neither vector is constant:
    `(x - μx) * (cos / nx) - (y - μy) / norm` with `norm = √(nx ny)`, `cos = dp / norm`
    (no condition on the centred dot product `dp`). -/
theorem correlationGrad_snd (x y : Fin n → ℝ) (hx : cdot x x ≠ 0) (hy : cdot y y ≠ 0) :
    (Grad.correlationGrad realT (List.ofFn x) (List.ofFn y)).2
      = List.ofFn (fun j =>
          (x j - cmean x) * (cdot x y / Real.sqrt (cdot x x * cdot y y) / cdot x x)
            - (y j - cmean y) / Real.sqrt (cdot x x * cdot y y)) := by
  have e1 := correlation_core x y
  have e2 := correlation_core x x
  have e3 : dot ((List.ofFn y).map (· - sumL (List.ofFn y) / ((List.ofFn x).length : ℝ)))
        ((List.ofFn y).map (· - sumL (List.ofFn y) / ((List.ofFn x).length : ℝ))) = cdot y y := by
    simp only [sumL_ofFn, List.length_ofFn, map_ofFn', dot_ofFn, cdot, cmean]
  simp only [mean] at e1 e2
  simp only [Grad.correlationGrad, mean, e1, e2, e3, Bool.and_eq_true, Bool.or_eq_true, eqV_iff,
    realT]
  split_ifs with h1 h2
  · exact absurd h1.2 hy
  · rcases h2 with h2 | h2
    · exact absurd h2 hx
    · exact absurd h2 hy
  · simp only [sumL_ofFn, List.length_ofFn, map_ofFn', zip_ofFn, cmean]

/-- where one of the vectors is constant the returned gradient is zero. -/
theorem correlationGrad_snd_of_const (x y : Fin n → ℝ) (h : cdot x x = 0 ∨ cdot y y = 0) :
    (Grad.correlationGrad realT (List.ofFn x) (List.ofFn y)).2
      = List.ofFn (fun _ : Fin n => (0 : ℝ)) := by
  have e2 := correlation_core x x
  have e3 : dot ((List.ofFn y).map (· - sumL (List.ofFn y) / ((List.ofFn x).length : ℝ)))
        ((List.ofFn y).map (· - sumL (List.ofFn y) / ((List.ofFn x).length : ℝ))) = cdot y y := by
    simp only [sumL_ofFn, List.length_ofFn, map_ofFn', dot_ofFn, cdot, cmean]
  simp only [mean] at e2
  simp only [Grad.correlationGrad, mean, e2, e3, Bool.and_eq_true, Bool.or_eq_true, eqV_iff]
  split_ifs
  · exact map_ofFn' _ _
  · exact map_ofFn' _ _

theorem correlationGrad_length (x y : Fin n → ℝ) :
    (Grad.correlationGrad realT (List.ofFn x) (List.ofFn y)).2.length = n := by
  simp only [Grad.correlationGrad]
  split_ifs <;> simp

theorem hasDerivAt_cmean (x : Fin n → ℝ) (i : Fin n) :
    HasDerivAt (fun t => cmean (Function.update x i t)) (1 / (n : ℝ)) (x i) := by
  unfold cmean
  exact (hasDerivAt_sum_update (fun _ s => s) x i 1 (hasDerivAt_id' _)).div_const _

theorem hasDerivAt_centred (x : Fin n → ℝ) (i j : Fin n) :
    HasDerivAt (fun t => Function.update x i t j - cmean (Function.update x i t))
      ((if j = i then 1 else 0) - 1 / (n : ℝ)) (x i) :=
  (hasDerivAt_update_apply x i j).fun_sub (hasDerivAt_cmean x i)

theorem sum_ite_sub_mul (c : Fin n → ℝ) (i : Fin n) (hc : ∑ j, c j = 0) :
    ∑ j, ((if j = i then 1 else 0) - 1 / (n : ℝ)) * c j = c i := by
  simp only [sub_mul, Finset.sum_sub_distrib, ite_mul, one_mul, zero_mul, Finset.sum_ite_eq',
    Finset.mem_univ, if_true, ← Finset.mul_sum, hc, mul_zero, sub_zero]

/-- derivative of the centred dot product with a fixed centred vector. -/
theorem hasDerivAt_cdot_left (x y : Fin n → ℝ) (i : Fin n) :
    HasDerivAt (fun t => cdot (Function.update x i t) y) (y i - cmean y) (x i) := by
  have hn : (n : ℝ) ≠ 0 := (Nat.cast_pos.2 i.pos).ne'
  unfold cdot
  have h := HasDerivAt.fun_sum (u := Finset.univ)
    (fun j _ => (hasDerivAt_centred x i j).mul_const (y j - cmean y))
  refine h.congr_deriv ?_
  exact sum_ite_sub_mul (fun j => y j - cmean y) i (sum_sub_cmean y hn)

theorem hasDerivAt_cdot_self (x : Fin n → ℝ) (i : Fin n) :
    HasDerivAt (fun t => cdot (Function.update x i t) (Function.update x i t))
      (2 * (x i - cmean x)) (x i) := by
  have hn : (n : ℝ) ≠ 0 := (Nat.cast_pos.2 i.pos).ne'
  unfold cdot
  have h := HasDerivAt.fun_sum (u := Finset.univ)
    (fun j _ => (hasDerivAt_centred x i j).fun_mul (hasDerivAt_centred x i j))
  refine h.congr_deriv ?_
  simp only [Function.update_eq_self]
  have := sum_ite_sub_mul (fun j => x j - cmean x) i (sum_sub_cmean x hn)
  rw [two_mul]
  nth_rewrite 1 [← this]
  nth_rewrite 1 [← this]
  rw [← Finset.sum_add_distrib]
  apply Finset.sum_congr rfl
  intro j _
  ring

/-- the true derivative of the correlation distance (no condition on the centred dot product). -/
theorem correlation_hasDerivAt_true (x y : Fin n → ℝ) (i : Fin n)
    (hx : cdot x x ≠ 0) (hy : cdot y y ≠ 0) :
    HasDerivAt
      (fun t => (Grad.correlationGrad realT (List.ofFn (Function.update x i t)) (List.ofFn y)).1)
      (((x i - cmean x) * cdot x y - (y i - cmean y) * cdot x x)
        / (cdot x x * Real.sqrt (cdot x x * cdot y y))) (x i) := by
  simp_rw [correlationGrad_fst _ y hy]
  have hnx : 0 < cdot x x :=
    lt_of_le_of_ne (Finset.sum_nonneg (fun j _ => mul_self_nonneg _)) (Ne.symm hx)
  have hny : 0 < cdot y y :=
    lt_of_le_of_ne (Finset.sum_nonneg (fun j _ => mul_self_nonneg _)) (Ne.symm hy)
  have hpos : 0 < cdot x x * cdot y y := mul_pos hnx hny
  have hs := ((hasDerivAt_cdot_self x i).mul_const (cdot y y)).sqrt
    (by simp only [Function.update_eq_self]; exact hpos.ne')
  have hd := ((hasDerivAt_cdot_left x y i).fun_div hs
    (by simp only [Function.update_eq_self]; exact (Real.sqrt_pos.2 hpos).ne')).const_sub 1
  refine hd.congr_deriv ?_
  simp only [Function.update_eq_self]
  exact cosine_alg _ _ _ _ _ _ hnx.ne' (Real.sqrt_pos.2 hpos).ne' (Real.mul_self_sqrt hpos.le)

/-- C14, correlation: where neither vector is constant the returned gradient is the derivative
    (no condition on the centred dot product: at `cdot x y = 0` the returned entry is
    `-(y i - mean y) / sqrt (nx ny)`, the true derivative, see `correlation_hasDerivAt_true`). -/
theorem correlation_grad_hasDerivAt (n : ℕ) (x y : Fin n → ℝ) (i : Fin n)
    (hx : cdot x x ≠ 0) (hy : cdot y y ≠ 0) :
    HasDerivAt
      (fun t => (Grad.correlationGrad realT (List.ofFn (Function.update x i t)) (List.ofFn y)).1)
      ((Grad.correlationGrad realT (List.ofFn x) (List.ofFn y)).2.getD i.val 0) (x i) := by
  refine (correlation_hasDerivAt_true x y i hx hy).congr_deriv ?_
  rw [correlationGrad_snd x y hx hy, getD_ofFn]
  have hnx : 0 < cdot x x :=
    lt_of_le_of_ne (Finset.sum_nonneg (fun j _ => mul_self_nonneg _)) (Ne.symm hx)
  have hny : 0 < cdot y y :=
    lt_of_le_of_ne (Finset.sum_nonneg (fun j _ => mul_self_nonneg _)) (Ne.symm hy)
  have hs : Real.sqrt (cdot x x * cdot y y) ≠ 0 := (Real.sqrt_pos.2 (mul_pos hnx hny)).ne'
  field_simp

example : HasDerivAt
    (fun t => (Grad.correlationGrad realT (List.ofFn (Function.update ![1, 2, 4] 0 t))
      (List.ofFn ![0, 1, 0])).1)
    ((Grad.correlationGrad realT (List.ofFn ![1, 2, 4])
      (List.ofFn ![0, 1, 0])).2.getD (0 : Fin 3).val 0)
    ((![1, 2, 4] : Fin 3 → ℝ) 0) :=
  correlation_grad_hasDerivAt 3 ![1, 2, 4] ![0, 1, 0] 0
    (by simp [cdot, cmean, Fin.sum_univ_three]; norm_num)
    (by simp [cdot, cmean, Fin.sum_univ_three]; norm_num)

/-- non-vacuity at a point whose centred dot product is exactly `0`:
    `x = (1,-1,0,0)`, `y = (0,0,1,-1)`. -/
example : cdot ![1, -1, 0, 0] ![0, 0, 1, -1] = 0 ∧ HasDerivAt
    (fun t => (Grad.correlationGrad realT (List.ofFn (Function.update ![1, -1, 0, 0] 0 t))
      (List.ofFn ![0, 0, 1, -1])).1)
    ((Grad.correlationGrad realT (List.ofFn ![1, -1, 0, 0])
      (List.ofFn ![0, 0, 1, -1])).2.getD (0 : Fin 4).val 0)
    ((![1, -1, 0, 0] : Fin 4 → ℝ) 0) :=
  ⟨by simp [cdot, cmean, Fin.sum_univ_four],
   correlation_grad_hasDerivAt 4 ![1, -1, 0, 0] ![0, 0, 1, -1] 0
    (by simp [cdot, cmean, Fin.sum_univ_four])
    (by simp [cdot, cmean, Fin.sum_univ_four])⟩

/-! ### chebyshev (unique maximiser) -/

/-- the fold step of `Grad.argmaxAbs`. -/
noncomputable def amStep (acc : ℕ × ℕ × ℝ) (v : ℝ) : ℕ × ℕ × ℝ :=
  if acc.2.2 < absV v then (acc.1 + 1, acc.1, absV v) else (acc.1 + 1, acc.2.1, acc.2.2)

theorem argmaxAbs_eq (ds : List ℝ) :
    Grad.argmaxAbs ds = ((ds.foldl amStep (0, 0, 0)).2.1, (ds.foldl amStep (0, 0, 0)).2.2) := rfl

/-- the running maximum dominates every element and is either the initial value or attained,
    at the recorded index. -/
theorem amFold_spec (l : List ℝ) (acc : ℕ × ℕ × ℝ) :
    acc.2.2 ≤ (l.foldl amStep acc).2.2 ∧ (∀ v ∈ l, |v| ≤ (l.foldl amStep acc).2.2) ∧
    (((l.foldl amStep acc).2.1 = acc.2.1 ∧ (l.foldl amStep acc).2.2 = acc.2.2) ∨
      ∃ k, ∃ hk : k < l.length,
        (l.foldl amStep acc).2.1 = acc.1 + k ∧ (l.foldl amStep acc).2.2 = |l[k]|) := by
  induction l generalizing acc with
  | nil => simp
  | cons v l ih =>
    simp only [List.foldl_cons]
    obtain ⟨h1, h2, h3⟩ := ih (amStep acc v)
    have hs1 : (amStep acc v).1 = acc.1 + 1 := by unfold amStep; split_ifs <;> rfl
    have hs2 : acc.2.2 ≤ (amStep acc v).2.2 ∧ |v| ≤ (amStep acc v).2.2 := by
      unfold amStep; rw [absV_eq_abs]; split_ifs with h
      · exact ⟨h.le, le_refl _⟩
      · exact ⟨le_refl _, not_lt.1 h⟩
    have hs3 : ((amStep acc v).2.1 = acc.2.1 ∧ (amStep acc v).2.2 = acc.2.2) ∨
        ((amStep acc v).2.1 = acc.1 ∧ (amStep acc v).2.2 = |v|) := by
      unfold amStep; rw [absV_eq_abs]; split_ifs with h
      · right; exact ⟨rfl, rfl⟩
      · left; exact ⟨rfl, rfl⟩
    refine ⟨le_trans hs2.1 h1, ?_, ?_⟩
    · intro w hw
      rcases List.mem_cons.1 hw with rfl | hw
      · exact le_trans hs2.2 h1
      · exact h2 w hw
    · rcases h3 with ⟨e1, e2⟩ | ⟨k, hk, e1, e2⟩
      · rcases hs3 with ⟨f1, f2⟩ | ⟨f1, f2⟩
        · left; exact ⟨e1.trans f1, e2.trans f2⟩
        · right
          refine ⟨0, by simp, ?_, ?_⟩
          · rw [e1, f1]; rfl
          · rw [e2, f2]; rfl
      · right
        refine ⟨k + 1, by simp only [List.length_cons]; omega, ?_, ?_⟩
        · rw [e1, hs1]; omega
        · rw [e2]; rfl

theorem argmaxAbs_ofFn_unique (ds : Fin n → ℝ) (k : Fin n) (hpos : ds k ≠ 0)
    (hmax : ∀ j, j ≠ k → |ds j| < |ds k|) :
    Grad.argmaxAbs (List.ofFn ds) = (k.val, |ds k|) := by
  obtain ⟨_, h2, h3⟩ := amFold_spec (List.ofFn ds) (0, 0, 0)
  rw [argmaxAbs_eq]
  have hk : |ds k| ≤ ((List.ofFn ds).foldl amStep (0, 0, 0)).2.2 :=
    h2 _ (by rw [List.mem_ofFn]; exact ⟨k, rfl⟩)
  have hp : 0 < |ds k| := abs_pos.2 hpos
  rcases h3 with ⟨_, e2⟩ | ⟨m, hm, e1, e2⟩
  · rw [e2] at hk; exact absurd hk (not_le.2 hp)
  · have hm' : m < n := by simpa using hm
    rw [List.getElem_ofFn] at e2
    have hmk : (⟨m, hm'⟩ : Fin n) = k := by
      by_contra hne
      have := hmax _ hne
      rw [e2] at hk
      exact absurd hk (not_le.2 this)
    subst hmk
    rw [e1, e2]
    simp

theorem zipIdx_ofFn (f : Fin n → ℝ) :
    (List.ofFn f).zipIdx = List.ofFn (fun j => (f j, j.val)) := by
  apply List.ext_getElem
  · simp
  · intro k h1 h2; simp

/-- `chebyshevGrad` when coordinate `k` is the unique maximiser of `|x j - y j|`. -/
theorem chebyshevGrad_eq (x y : Fin n → ℝ) (k : Fin n) (hk : x k ≠ y k)
    (hmax : ∀ j, j ≠ k → |x j - y j| < |x k - y k|) :
    Grad.chebyshevGrad (List.ofFn x) (List.ofFn y)
      = (|x k - y k|,
         List.ofFn (fun j => if j.val = k.val then signV (x j - y j) else 0)) := by
  simp only [Grad.chebyshevGrad, diffs_ofFn]
  rw [argmaxAbs_ofFn_unique (fun j => x j - y j) k (sub_ne_zero.2 hk) hmax]
  simp only [zipIdx_ofFn, map_ofFn']

theorem chebyshevGrad_length (x y : Fin n → ℝ) :
    (Grad.chebyshevGrad (List.ofFn x) (List.ofFn y)).2.length = n := by
  simp only [Grad.chebyshevGrad, diffs_ofFn]
  simp

theorem continuousAt_update_apply (x : Fin n → ℝ) (i j : Fin n) :
    ContinuousAt (fun t => Function.update x i t j) (x i) :=
  (hasDerivAt_update_apply x i j).continuousAt

/-- C14, chebyshev: when a single coordinate `k` attains the maximum (strictly, and
    `x k ≠ y k`), the distance is differentiable and the gradient is the signed indicator of
    `k`. -/
theorem chebyshev_grad_hasDerivAt (n : ℕ) (x y : Fin n → ℝ) (i k : Fin n) (hk : x k ≠ y k)
    (hmax : ∀ j, j ≠ k → |x j - y j| < |x k - y k|) :
    HasDerivAt
      (fun t => (Grad.chebyshevGrad (List.ofFn (Function.update x i t)) (List.ofFn y)).1)
      ((Grad.chebyshevGrad (List.ofFn x) (List.ofFn y)).2.getD i.val 0) (x i) := by
  rw [chebyshevGrad_eq x y k hk hmax, getD_ofFn]
  -- near `x i` the same coordinate stays the unique maximiser
  have hev : ∀ᶠ t in nhds (x i),
      (Grad.chebyshevGrad (List.ofFn (Function.update x i t)) (List.ofFn y)).1
        = |Function.update x i t k - y k| := by
    have hc : ∀ j, ContinuousAt (fun t => |Function.update x i t j - y j|) (x i) :=
      fun j => ((continuousAt_update_apply x i j).sub continuousAt_const).abs
    have h0 : ∀ᶠ t in nhds (x i), 0 < |Function.update x i t k - y k| := by
      apply ContinuousAt.eventually_lt continuousAt_const (hc k)
      simp only [Function.update_eq_self]
      exact abs_pos.2 (sub_ne_zero.2 hk)
    have h1 : ∀ᶠ t in nhds (x i), ∀ j, j ≠ k →
        |Function.update x i t j - y j| < |Function.update x i t k - y k| := by
      rw [Filter.eventually_all]
      intro j
      by_cases hj : j = k
      · exact Filter.Eventually.of_forall (fun t h => absurd hj h)
      · have := ContinuousAt.eventually_lt (hc j) (hc k)
          (by simp only [Function.update_eq_self]; exact hmax j hj)
        exact this.mono (fun t ht _ => ht)
    filter_upwards [h0, h1] with t ht0 ht1
    rw [chebyshevGrad_eq _ y k (sub_ne_zero.1 (abs_pos.1 ht0)) ht1]
  refine HasDerivAt.congr_of_eventuallyEq ?_ hev
  by_cases hik : i = k
  · subst hik
    simp only [Function.update_self, if_true]
    exact hasDerivAt_abs_sub hk
  · have : i.val ≠ k.val := fun h => hik (Fin.ext h)
    simp only [Function.update_of_ne (Ne.symm hik), if_neg this]
    exact hasDerivAt_const _ _

example : HasDerivAt
    (fun t => (Grad.chebyshevGrad (List.ofFn (Function.update ![1, 5] 1 t))
      (List.ofFn ![3, 1])).1)
    ((Grad.chebyshevGrad (List.ofFn ![1, 5]) (List.ofFn ![3, 1])).2.getD (1 : Fin 2).val 0)
    ((![1, 5] : Fin 2 → ℝ) 1) :=
  chebyshev_grad_hasDerivAt 2 ![1, 5] ![3, 1] 1 1 (by simp)
    (by intro j hj; fin_cases j <;> simp at hj ⊢ <;> norm_num)

/-! ### hellinger -/

/-- closed form of the returned Hellinger distance, for every `x` once `∑ y ≠ 0`.  The code clamps
    the radicand (`sqrt (max (1 - r / dd) 0)`); over ℝ that is `Real.sqrt (1 - r / dd)`
    (`sqrt_maxV_zero`), so the closed forms below are stated without the clamp. -/
theorem hellingerGrad_fst (x y : Fin n → ℝ) (hy : ∑ j, y j ≠ 0) :
    (Grad.hellingerGrad realT (List.ofFn x) (List.ofFn y)).1
      = Real.sqrt (1 - (∑ j, Real.sqrt (x j * y j)) / Real.sqrt ((∑ j, x j) * (∑ j, y j))) := by
  simp only [Grad.hellingerGrad, sumL_zip_map_ofFn, sumL_ofFn, zip_ofFn, map_ofFn',
    Bool.and_eq_true, Bool.or_eq_true, eqV_iff, realT, sqrt_maxV_zero]
  split_ifs with h1 h2
  · exact absurd h1.2 hy
  · rcases h2 with h2 | h2
    · rw [h2]; simp
    · exact absurd h2 hy
  · rfl
  · rfl

/-- at zero distance the returned gradient is zero (no division by the distance). -/
theorem hellingerGrad_snd_of_dist_zero (x y : Fin n → ℝ) (hx : ∑ j, x j ≠ 0) (hy : ∑ j, y j ≠ 0)
    (hd : Real.sqrt (1 - (∑ k, Real.sqrt (x k * y k))
              / Real.sqrt ((∑ k, x k) * (∑ k, y k))) = 0) :
    (Grad.hellingerGrad realT (List.ofFn x) (List.ofFn y)).2 = List.ofFn (fun (_ : Fin n) => (0 : ℝ)) := by
  simp only [Grad.hellingerGrad, sumL_zip_map_ofFn, sumL_ofFn, zip_ofFn, map_ofFn',
    Bool.and_eq_true, Bool.or_eq_true, eqV_iff, realT, two, Nat.cast_ofNat, sqrt_maxV_zero]
  split_ifs with h1 h2
  · exact absurd h1.2 hy
  · rcases h2 with h2 | h2
    · exact absurd h2 hx
    · exact absurd h2 hy
  · rfl

theorem hellingerGrad_snd (x y : Fin n → ℝ) (hx : ∑ j, x j ≠ 0) (hy : ∑ j, y j ≠ 0)
    (hd : Real.sqrt (1 - (∑ k, Real.sqrt (x k * y k))
              / Real.sqrt ((∑ k, x k) * (∑ k, y k))) ≠ 0) :
    (Grad.hellingerGrad realT (List.ofFn x) (List.ofFn y)).2
      = List.ofFn (fun j =>
          (((∑ k, y k) * (∑ k, Real.sqrt (x k * y k)))
              / (2 * (Real.sqrt ((∑ k, x k) * (∑ k, y k)) * Real.sqrt ((∑ k, x k) * (∑ k, y k))
                  * Real.sqrt ((∑ k, x k) * (∑ k, y k))))
            - (if y j = 0 then 0
                else y j / (2 * Real.sqrt (x j * y j) * Real.sqrt ((∑ k, x k) * (∑ k, y k)))))
          / (2 * Real.sqrt (1 - (∑ k, Real.sqrt (x k * y k))
              / Real.sqrt ((∑ k, x k) * (∑ k, y k))))) := by
  simp only [Grad.hellingerGrad, sumL_zip_map_ofFn, sumL_ofFn, zip_ofFn, map_ofFn',
    Bool.and_eq_true, Bool.or_eq_true, eqV_iff, realT, two, Nat.cast_ofNat, sqrt_maxV_zero]
  split_ifs with h1 h2
  · exact absurd h1.2 hy
  · rcases h2 with h2 | h2
    · exact absurd h2 hx
    · exact absurd h2 hy
  · rfl

theorem hellingerGrad_length (x y : Fin n → ℝ) :
    (Grad.hellingerGrad realT (List.ofFn x) (List.ofFn y)).2.length = n := by
  simp only [Grad.hellingerGrad]
  split_ifs <;> simp

/-- C14, hellinger: differentiable in `x i` where `x i * y i ≠ 0`, both masses are positive and
    the distance is non-zero. -/
theorem hellinger_grad_hasDerivAt (n : ℕ) (x y : Fin n → ℝ) (i : Fin n)
    (hi : x i * y i ≠ 0) (hx : 0 < ∑ j, x j) (hy : 0 < ∑ j, y j)
    (hd : 1 - (∑ j, Real.sqrt (x j * y j)) / Real.sqrt ((∑ j, x j) * (∑ j, y j)) ≠ 0) :
    HasDerivAt
      (fun t => (Grad.hellingerGrad realT (List.ofFn (Function.update x i t)) (List.ofFn y)).1)
      ((Grad.hellingerGrad realT (List.ofFn x) (List.ofFn y)).2.getD i.val 0) (x i) := by
  simp_rw [hellingerGrad_fst _ y hy.ne']
  have hpos : 0 < (∑ j, x j) * (∑ j, y j) := mul_pos hx hy
  by_cases hs : Real.sqrt (1 - (∑ k, Real.sqrt (x k * y k))
              / Real.sqrt ((∑ k, x k) * (∑ k, y k))) = 0
  · -- the argument of the outer root is negative (it cannot be, but that is not needed): the root
    -- is locally constant 0 there and the returned gradient is 0
    rw [hellingerGrad_snd_of_dist_zero x y hx.ne' hy.ne' hs, getD_ofFn]
    have hneg : 1 - (∑ k, Real.sqrt (x k * y k)) / Real.sqrt ((∑ k, x k) * (∑ k, y k)) < 0 := by
      rcases lt_trichotomy (1 - (∑ k, Real.sqrt (x k * y k))
          / Real.sqrt ((∑ k, x k) * (∑ k, y k))) 0 with h | h | h
      · exact h
      · exact absurd h hd
      · exact absurd hs (Real.sqrt_pos.2 h).ne'
    have hr : HasDerivAt (fun t => ∑ j, Real.sqrt (Function.update x i t j * y j))
        (1 * y i / (2 * Real.sqrt (x i * y i))) (x i) :=
      hasDerivAt_sum_update (fun j s => Real.sqrt (s * y j)) x i _
        (((hasDerivAt_id' (x i)).mul_const (y i)).sqrt hi)
    have hl : HasDerivAt (fun t => ∑ j, Function.update x i t j) 1 (x i) :=
      hasDerivAt_sum_update (fun _ s => s) x i 1 (hasDerivAt_id' _)
    have hdd := (hl.mul_const (∑ j, y j)).sqrt
      (by simp only [Function.update_eq_self]; exact hpos.ne')
    have hq := (hr.fun_div hdd
      (by simp only [Function.update_eq_self]; exact (Real.sqrt_pos.2 hpos).ne')).const_sub 1
    have h := hq.sqrt (by simp only [Function.update_eq_self]; exact hd)
    refine h.congr_deriv ?_
    simp only [Function.update_eq_self]
    rw [hs]; simp
  rw [hellingerGrad_snd x y hx.ne' hy.ne' hs, getD_ofFn, if_neg (right_ne_zero_of_mul hi)]
  have hr : HasDerivAt (fun t => ∑ j, Real.sqrt (Function.update x i t j * y j))
      (1 * y i / (2 * Real.sqrt (x i * y i))) (x i) :=
    hasDerivAt_sum_update (fun j s => Real.sqrt (s * y j)) x i _
      (((hasDerivAt_id' (x i)).mul_const (y i)).sqrt hi)
  have hl : HasDerivAt (fun t => ∑ j, Function.update x i t j) 1 (x i) :=
    hasDerivAt_sum_update (fun _ s => s) x i 1 (hasDerivAt_id' _)
  have hdd := (hl.mul_const (∑ j, y j)).sqrt
    (by simp only [Function.update_eq_self]; exact hpos.ne')
  have hq := (hr.fun_div hdd
    (by simp only [Function.update_eq_self]; exact (Real.sqrt_pos.2 hpos).ne')).const_sub 1
  have h := hq.sqrt (by simp only [Function.update_eq_self]; exact hd)
  refine h.congr_deriv ?_
  simp only [Function.update_eq_self]
  have hdd0 : Real.sqrt ((∑ j, x j) * (∑ j, y j)) ≠ 0 := (Real.sqrt_pos.2 hpos).ne'
  congr 1
  by_cases hg0 : Real.sqrt (x i * y i) = 0
  · rw [hg0]
    simp only [mul_zero, zero_mul, div_zero, zero_sub]
    field_simp
    ring
  · field_simp
    ring

example : HasDerivAt
    (fun t => (Grad.hellingerGrad realT (List.ofFn (Function.update ![1, 4] 0 t))
      (List.ofFn ![4, 1])).1)
    ((Grad.hellingerGrad realT (List.ofFn ![1, 4]) (List.ofFn ![4, 1])).2.getD (0 : Fin 2).val 0)
    ((![1, 4] : Fin 2 → ℝ) 0) := by
  have h4 : Real.sqrt 4 = 2 := by
    rw [show (4 : ℝ) = 2 ^ 2 by norm_num]; exact Real.sqrt_sq (by norm_num)
  have h25 : Real.sqrt 25 = 5 := by
    rw [show (25 : ℝ) = 5 ^ 2 by norm_num]; exact Real.sqrt_sq (by norm_num)
  refine hellinger_grad_hasDerivAt 2 ![1, 4] ![4, 1] 0 (by simp) ?_ ?_ ?_
  · simp [Fin.sum_univ_two]; norm_num
  · simp [Fin.sum_univ_two]; norm_num
  · simp only [Fin.sum_univ_two, Matrix.cons_val_zero, Matrix.cons_val_one]
    norm_num [h4, h25]

/-- C14, hellinger, a coordinate with `y i = 0` (any `x i`): the `i`-th term `sqrt (t * 0)` of the
    affinity is identically `0`, so only the mass `∑ x` varies with `x i`; the returned entry
    (`root_term = 0` there, instead of the `0/0` of the code before the repair) is the derivative,
    for positive masses and a non-zero distance. -/
theorem hellinger_grad_hasDerivAt_of_y_zero (n : ℕ) (x y : Fin n → ℝ) (i : Fin n)
    (hi : y i = 0) (hx : 0 < ∑ j, x j) (hy : 0 < ∑ j, y j)
    (hd : 1 - (∑ j, Real.sqrt (x j * y j)) / Real.sqrt ((∑ j, x j) * (∑ j, y j)) ≠ 0) :
    HasDerivAt
      (fun t => (Grad.hellingerGrad realT (List.ofFn (Function.update x i t)) (List.ofFn y)).1)
      ((Grad.hellingerGrad realT (List.ofFn x) (List.ofFn y)).2.getD i.val 0) (x i) := by
  simp_rw [hellingerGrad_fst _ y hy.ne']
  have hpos : 0 < (∑ j, x j) * (∑ j, y j) := mul_pos hx hy
  have hr : HasDerivAt (fun t => ∑ j, Real.sqrt (Function.update x i t j * y j)) 0 (x i) := by
    refine hasDerivAt_sum_update (fun j s => Real.sqrt (s * y j)) x i 0 ?_
    simp only [hi, mul_zero, Real.sqrt_zero]
    exact hasDerivAt_const _ _
  have hl : HasDerivAt (fun t => ∑ j, Function.update x i t j) 1 (x i) :=
    hasDerivAt_sum_update (fun _ s => s) x i 1 (hasDerivAt_id' _)
  have hdd := (hl.mul_const (∑ j, y j)).sqrt
    (by simp only [Function.update_eq_self]; exact hpos.ne')
  have hq := (hr.fun_div hdd
    (by simp only [Function.update_eq_self]; exact (Real.sqrt_pos.2 hpos).ne')).const_sub 1
  have h := hq.sqrt (by simp only [Function.update_eq_self]; exact hd)
  refine h.congr_deriv ?_
  simp only [Function.update_eq_self]
  by_cases hs : Real.sqrt (1 - (∑ k, Real.sqrt (x k * y k))
              / Real.sqrt ((∑ k, x k) * (∑ k, y k))) = 0
  · rw [hellingerGrad_snd_of_dist_zero x y hx.ne' hy.ne' hs, getD_ofFn, hs]; simp
  rw [hellingerGrad_snd x y hx.ne' hy.ne' hs, getD_ofFn, if_pos hi]
  have hdd0 : Real.sqrt ((∑ j, x j) * (∑ j, y j)) ≠ 0 := (Real.sqrt_pos.2 hpos).ne'
  congr 1
  field_simp
  ring

/-- non-vacuity: `x = (3/10, 1/5, 1/2)`, `y = (3/5, 0, 2/5)`, coordinate `1` (where `y` is `0`). -/
example : HasDerivAt
    (fun t => (Grad.hellingerGrad realT (List.ofFn (Function.update ![3/10, 1/5, 1/2] 1 t))
      (List.ofFn ![3/5, 0, 2/5])).1)
    ((Grad.hellingerGrad realT (List.ofFn ![3/10, 1/5, 1/2])
      (List.ofFn ![3/5, 0, 2/5])).2.getD (1 : Fin 3).val 0)
    ((![3/10, 1/5, 1/2] : Fin 3 → ℝ) 1) := by
  have h1 : Real.sqrt (3 / 10 * (3 / 5)) < 1 / 2 := by
    rw [Real.sqrt_lt' (by norm_num)]; norm_num
  have h2 : Real.sqrt (1 / 2 * (2 / 5)) < 1 / 2 := by
    rw [Real.sqrt_lt' (by norm_num)]; norm_num
  refine hellinger_grad_hasDerivAt_of_y_zero 3 ![3/10, 1/5, 1/2] ![3/5, 0, 2/5] 1 (by simp) ?_ ?_ ?_
  · simp [Fin.sum_univ_three]; norm_num
  · simp [Fin.sum_univ_three]; norm_num
  · simp only [Fin.sum_univ_three, Matrix.cons_val_zero, Matrix.cons_val_one, Matrix.cons_val_two,
      Matrix.tail_cons, Matrix.head_cons]
    have e1 : (3 / 10 + 1 / 5 + 1 / 2 : ℝ) * (3 / 5 + 0 + 2 / 5) = 1 := by norm_num
    rw [e1, Real.sqrt_one, mul_zero, Real.sqrt_zero]
    intro h
    linarith

/-! ### mahalanobis (symmetric `vinv`) -/

theorem mahalanobisGrad_fst (eps : ℝ) (V : Fin n → Fin n → ℝ) (x y : Fin n → ℝ) :
    (Grad.mahalanobisGrad realT eps (List.ofFn (fun j => List.ofFn (V j)))
        (List.ofFn x) (List.ofFn y)).1
      = Real.sqrt (∑ j, (∑ k, V j k * (x k - y k)) * (x j - y j)) := by
  simp only [Grad.mahalanobisGrad, diffs_ofFn, zip_ofFn, map_ofFn', sumL_ofFn, realT]

theorem mahalanobisGrad_snd (eps : ℝ) (V : Fin n → Fin n → ℝ) (x y : Fin n → ℝ) :
    (Grad.mahalanobisGrad realT eps (List.ofFn (fun j => List.ofFn (V j)))
        (List.ofFn x) (List.ofFn y)).2
      = List.ofFn (fun j => (∑ k, V j k * (x k - y k))
          / (eps + Real.sqrt (∑ l, (∑ k, V l k * (x k - y k)) * (x l - y l)))) := by
  simp only [Grad.mahalanobisGrad, diffs_ofFn, zip_ofFn, map_ofFn', sumL_ofFn, realT]

theorem mahalanobisGrad_length (eps : ℝ) (V : Fin n → Fin n → ℝ) (x y : Fin n → ℝ) :
    (Grad.mahalanobisGrad realT eps (List.ofFn (fun j => List.ofFn (V j)))
        (List.ofFn x) (List.ofFn y)).2.length = n := by
  rw [mahalanobisGrad_snd, List.length_ofFn]

/-- the distance returned by `mahalanobisGrad` is `Metrics.mahalanobis`. -/
theorem mahalanobisGrad_fst_eq_metric (eps : ℝ) (V : Fin n → Fin n → ℝ) (x y : Fin n → ℝ) :
    (Grad.mahalanobisGrad realT eps (List.ofFn (fun j => List.ofFn (V j)))
        (List.ofFn x) (List.ofFn y)).1
      = mahalanobis realT (List.ofFn (fun j => List.ofFn (V j))) (List.ofFn x) (List.ofFn y) := by
  simp only [Grad.mahalanobisGrad, mahalanobis, diffs_ofFn, zip_ofFn, map_ofFn', sumL_ofFn, realT]

/-- C14, mahalanobis: for a symmetric `vinv`, differentiable wherever the quadratic form is
    non-zero. -/
theorem mahalanobis_grad_hasDerivAt (n : ℕ) (V : Fin n → Fin n → ℝ) (x y : Fin n → ℝ)
    (i : Fin n) (hsym : ∀ j k, V j k = V k j)
    (hQ : ∑ j, (∑ k, V j k * (x k - y k)) * (x j - y j) ≠ 0) :
    HasDerivAt
      (fun t => (Grad.mahalanobisGrad realT 0 (List.ofFn (fun j => List.ofFn (V j)))
        (List.ofFn (Function.update x i t)) (List.ofFn y)).1)
      ((Grad.mahalanobisGrad realT 0 (List.ofFn (fun j => List.ofFn (V j)))
        (List.ofFn x) (List.ofFn y)).2.getD i.val 0) (x i) := by
  simp_rw [mahalanobisGrad_fst]
  rw [mahalanobisGrad_snd, getD_ofFn]
  have hin : ∀ j, HasDerivAt (fun t => ∑ k, V j k * (Function.update x i t k - y k))
      (V j i) (x i) := by
    intro j
    apply hasDerivAt_sum_update (fun k s => V j k * (s - y k))
    exact (((hasDerivAt_id' (x i)).sub_const (y i)).const_mul (V j i)).congr_deriv (by ring)
  have hout : ∀ j, HasDerivAt (fun t => Function.update x i t j - y j)
      (if j = i then 1 else 0) (x i) :=
    fun j => (hasDerivAt_update_apply x i j).sub_const (y j)
  have hQ' := HasDerivAt.fun_sum (u := Finset.univ) (fun j _ => (hin j).fun_mul (hout j))
  have h := hQ'.sqrt (by simp only [Function.update_eq_self]; exact hQ)
  refine h.congr_deriv ?_
  simp only [Function.update_eq_self, zero_add]
  have e : ∑ j, (V j i * (x j - y j)
      + (∑ k, V j k * (x k - y k)) * (if j = i then 1 else 0))
      = 2 * ∑ k, V i k * (x k - y k) := by
    simp only [Finset.sum_add_distrib, mul_ite, mul_one, mul_zero, Finset.sum_ite_eq',
      Finset.mem_univ, if_true]
    rw [two_mul]
    congr 1
    apply Finset.sum_congr rfl
    intro j _
    rw [hsym j i]
  rw [e, two_mul_div_two_mul]

example : HasDerivAt
    (fun t => (Grad.mahalanobisGrad realT 0 (List.ofFn (fun j => List.ofFn (!![2, 1; 1, 3] j)))
      (List.ofFn (Function.update ![1, 2] 0 t)) (List.ofFn ![0, 0])).1)
    ((Grad.mahalanobisGrad realT 0 (List.ofFn (fun j => List.ofFn (!![2, 1; 1, 3] j)))
      (List.ofFn ![1, 2]) (List.ofFn ![0, 0])).2.getD (0 : Fin 2).val 0)
    ((![1, 2] : Fin 2 → ℝ) 0) :=
  mahalanobis_grad_hasDerivAt 2 (!![2, 1; 1, 3]) ![1, 2] ![0, 0] 0
    (by intro j k; fin_cases j <;> fin_cases k <;> simp)
    (by simp [Fin.sum_univ_two]; norm_num)

theorem mahalanobis_grad_eps (eps : ℝ) (V : Fin n → Fin n → ℝ) (x y : Fin n → ℝ) (i : Fin n)
    (hQ : 0 < ∑ j, (∑ k, V j k * (x k - y k)) * (x j - y j)) :
    (Grad.mahalanobisGrad realT eps (List.ofFn (fun j => List.ofFn (V j)))
        (List.ofFn x) (List.ofFn y)).2.getD i.val 0
      = (Grad.mahalanobisGrad realT 0 (List.ofFn (fun j => List.ofFn (V j)))
          (List.ofFn x) (List.ofFn y)).2.getD i.val 0
        * ((Grad.mahalanobisGrad realT 0 (List.ofFn (fun j => List.ofFn (V j)))
            (List.ofFn x) (List.ofFn y)).1
          / (eps + (Grad.mahalanobisGrad realT 0 (List.ofFn (fun j => List.ofFn (V j)))
            (List.ofFn x) (List.ofFn y)).1)) := by
  rw [mahalanobisGrad_snd, mahalanobisGrad_snd, mahalanobisGrad_fst, getD_ofFn, getD_ofFn,
    zero_add]
  have hd := (Real.sqrt_pos.2 hQ).ne'
  rw [div_mul_div_comm, mul_comm (∑ k, V i k * (x k - y k)), mul_div_mul_left _ _ hd]

/-! ### minkowski and weighted minkowski (`p > 1`) -/

theorem abs_mul_signPM (a : ℝ) : |a| * signPM a = a := by
  unfold signPM
  split_ifs with h
  · rw [abs_of_neg h]; ring
  · rw [abs_of_nonneg (not_lt.1 h)]; ring

theorem rpow_alg (a p : ℝ) (hp : 1 < p) :
    p * |a| ^ (p - 2) * a = p * (|a| ^ (p - 1) * signPM a) := by
  by_cases ha : a = 0
  · subst ha
    have : p - 1 ≠ 0 := sub_ne_zero.2 hp.ne'
    simp [Real.zero_rpow this]
  · have hpos : 0 < |a| := abs_pos.2 ha
    have e : |a| ^ (p - 1) = |a| ^ (p - 2) * |a| := by
      rw [show p - 1 = (p - 2) + 1 by ring, Real.rpow_add hpos, Real.rpow_one]
    rw [e]
    have := abs_mul_signPM a
    linear_combination (-(p * |a| ^ (p - 2))) * this

/-- `|t - c| ^ p` is differentiable everywhere for `p > 1`. -/
theorem hasDerivAt_abs_sub_rpow (a c p : ℝ) (hp : 1 < p) :
    HasDerivAt (fun s => |s - c| ^ p) (p * (|a - c| ^ (p - 1) * signPM (a - c))) a := by
  have h := (hasDerivAt_abs_rpow (a - c) hp).comp a ((hasDerivAt_id' a).sub_const c)
  have h' : HasDerivAt (fun s => |s - c| ^ p) (p * |a - c| ^ (p - 2) * (a - c) * 1) a := h
  exact h'.congr_deriv (by rw [mul_one]; exact rpow_alg _ _ hp)

theorem sum_abs_rpow_pos {x y : Fin n → ℝ} (hne : x ≠ y) (p : ℝ) :
    0 < ∑ j, |x j - y j| ^ p := by
  obtain ⟨j, hj⟩ := Function.ne_iff.1 hne
  exact Finset.sum_pos' (fun k _ => Real.rpow_nonneg (abs_nonneg _) p)
    ⟨j, Finset.mem_univ j, Real.rpow_pos_of_pos (abs_pos.2 (sub_ne_zero.2 hj)) p⟩

theorem minkowskiGrad_fst (p : ℝ) (x y : Fin n → ℝ) :
    (Grad.minkowskiGrad realT p (List.ofFn x) (List.ofFn y)).1
      = (∑ j, |x j - y j| ^ p) ^ (1 / p) := by
  simp only [Grad.minkowskiGrad, diffs_ofFn, map_ofFn', sumL_ofFn, absV_eq_abs, realT]

theorem minkowskiGrad_snd (p : ℝ) (x y : Fin n → ℝ) :
    (Grad.minkowskiGrad realT p (List.ofFn x) (List.ofFn y)).2
      = List.ofFn (fun j => |x j - y j| ^ (p - 1) * signPM (x j - y j)
          * (if 0 < ∑ k, |x k - y k| ^ p then (∑ k, |x k - y k| ^ p) ^ (1 / p - 1) else 0)) := by
  simp only [Grad.minkowskiGrad, diffs_ofFn, map_ofFn', sumL_ofFn, absV_eq_abs, realT]

theorem minkowskiGrad_length (p : ℝ) (x y : Fin n → ℝ) :
    (Grad.minkowskiGrad realT p (List.ofFn x) (List.ofFn y)).2.length = n := by
  rw [minkowskiGrad_snd, List.length_ofFn]

/-- the distance returned by `minkowskiGrad` is `Metrics.minkowski`. -/
theorem minkowskiGrad_fst_eq_metric (p : ℝ) (x y : List ℝ) :
    (Grad.minkowskiGrad realT p x y).1 = minkowski realT p x y := rfl

/-- C14, minkowski with `p > 1`: differentiable wherever `x ≠ y`. -/
theorem minkowski_grad_hasDerivAt (n : ℕ) (p : ℝ) (x y : Fin n → ℝ) (i : Fin n)
    (hp : 1 < p) (hne : x ≠ y) :
    HasDerivAt
      (fun t => (Grad.minkowskiGrad realT p (List.ofFn (Function.update x i t)) (List.ofFn y)).1)
      ((Grad.minkowskiGrad realT p (List.ofFn x) (List.ofFn y)).2.getD i.val 0) (x i) := by
  simp_rw [minkowskiGrad_fst]
  have hS := sum_abs_rpow_pos hne p
  rw [minkowskiGrad_snd, getD_ofFn, if_pos hS]
  have hs := hasDerivAt_sum_update (fun j s => |s - y j| ^ p) x i _
    (hasDerivAt_abs_sub_rpow (x i) (y i) p hp)
  have h := hs.rpow_const (p := 1 / p)
    (Or.inl (by simp only [Function.update_eq_self]; exact hS.ne'))
  refine h.congr_deriv ?_
  simp only [Function.update_eq_self]
  have hp0 : p ≠ 0 := by linarith
  field_simp

example : HasDerivAt
    (fun t => (Grad.minkowskiGrad realT 3 (List.ofFn (Function.update ![1, 2] 0 t))
      (List.ofFn ![0, 0])).1)
    ((Grad.minkowskiGrad realT 3 (List.ofFn ![1, 2]) (List.ofFn ![0, 0])).2.getD (0 : Fin 2).val 0)
    ((![1, 2] : Fin 2 → ℝ) 0) :=
  minkowski_grad_hasDerivAt 2 3 ![1, 2] ![0, 0] 0 (by norm_num)
    (by intro h; have := congrFun h 0; simp at this)

theorem wminkowskiGrad_fst (w : Fin n → ℝ) (p : ℝ) (x y : Fin n → ℝ) :
    (Grad.wminkowskiGrad realT (List.ofFn w) p (List.ofFn x) (List.ofFn y)).1
      = (∑ j, w j * |x j - y j| ^ p) ^ (1 / p) := by
  simp only [Grad.wminkowskiGrad, diffs_ofFn, zip_ofFn, map_ofFn', sumL_ofFn, absV_eq_abs, realT]

theorem wminkowskiGrad_snd (w : Fin n → ℝ) (p : ℝ) (x y : Fin n → ℝ) :
    (Grad.wminkowskiGrad realT (List.ofFn w) p (List.ofFn x) (List.ofFn y)).2
      = List.ofFn (fun j => w j * |x j - y j| ^ (p - 1) * signPM (x j - y j)
          * (if 0 < ∑ k, w k * |x k - y k| ^ p
              then (∑ k, w k * |x k - y k| ^ p) ^ (1 / p - 1) else 0)) := by
  simp only [Grad.wminkowskiGrad, diffs_ofFn, zip_ofFn, map_ofFn', sumL_ofFn, absV_eq_abs, realT]

theorem wminkowskiGrad_length (w : Fin n → ℝ) (p : ℝ) (x y : Fin n → ℝ) :
    (Grad.wminkowskiGrad realT (List.ofFn w) p (List.ofFn x) (List.ofFn y)).2.length = n := by
  rw [wminkowskiGrad_snd, List.length_ofFn]

theorem wminkowskiGrad_fst_eq_metric (w : List ℝ) (p : ℝ) (x y : List ℝ) :
    (Grad.wminkowskiGrad realT w p x y).1 = wminkowski realT w p x y := rfl

/-- C14, weighted minkowski with `p > 1`: differentiable wherever the weighted sum is positive
    (for positive weights: wherever `x ≠ y`). -/
theorem wminkowski_grad_hasDerivAt (n : ℕ) (w : Fin n → ℝ) (p : ℝ) (x y : Fin n → ℝ) (i : Fin n)
    (hp : 1 < p) (hS : 0 < ∑ j, w j * |x j - y j| ^ p) :
    HasDerivAt
      (fun t => (Grad.wminkowskiGrad realT (List.ofFn w) p
        (List.ofFn (Function.update x i t)) (List.ofFn y)).1)
      ((Grad.wminkowskiGrad realT (List.ofFn w) p (List.ofFn x) (List.ofFn y)).2.getD i.val 0)
      (x i) := by
  simp_rw [wminkowskiGrad_fst]
  rw [wminkowskiGrad_snd, getD_ofFn, if_pos hS]
  have hs := hasDerivAt_sum_update (fun j s => w j * |s - y j| ^ p) x i _
    ((hasDerivAt_abs_sub_rpow (x i) (y i) p hp).const_mul (w i))
  have h := hs.rpow_const (p := 1 / p)
    (Or.inl (by simp only [Function.update_eq_self]; exact hS.ne'))
  refine h.congr_deriv ?_
  simp only [Function.update_eq_self]
  have hp0 : p ≠ 0 := by linarith
  field_simp

/-- positive weights and `x ≠ y` give the positivity hypothesis of
    `wminkowski_grad_hasDerivAt`. -/
theorem wsum_abs_rpow_pos {w x y : Fin n → ℝ} (hw : ∀ j, 0 < w j) (hne : x ≠ y) (p : ℝ) :
    0 < ∑ j, w j * |x j - y j| ^ p := by
  obtain ⟨j, hj⟩ := Function.ne_iff.1 hne
  exact Finset.sum_pos'
    (fun k _ => mul_nonneg (hw k).le (Real.rpow_nonneg (abs_nonneg _) p))
    ⟨j, Finset.mem_univ j,
      mul_pos (hw j) (Real.rpow_pos_of_pos (abs_pos.2 (sub_ne_zero.2 hj)) p)⟩

example : HasDerivAt
    (fun t => (Grad.wminkowskiGrad realT (List.ofFn ![2, 5]) 3
      (List.ofFn (Function.update ![1, 2] 0 t)) (List.ofFn ![0, 0])).1)
    ((Grad.wminkowskiGrad realT (List.ofFn ![2, 5]) 3 (List.ofFn ![1, 2])
      (List.ofFn ![0, 0])).2.getD (0 : Fin 2).val 0)
    ((![1, 2] : Fin 2 → ℝ) 0) :=
  wminkowski_grad_hasDerivAt 2 ![2, 5] 3 ![1, 2] ![0, 0] 0 (by norm_num)
    (wsum_abs_rpow_pos (by intro j; fin_cases j <;> simp)
      (by intro h; have := congrFun h 0; simp at this) 3)

/-! ### hyperboloid -/

theorem hasDerivAt_sum_mul_self (x : Fin n → ℝ) (i : Fin n) :
    HasDerivAt (fun t => ∑ j, Function.update x i t j * Function.update x i t j)
      (2 * x i) (x i) := by
  apply hasDerivAt_sum_update (fun j s => s * s)
  exact ((hasDerivAt_id' (x i)).fun_mul (hasDerivAt_id' (x i))).congr_deriv (by ring)

theorem hasDerivAt_sum_mul (x y : Fin n → ℝ) (i : Fin n) :
    HasDerivAt (fun t => ∑ j, Function.update x i t j * y j) (y i) (x i) := by
  apply hasDerivAt_sum_update (fun j s => s * y j)
  exact ((hasDerivAt_id' (x i)).mul_const (y i)).congr_deriv (by ring)

/-- the Lorentzian product `B = sqrt(1+|x|²) sqrt(1+|y|²) - <x,y>` of the lifted points. -/
noncomputable def hypB (x y : Fin n → ℝ) : ℝ :=
  Real.sqrt (1 + ∑ j, x j * x j) * Real.sqrt (1 + ∑ j, y j * y j) - ∑ j, x j * y j

theorem hyperboloidGrad_fst (eps : ℝ) (x y : Fin n → ℝ) :
    (Grad.hyperboloidGrad realT eps (List.ofFn x) (List.ofFn y)).1
      = Real.arcosh (if hypB x y ≤ 1 then 1 + eps else hypB x y) := by
  simp only [Grad.hyperboloidGrad, dot_ofFn, realT, hypB]
  congr!

theorem hyperboloidGrad_snd (eps : ℝ) (x y : Fin n → ℝ) :
    (Grad.hyperboloidGrad realT eps (List.ofFn x) (List.ofFn y)).2
      = List.ofFn (fun j =>
          1 / (Real.sqrt ((if hypB x y ≤ 1 then 1 + eps else hypB x y) - 1)
              * Real.sqrt ((if hypB x y ≤ 1 then 1 + eps else hypB x y) + 1))
          * (x j * Real.sqrt (1 + ∑ k, y k * y k) / Real.sqrt (1 + ∑ k, x k * x k) - y j)) := by
  simp only [Grad.hyperboloidGrad, dot_ofFn, zip_ofFn, map_ofFn', realT, hypB]
  congr!

theorem hyperboloidGrad_length (eps : ℝ) (x y : Fin n → ℝ) :
    (Grad.hyperboloidGrad realT eps (List.ofFn x) (List.ofFn y)).2.length = n := by
  rw [hyperboloidGrad_snd, List.length_ofFn]

/-- distinct points have Lorentzian product `> 1` (Cauchy–Schwarz), so the clamp is inactive. -/
theorem hypB_gt_one {x y : Fin n → ℝ} (hne : x ≠ y) : 1 < hypB x y := by
  unfold hypB
  have ha : 0 ≤ ∑ j, x j * x j := Finset.sum_nonneg (fun j _ => mul_self_nonneg _)
  have hb : 0 ≤ ∑ j, y j * y j := Finset.sum_nonneg (fun j _ => mul_self_nonneg _)
  have hcs : (∑ j, x j * y j) * (∑ j, x j * y j) ≤ (∑ j, x j * x j) * (∑ j, y j * y j) := by
    have := Finset.sum_mul_sq_le_sq_mul_sq Finset.univ x y
    simpa only [sq] using this
  have hd : 0 < (∑ j, x j * x j) + (∑ j, y j * y j) - 2 * (∑ j, x j * y j) := by
    have h := sumsq_pos hne
    have e : ∑ j, (x j - y j) * (x j - y j)
        = (∑ j, x j * x j) + (∑ j, y j * y j) - 2 * (∑ j, x j * y j) := by
      rw [Finset.mul_sum, ← Finset.sum_add_distrib, ← Finset.sum_sub_distrib]
      apply Finset.sum_congr rfl
      intro j _
      ring
    linarith
  rw [← Real.sqrt_mul (by linarith)]
  have : 1 + ∑ j, x j * y j
      < Real.sqrt ((1 + ∑ j, x j * x j) * (1 + ∑ j, y j * y j)) := by
    by_cases h : 0 ≤ 1 + ∑ j, x j * y j
    · rw [Real.lt_sqrt h]; nlinarith
    · exact lt_of_lt_of_le (not_le.1 h) (Real.sqrt_nonneg _)
  linarith

theorem hasDerivAt_hypB (x y : Fin n → ℝ) (i : Fin n) :
    HasDerivAt (fun t => hypB (Function.update x i t) y)
      (2 * x i / (2 * Real.sqrt (1 + ∑ j, x j * x j)) * Real.sqrt (1 + ∑ j, y j * y j) - y i)
      (x i) := by
  unfold hypB
  have h1 : 0 < 1 + ∑ j, x j * x j :=
    add_pos_of_pos_of_nonneg one_pos (Finset.sum_nonneg (fun j _ => mul_self_nonneg _))
  have hs := ((hasDerivAt_sum_mul_self x i).const_add 1).sqrt
    (by simp only [Function.update_eq_self]; exact h1.ne')
  have h := (hs.mul_const (Real.sqrt (1 + ∑ j, y j * y j))).fun_sub (hasDerivAt_sum_mul x y i)
  refine h.congr_deriv ?_
  simp only [Function.update_eq_self]

/-- C14, hyperboloid: differentiable wherever `x ≠ y`. -/
theorem hyperboloid_grad_hasDerivAt (n : ℕ) (x y : Fin n → ℝ) (i : Fin n) (hne : x ≠ y) :
    HasDerivAt
      (fun t => (Grad.hyperboloidGrad realT 0 (List.ofFn (Function.update x i t)) (List.ofFn y)).1)
      ((Grad.hyperboloidGrad realT 0 (List.ofFn x) (List.ofFn y)).2.getD i.val 0) (x i) := by
  have hB := hypB_gt_one hne
  have hB0 := hasDerivAt_hypB x y i
  have hev : ∀ᶠ t in nhds (x i),
      (Grad.hyperboloidGrad realT 0 (List.ofFn (Function.update x i t)) (List.ofFn y)).1
        = Real.arcosh (hypB (Function.update x i t) y) := by
    have : ∀ᶠ t in nhds (x i), 1 < hypB (Function.update x i t) y :=
      ContinuousAt.eventually_lt continuousAt_const hB0.continuousAt
        (by simp only [Function.update_eq_self]; exact hB)
    filter_upwards [this] with t ht
    rw [hyperboloidGrad_fst, if_neg (not_le.2 ht)]
  refine HasDerivAt.congr_of_eventuallyEq ?_ hev
  have hmem : hypB (Function.update x i (x i)) y ∈ Set.Ioi (1 : ℝ) := by
    simp only [Function.update_eq_self]; exact hB
  have h := (Real.hasDerivAt_arcosh hmem).comp (x i) hB0
  have h' : HasDerivAt (fun t => Real.arcosh (hypB (Function.update x i t) y)) _ (x i) := h
  refine h'.congr_deriv ?_
  rw [hyperboloidGrad_snd, getD_ofFn, if_neg (not_le.2 hB)]
  simp only [Function.update_eq_self]
  have e : Real.sqrt (hypB x y ^ 2 - 1)
      = Real.sqrt (hypB x y - 1) * Real.sqrt (hypB x y + 1) := by
    rw [← Real.sqrt_mul (by linarith)]; congr 1; ring
  rw [e, two_mul_div_two_mul, one_div, div_mul_eq_mul_div]

example : HasDerivAt
    (fun t => (Grad.hyperboloidGrad realT 0 (List.ofFn (Function.update ![1, 2] 0 t))
      (List.ofFn ![0, 0])).1)
    ((Grad.hyperboloidGrad realT 0 (List.ofFn ![1, 2])
      (List.ofFn ![0, 0])).2.getD (0 : Fin 2).val 0)
    ((![1, 2] : Fin 2 → ℝ) 0) :=
  hyperboloid_grad_hasDerivAt 2 ![1, 2] ![0, 0] 0
    (by intro h; have := congrFun h 0; simp at this)

/-- for distinct points the regularising constant is never used. -/
theorem hyperboloid_grad_eps (eps : ℝ) (x y : Fin n → ℝ) (hne : x ≠ y) :
    Grad.hyperboloidGrad realT eps (List.ofFn x) (List.ofFn y)
      = Grad.hyperboloidGrad realT 0 (List.ofFn x) (List.ofFn y) := by
  have hB := hypB_gt_one hne
  apply Prod.ext
  · rw [hyperboloidGrad_fst, hyperboloidGrad_fst, if_neg (not_le.2 hB), if_neg (not_le.2 hB)]
  · rw [hyperboloidGrad_snd, hyperboloidGrad_snd]
    simp only [if_neg (not_le.2 hB)]

/-! ### symmetric KL -/

/-- normalising mass `∑ (x k + z)`. -/
noncomputable def klX (z : ℝ) (x : Fin n → ℝ) : ℝ := ∑ k, (x k + z)

/-- smoothed, normalised coordinate. -/
noncomputable def klP (z : ℝ) (x : Fin n → ℝ) (j : Fin n) : ℝ := (x j + z) / klX z x

/-- partial derivative of the divergence in the normalised coordinate `P j`. -/
noncomputable def klG (z : ℝ) (x y : Fin n → ℝ) (j : Fin n) : ℝ :=
  (Real.log (klP z x j / klP z y j) - klP z y j / klP z x j + 1) / 2

theorem symmetricKlGrad_fst (z : ℝ) (x y : Fin n → ℝ) :
    (Grad.symmetricKlGrad realT z (List.ofFn x) (List.ofFn y)).1
      = (∑ j, klP z x j * Real.log (klP z x j / klP z y j)
          + ∑ j, klP z y j * Real.log (klP z y j / klP z x j)) / 2 := by
  simp only [Grad.symmetricKlGrad, symmetricKl, sumL_ofFn, map_ofFn', zip_ofFn, realT, two,
    Nat.cast_ofNat, klP, klX]

theorem symmetricKlGrad_fst_eq_metric (z : ℝ) (x y : List ℝ) :
    (Grad.symmetricKlGrad realT z x y).1 = symmetricKl realT z x y := rfl

theorem symmetricKlGrad_snd (z : ℝ) (x y : Fin n → ℝ) :
    (Grad.symmetricKlGrad realT z (List.ofFn x) (List.ofFn y)).2
      = List.ofFn (fun j => (klG z x y j - ∑ k, klP z x k * klG z x y k) / klX z x) := by
  simp only [Grad.symmetricKlGrad, sumL_ofFn, map_ofFn', zip_ofFn, realT, two,
    Nat.cast_ofNat, klG, klP, klX]

theorem symmetricKlGrad_length (z : ℝ) (x y : Fin n → ℝ) :
    (Grad.symmetricKlGrad realT z (List.ofFn x) (List.ofFn y)).2.length = n := by
  rw [symmetricKlGrad_snd, List.length_ofFn]

/-- C14, symmetric KL (as repaired): differentiable wherever all smoothed coordinates and both
    masses are non-zero (in practice: positive). -/
theorem symmetricKl_grad_hasDerivAt' (n : ℕ) (z : ℝ) (x y : Fin n → ℝ) (i : Fin n)
    (hX : klX z x ≠ 0) (hY : klX z y ≠ 0) (hx : ∀ j, x j + z ≠ 0) (hy : ∀ j, y j + z ≠ 0) :
    HasDerivAt
      (fun t => (Grad.symmetricKlGrad realT z (List.ofFn (Function.update x i t)) (List.ofFn y)).1)
      ((Grad.symmetricKlGrad realT z (List.ofFn x) (List.ofFn y)).2.getD i.val 0) (x i) := by
  simp_rw [symmetricKlGrad_fst]
  rw [symmetricKlGrad_snd, getD_ofFn]
  have hPne : ∀ j, klP z x j ≠ 0 := fun j => div_ne_zero (hx j) hX
  have hQne : ∀ j, klP z y j ≠ 0 := fun j => div_ne_zero (hy j) hY
  have hXd : HasDerivAt (fun t => klX z (Function.update x i t)) 1 (x i) := by
    unfold klX
    exact hasDerivAt_sum_update (fun _ s => s + z) x i 1 ((hasDerivAt_id' _).add_const z)
  have hP := fun j => ((hasDerivAt_update_apply x i j).add_const z).fun_div hXd
    (by simp only [Function.update_eq_self]; exact hX)
  have hP' : ∀ j, HasDerivAt (fun t => klP z (Function.update x i t) j) _ (x i) := hP
  have hA := fun j => (hP' j).fun_mul (((hP' j).div_const (klP z y j)).log
    (by simp only [Function.update_eq_self]; exact div_ne_zero (hPne j) (hQne j)))
  have hB := fun j => (((hasDerivAt_const (x i) (klP z y j)).fun_div (hP' j)
    (by simp only [Function.update_eq_self]; exact hPne j)).log
    (by simp only [Function.update_eq_self]; exact div_ne_zero (hQne j) (hPne j))).const_mul
      (klP z y j)
  have hSA := HasDerivAt.fun_sum (u := Finset.univ) (fun j _ => hA j)
  have hSB := HasDerivAt.fun_sum (u := Finset.univ) (fun j _ => hB j)
  have h := (hSA.fun_add hSB).div_const 2
  refine h.congr_deriv ?_
  simp only [Function.update_eq_self]
  have hR : (klG z x y i - ∑ k, klP z x k * klG z x y k) / klX z x
      = (∑ j, 2 / klX z x * ((if j = i then 1 else 0) * klG z x y j
          - klP z x j * klG z x y j)) / 2 := by
    rw [← Finset.mul_sum, Finset.sum_sub_distrib]
    simp only [ite_mul, one_mul, zero_mul, Finset.sum_ite_eq', Finset.mem_univ, if_true]
    field_simp
  rw [hR, ← Finset.sum_add_distrib]
  congr 1
  apply Finset.sum_congr rfl
  intro j _
  have e : x j + z = klP z x j * klX z x := by unfold klP; field_simp
  have h1 := hPne j
  have h2 := hQne j
  rw [e]
  unfold klG
  generalize Real.log (klP z x j / klP z y j) = L
  generalize (if j = i then (1 : ℝ) else 0) = δ
  generalize klP z x j = P at *
  generalize klP z y j = Q at *
  generalize klX z x = X at *
  field_simp
  ring

/-- C14, symmetric KL on its natural domain (all smoothed coordinates positive). -/
theorem symmetricKl_grad_hasDerivAt (n : ℕ) (z : ℝ) (x y : Fin n → ℝ) (i : Fin n)
    (hx : ∀ j, 0 < x j + z) (hy : ∀ j, 0 < y j + z) :
    HasDerivAt
      (fun t => (Grad.symmetricKlGrad realT z (List.ofFn (Function.update x i t)) (List.ofFn y)).1)
      ((Grad.symmetricKlGrad realT z (List.ofFn x) (List.ofFn y)).2.getD i.val 0) (x i) := by
  have hX : 0 < klX z x :=
    Finset.sum_pos' (fun j _ => (hx j).le) ⟨i, Finset.mem_univ i, hx i⟩
  have hY : 0 < klX z y :=
    Finset.sum_pos' (fun j _ => (hy j).le) ⟨i, Finset.mem_univ i, hy i⟩
  exact symmetricKl_grad_hasDerivAt' n z x y i hX.ne' hY.ne'
    (fun j => (hx j).ne') (fun j => (hy j).ne')

example : HasDerivAt
    (fun t => (Grad.symmetricKlGrad realT 1 (List.ofFn (Function.update ![1, 2] 0 t))
      (List.ofFn ![3, 0])).1)
    ((Grad.symmetricKlGrad realT 1 (List.ofFn ![1, 2])
      (List.ofFn ![3, 0])).2.getD (0 : Fin 2).val 0)
    ((![1, 2] : Fin 2 → ℝ) 0) :=
  symmetricKl_grad_hasDerivAt 2 1 ![1, 2] ![3, 0] 0
    (by intro j; fin_cases j <;> simp <;> norm_num)
    (by intro j; fin_cases j <;> simp <;> norm_num)

/-! ### further relations -/

/-- seuclidean: the regularised gradient is the true one shrunk by `d σ_i / (eps + d σ_i)`. -/
theorem seuclidean_grad_eps (eps : ℝ) (sigma x y : Fin n → ℝ) (i : Fin n)
    (hs : sigma i ≠ 0) (hS : 0 < ∑ j, (x j - y j) * (x j - y j) / sigma j) :
    (Grad.seuclideanGrad realT eps (List.ofFn sigma) (List.ofFn x) (List.ofFn y)).2.getD i.val 0
      = (Grad.seuclideanGrad realT 0 (List.ofFn sigma) (List.ofFn x) (List.ofFn y)).2.getD i.val 0
        * ((Grad.seuclideanGrad realT 0 (List.ofFn sigma) (List.ofFn x) (List.ofFn y)).1 * sigma i
          / (eps + (Grad.seuclideanGrad realT 0 (List.ofFn sigma) (List.ofFn x) (List.ofFn y)).1
              * sigma i)) := by
  rw [seuclideanGrad_snd, seuclideanGrad_snd, seuclideanGrad_fst, getD_ofFn, getD_ofFn, zero_add]
  have hd : Real.sqrt (∑ j, (x j - y j) * (x j - y j) / sigma j) * sigma i ≠ 0 :=
    mul_ne_zero (Real.sqrt_pos.2 hS).ne' hs
  rw [div_mul_div_comm, mul_comm (x i - y i), mul_div_mul_left _ _ hd]

/-! ### the returned distance is the metric of `Umap.Metrics` (all list inputs) -/

theorem euclideanGrad_fst_eq_metric (eps : ℝ) (x y : List ℝ) :
    (Grad.euclideanGrad realT eps x y).1 = euclidean realT x y := rfl

theorem seuclideanGrad_fst_eq_metric (eps : ℝ) (sigma x y : List ℝ) :
    (Grad.seuclideanGrad realT eps sigma x y).1 = seuclidean realT sigma x y := rfl

theorem manhattanGrad_fst_eq_metric (x y : List ℝ) :
    (Grad.manhattanGrad x y).1 = manhattan x y := rfl

theorem canberraGrad_fst_eq_metric (x y : List ℝ) :
    (Grad.canberraGrad x y).1 = canberra x y := rfl

theorem brayCurtisGrad_fst_eq_metric (x y : List ℝ) :
    (Grad.brayCurtisGrad x y).1 = brayCurtis x y := by
  simp only [Grad.brayCurtisGrad, brayCurtis]
  split_ifs <;> rfl

theorem cosineGrad_fst_eq_metric (x y : List ℝ) :
    (Grad.cosineGrad realT x y).1 = cosine realT x y := by
  simp only [Grad.cosineGrad, cosine]
  split_ifs <;> rfl

theorem dot_cons_cons (v w : ℝ) (a b : List ℝ) : dot (v :: a) (w :: b) = v * w + dot a b := by
  simp only [dot, List.zip_cons_cons, List.map_cons, sumL_cons]

theorem dot_self_nonneg (a : List ℝ) : 0 ≤ dot a a := by
  induction a with
  | nil => simp [dot]
  | cons v a ih => rw [dot_cons_cons]; exact add_nonneg (mul_self_nonneg v) ih

/-- a list whose squares sum to `0` has dot product `0` with every list (also of another length). -/
theorem dot_eq_zero_of_left (a b : List ℝ) (h : dot a a = 0) : dot a b = 0 := by
  induction a generalizing b with
  | nil => simp [dot]
  | cons v a ih =>
    rw [dot_cons_cons] at h
    have hv : v * v = 0 := by
      have := mul_self_nonneg v; have := dot_self_nonneg a; linarith
    have ha : dot a a = 0 := by
      have := mul_self_nonneg v; have := dot_self_nonneg a; linarith
    cases b with
    | nil => simp [dot]
    | cons w b => rw [dot_cons_cons, ih b ha, mul_self_eq_zero.1 hv]; simp

theorem dot_eq_zero_of_right (a b : List ℝ) (h : dot b b = 0) : dot a b = 0 := by
  induction b generalizing a with
  | nil => simp [dot]
  | cons w b ih =>
    rw [dot_cons_cons] at h
    have hw : w * w = 0 := by
      have := mul_self_nonneg w; have := dot_self_nonneg b; linarith
    have hb : dot b b = 0 := by
      have := mul_self_nonneg w; have := dot_self_nonneg b; linarith
    cases a with
    | nil => simp [dot]
    | cons v a => rw [dot_cons_cons, ih a hb, mul_self_eq_zero.1 hw]; simp

/-- a constant vector has centred dot product `0` with every vector. -/
theorem cdot_eq_zero_of_left (x y : Fin n → ℝ) (h : cdot x x = 0) : cdot x y = 0 := by
  rw [← correlation_core x y]
  exact dot_eq_zero_of_left _ _ ((correlation_core x x).trans h)

/-- the returned distance is the metric `Metrics.correlation` in every branch.  The metric tests
    the centred dot product (`== 0 → 1`), the gradient function tests the two centred norms: when
    one norm is `0` every centred entry of that vector is `0`, so the centred dot product is `0`
    and both return `1`; when neither norm is `0` and the centred dot product is `0`, the
    gradient function returns `1 - 0 / norm = 1`. -/
theorem correlationGrad_fst_eq_metric (x y : List ℝ) :
    (Grad.correlationGrad realT x y).1 = correlation realT x y := by
  simp only [Grad.correlationGrad, correlation]
  split_ifs with h1 h2 h3 h3
  · rfl
  · rfl
  · exfalso
    apply h3
    rw [Bool.or_eq_true, eqV_iff, eqV_iff] at h2
    rw [eqV_iff]
    rcases h2 with h2 | h2
    · exact dot_eq_zero_of_left _ _ h2
    · exact dot_eq_zero_of_right _ _ h2
  · rw [eqV_iff] at h3
    simp only [h3, zero_div, sub_zero]
  · rfl

theorem hellingerGrad_fst_eq_metric (x y : List ℝ) :
    (Grad.hellingerGrad realT x y).1 = hellinger realT x y := by
  simp only [Grad.hellingerGrad, hellinger]
  split_ifs <;> rfl

theorem amFold_eq_maxL (l : List ℝ) (acc : ℕ × ℕ × ℝ) :
    (l.foldl amStep acc).2.2 = maxL acc.2.2 (l.map absV) := by
  induction l generalizing acc with
  | nil => rfl
  | cons v l ih =>
    simp only [List.foldl_cons, List.map_cons, maxL]
    rw [ih]
    unfold maxL amStep
    split_ifs <;> rfl

theorem chebyshevGrad_fst_eq_metric (x y : List ℝ) :
    (Grad.chebyshevGrad x y).1 = chebyshev x y := by
  simp only [Grad.chebyshevGrad, chebyshev, argmaxAbs_eq]
  exact amFold_eq_maxL _ _

/-! ### a refuted variant: `correlation_grad` as pinned before the repair, at an exactly zero
    centred dot product -/

section pinned
variable {α : Type} [Add α] [Sub α] [Mul α] [Div α] [Neg α] [LT α] [LE α]
  [DecidableLT α] [DecidableLE α] [OfNat α 0] [OfNat α 1] [NatCast α]

/-- `correlation_grad` as it was before the repair (the former `Grad.correlationGrad`, copied):
    a zero gradient whenever the centred dot product is exactly `0`. -/
def pinnedCorrelationGrad (T : Transc α) (x y : List α) : α × List α :=
  let mx := mean x
  let my := sumL y / (x.length : α)
  let sx := x.map (· - mx)
  let sy := y.map (· - my)
  let nx := dot sx sx
  let ny := dot sy sy
  let dp := dot sx sy
  if eqV nx 0 && eqV ny 0 then (0, x.map (fun _ => 0))
  else if eqV dp 0 then (1, x.map (fun _ => 0))
  else
    let dist := 1 - dp / T.sqrt (nx * ny)
    (dist, (sx.zip sy).map (fun p => (p.1 / nx - p.2 / dp) * (1 - dist)))

end pinned

theorem pinnedCorrelationGrad_fst_eq_metric (x y : List ℝ) :
    (pinnedCorrelationGrad realT x y).1 = correlation realT x y := by
  simp only [pinnedCorrelationGrad, correlation]
  split_ifs <;> rfl

/-- the pinned and the repaired function return the same distance (on all inputs). -/
theorem pinnedCorrelationGrad_fst_eq (x y : List ℝ) :
    (pinnedCorrelationGrad realT x y).1 = (Grad.correlationGrad realT x y).1 := by
  rw [pinnedCorrelationGrad_fst_eq_metric, correlationGrad_fst_eq_metric]

/-- when the centred dot product is exactly `0` the pinned code returns a zero gradient … -/
theorem pinnedCorrelationGrad_snd_of_cdot_zero (x y : Fin n → ℝ) (hdp : cdot x y = 0) :
    (pinnedCorrelationGrad realT (List.ofFn x) (List.ofFn y)).2
      = List.ofFn (fun _ : Fin n => (0 : ℝ)) := by
  have e1 := correlation_core x y
  simp only [mean] at e1
  simp only [pinnedCorrelationGrad, mean, e1, hdp, Bool.and_eq_true, eqV_iff]
  split_ifs <;> exact map_ofFn' _ _

/-- … and where the centred dot product is non-zero it returns what the repaired code returns. -/
theorem pinnedCorrelationGrad_snd_of_cdot_ne_zero (x y : Fin n → ℝ) (hdp : cdot x y ≠ 0) :
    (pinnedCorrelationGrad realT (List.ofFn x) (List.ofFn y)).2
      = (Grad.correlationGrad realT (List.ofFn x) (List.ofFn y)).2 := by
  have e1 := correlation_core x y
  have e2 := correlation_core x x
  have e3 : dot ((List.ofFn y).map (· - sumL (List.ofFn y) / ((List.ofFn x).length : ℝ)))
        ((List.ofFn y).map (· - sumL (List.ofFn y) / ((List.ofFn x).length : ℝ))) = cdot y y := by
    simp only [sumL_ofFn, List.length_ofFn, map_ofFn', dot_ofFn, cdot, cmean]
  have hx : cdot x x ≠ 0 := fun h => hdp (cdot_eq_zero_of_left x y h)
  have hy : cdot y y ≠ 0 := fun h => hdp (by
    rw [← e1]; exact dot_eq_zero_of_right _ _ (by rw [e3]; exact h))
  rw [correlationGrad_snd x y hx hy]
  simp only [mean] at e1 e2
  simp only [pinnedCorrelationGrad, mean, e1, e2, e3, Bool.and_eq_true, eqV_iff, realT]
  rw [if_neg (fun h => hx h.1), if_neg hdp]
  simp only [sumL_ofFn, List.length_ofFn, map_ofFn', zip_ofFn]
  have hnx : 0 < cdot x x :=
    lt_of_le_of_ne (Finset.sum_nonneg (fun j _ => mul_self_nonneg _)) (Ne.symm hx)
  have hny : 0 < cdot y y :=
    lt_of_le_of_ne (Finset.sum_nonneg (fun j _ => mul_self_nonneg _)) (Ne.symm hy)
  have hs : Real.sqrt (cdot x x * cdot y y) ≠ 0 := (Real.sqrt_pos.2 (mul_pos hnx hny)).ne'
  congr 1
  funext j
  simp only [cmean]
  field_simp
  ring

/-- … although the distance is differentiable there with a non-zero derivative (for
    non-constant `x`, `y` and `y i ≠ mean y`): the entry returned by the pinned code is not the
    derivative of the distance it returns.  (The repaired `Grad.correlationGrad` does return the
    derivative there: `correlation_grad_hasDerivAt`.) -/
theorem pinned_correlation_grad_ne_deriv_of_cdot_zero (x y : Fin n → ℝ) (i : Fin n)
    (hx : cdot x x ≠ 0) (hy : cdot y y ≠ 0) (hdp : cdot x y = 0) (hi : y i ≠ cmean y) :
    ∃ d : ℝ, HasDerivAt
      (fun t => (pinnedCorrelationGrad realT (List.ofFn (Function.update x i t)) (List.ofFn y)).1)
      d (x i) ∧ d ≠ (pinnedCorrelationGrad realT (List.ofFn x) (List.ofFn y)).2.getD i.val 0 := by
  simp_rw [pinnedCorrelationGrad_fst_eq]
  refine ⟨_, correlation_hasDerivAt_true x y i hx hy, ?_⟩
  rw [pinnedCorrelationGrad_snd_of_cdot_zero x y hdp, getD_ofFn, hdp]
  have hnx : 0 < cdot x x :=
    lt_of_le_of_ne (Finset.sum_nonneg (fun j _ => mul_self_nonneg _)) (Ne.symm hx)
  have hny : 0 < cdot y y :=
    lt_of_le_of_ne (Finset.sum_nonneg (fun j _ => mul_self_nonneg _)) (Ne.symm hy)
  have hs : Real.sqrt (cdot x x * cdot y y) ≠ 0 := (Real.sqrt_pos.2 (mul_pos hnx hny)).ne'
  apply div_ne_zero _ (mul_ne_zero hx hs)
  rw [mul_zero, zero_sub, neg_ne_zero]
  exact mul_ne_zero (sub_ne_zero.2 hi) hx

/-- non-vacuity: `x = (1,2,3,6)`, `y = (1,1,0,1)` have centred dot product `0`. -/
example : ∃ d : ℝ, HasDerivAt
      (fun t => (pinnedCorrelationGrad realT (List.ofFn (Function.update ![1, 2, 3, 6] 0 t))
        (List.ofFn ![1, 1, 0, 1])).1) d ((![1, 2, 3, 6] : Fin 4 → ℝ) 0) ∧
      d ≠ (pinnedCorrelationGrad realT (List.ofFn ![1, 2, 3, 6])
        (List.ofFn ![1, 1, 0, 1])).2.getD (0 : Fin 4).val 0 :=
  pinned_correlation_grad_ne_deriv_of_cdot_zero ![1, 2, 3, 6] ![1, 1, 0, 1] 0
    (by simp [cdot, cmean, Fin.sum_univ_four]; norm_num)
    (by simp [cdot, cmean, Fin.sum_univ_four]; norm_num)
    (by simp [cdot, cmean, Fin.sum_univ_four]; norm_num)
    (by simp [cmean, Fin.sum_univ_four]; norm_num)

end C14
end Umap
