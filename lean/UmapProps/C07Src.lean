/-
  C07Src — the scalar helpers of the layout kernels, as generated from the source text of umap/layouts.py
  (`Generated/LayoutSrc.lean`, namespace `Umap.SrcLayout`), equal the hand-written model (`UmapModel/Sgd.lean`)
  the C07 theorems are about.  Generic scalar type: no algebraic law is used.
-/
import UmapModel.Sgd
import UmapModel.Rng
import Generated.LayoutSrc
import Generated.UtilsSrc
import UmapProofs.SrcLemmas
import Mathlib.Tactic

set_option linter.unusedSectionVars false

namespace Umap
namespace C07Src

section generic
variable {α : Type} [Add α] [Sub α] [Mul α] [Div α] [Neg α] [LT α] [LE α]
  [DecidableLT α] [DecidableLE α] [OfNat α 0] [OfNat α 1] [NatCast α] [Inhabited α]

/-- `clip` as written in the source is the model's clamp into `[-4, 4]`, over any linear ordered field.  Proved by case
    analysis on the order rather than by `rfl`, so that order-equivalent forms of the clamp (`max(-4, min(4, v))`) are accepted. -/
theorem clip_src {K : Type} [Field K] [LinearOrder K] [IsStrictOrderedRing K] (v : K) :
    SrcLayout.clip v = Sgd.clip v := by
  unfold SrcLayout.clip Sgd.clip
  first
    | rfl
    | (simp only [maxV, minV]
       push_cast
       split_ifs <;> first | rfl | linarith | (exfalso; linarith))

/-- `rdist` as written in the source is the model's squared distance (with the identity as rounding function:
    the model threads float32 rounding through `rnd`, the source text does not mention it), on the first
    `x.length` cells of the two arrays. -/
theorem rdist_src (x y : List α) (h : x.length = y.length) :
    SrcLayout.rdist x y = Sgd.rdist id x.toArray y.toArray x.length := by
  unfold SrcLayout.rdist Sgd.rdist
  simp only [id]
  apply List.foldl_ext
  intro acc i hi
  have hx : i < x.length := List.mem_range.mp hi
  have hy : i < y.length := h ▸ hx
  simp [List.getD_eq_getElem?_getD, hx, hy]

end generic

/-- `tau_rand_int` as written in the source of umap/utils.py (int64 words; `>>` the arithmetic shift; the result truncated
    to int32 by the declared numba signature `i4(i8[:])`) is the model's Tausworthe step: same new state words, same
    signed result. -/
theorem tauRandInt_src (a b c : BitVec 64) :
    SrcUtils.tauRandInt [a, b, c]
      = ((Rng.tauRandInt (a, b, c)).2,
         [(Rng.tauRandInt (a, b, c)).1.1, (Rng.tauRandInt (a, b, c)).1.2.1, (Rng.tauRandInt (a, b, c)).1.2.2]) := by
  simp [SrcUtils.tauRandInt, Rng.tauRandInt, Rng.step0, Rng.step1, Rng.step2, Rng.mask32]

end C07Src
end Umap
