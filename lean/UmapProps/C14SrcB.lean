/-
  C14SrcB — the machine-translated gradient kernels of umap/distances.py (`Umap.Src`, generated from
  the library's source text) are EQUAL to the hand-written model the C14 theorems are about
  (`Umap.Grad`).

  Generic part (any scalar type `α` with the bare operations; no algebraic law is used, so the
  statements also cover the executed `Float` instance):
  * `cosineGrad_src`, `correlationGrad_src`, `symmetricKlGrad_src`   (hyp. `x.length = y.length`)
  * `haversineGrad_src`    (Option-valued; `eps` instantiated at the literal `1 / 1000000`)
  * `sphericalGaussianEnergyGrad_src`   (the source is total, the model is `Option`-valued: stated under
    the kernel's own precondition that both arguments are 3-vectors; `…_model_none` for the rest)
  * `hellingerGrad_src_of_max`   (the source writes `max(v, 0)`, the model `maxV 0 v`: generic equality
    under `∀ v, maxV v 0 = maxV 0 v`)

  Ordered-field part (`K` a linear ordered field):
  * `hellingerGrad_src`    (the hypothesis above is a theorem there)
  * `hyperboloidGrad_src`  (the source subtracts the products one by one from `s * t`, the model
    subtracts their sum; `eps` instantiated at the literal `1 / 100000000`)
  * `diagonalGaussianEnergyGrad_src`   (the source carries the dead `sigma_12 = 0` cross terms.  On the
    pinned tree the source allocated a SIX-cell gradient of which it filled four — found by this proof,
    repaired in /repo by `fix: 36848cf`; the statement is now the plain equality)
-/
import UmapModel.Metrics
import UmapModel.Grad
import Generated.DistSrc
import UmapProofs.SrcLemmas
import UmapProofs.SrcLemmasE
import UmapProofs.Basic
import Mathlib.Tactic

set_option linter.unusedSectionVars false
set_option linter.unusedSimpArgs false

namespace Umap
namespace C14SrcB
open SrcLemmas

section generic
variable {α : Type} [Add α] [Sub α] [Mul α] [Div α] [Neg α] [LT α] [LE α]
  [DecidableLT α] [DecidableLE α] [OfNat α 0] [OfNat α 1] [NatCast α]

omit [Add α] [Sub α] [Div α] [Neg α] [LT α] [LE α] [DecidableLT α] [DecidableLE α] [OfNat α 0]
  [OfNat α 1] [NatCast α] in
theorem sq_fun : (Src.sq : α → α) = fun a => a * a := rfl

theorem cosineGrad_src (T : Transc α) (x y : List α) (h : x.length = y.length) :
    Src.cosineGrad T x y = Grad.cosineGrad T x y := by
  unfold Src.cosineGrad Grad.cosineGrad Metrics.dot
  simp only []
  rw [foldl_range_getD₂ x y 0 0 h
    (fun (st : α × α × α) a b => (st.1 + a * b, st.2.1 + Src.sq a, st.2.2 + Src.sq b))]
  rw [foldl_triple (x.zip y) (fun s p => s + p.1 * p.2) (fun s p => s + Src.sq p.1)
    (fun s p => s + Src.sq p.2) 0 0 0]
  rw [foldl_zip_fst x y h (fun s a => s + Src.sq a), foldl_zip_snd x y h (fun s b => s + Src.sq b)]
  rw [foldl_add_eq_sumL (x.zip y) (fun p => p.1 * p.2), foldl_add_eq_sumL x Src.sq,
    foldl_add_eq_sumL y Src.sq]
  simp [sq_fun, Src.cube, Function.comp_def, List.zip_eq_zipWith, List.map_zipWith,
    List.zipWith_map_left, List.zipWith_map_right]

theorem correlationGrad_src (T : Transc α) (x y : List α) (h : x.length = y.length) :
    Src.correlationGrad T x y = Grad.correlationGrad T x y := by
  unfold Src.correlationGrad Grad.correlationGrad Metrics.mean Metrics.dot
  simp only []
  rw [foldl_range_getD₂ x y 0 0 h (fun (st : α × α) a b => (st.1 + a, st.2 + b)),
    foldl_pair (x.zip y) (fun s p => s + p.1) (fun s p => s + p.2),
    foldl_zip_fst x y h (fun s a => s + a), foldl_zip_snd x y h (fun s b => s + b),
    show x.foldl (fun s a => s + a) 0 = sumL x from rfl,
    show y.foldl (fun s a => s + a) 0 = sumL y from rfl]
  simp only []
  generalize sumL x / (x.length : α) = mx
  generalize sumL y / (x.length : α) = my
  rw [foldl_range_getD₂ x y 0 0 h (fun (st : α × α × α) a b =>
      (st.1 + Src.sq (a - mx), st.2.1 + Src.sq (b - my), st.2.2 + (a - mx) * (b - my))),
    foldl_triple (x.zip y) (fun s p => s + Src.sq (p.1 - mx)) (fun s p => s + Src.sq (p.2 - my))
      (fun s p => s + (p.1 - mx) * (p.2 - my)),
    foldl_zip_fst x y h (fun s a => s + Src.sq (a - mx)),
    foldl_zip_snd x y h (fun s b => s + Src.sq (b - my)),
    foldl_add_eq_sumL x (fun a => Src.sq (a - mx)), foldl_add_eq_sumL y (fun b => Src.sq (b - my)),
    foldl_add_eq_sumL (x.zip y) (fun p => (p.1 - mx) * (p.2 - my))]
  simp [Src.sq, Function.comp_def, List.zip_eq_zipWith, List.map_zipWith,
    List.zipWith_map_left, List.zipWith_map_right]

theorem hellingerGrad_src_of_max (T : Transc α) (x y : List α) (h : x.length = y.length)
    (hmax : ∀ v : α, maxV v 0 = maxV 0 v) :
    Src.hellingerGrad T x y = Grad.hellingerGrad T x y := by
  unfold Src.hellingerGrad Grad.hellingerGrad
  simp only []
  rw [foldl_range_set_acc (fun i => T.sqrt (x.getD i 0 * y.getD i 0)) 0
    (fun (st : α × α × α) i v => (st.1 + v, st.2.1 + x.getD i 0, st.2.2 + y.getD i 0))
    (List.replicate x.length 0) (0, 0, 0) x.length (by simp)]
  rw [foldl_range_getD₂ x y 0 0 h
      (fun (st : α × α × α) a b => (st.1 + T.sqrt (a * b), st.2.1 + a, st.2.2 + b)),
    foldl_triple (x.zip y) (fun s p => s + T.sqrt (p.1 * p.2)) (fun s p => s + p.1)
      (fun s p => s + p.2),
    foldl_zip_fst x y h (fun s a => s + a), foldl_zip_snd x y h (fun s b => s + b),
    show x.foldl (fun s a => s + a) 0 = sumL x from rfl,
    show y.foldl (fun s a => s + a) 0 = sumL y from rfl,
    foldl_add_eq_sumL (x.zip y) (fun p => T.sqrt (p.1 * p.2)),
    map_range_getD₂ x y 0 0 h (fun a b => T.sqrt (a * b))]
  simp only []
  have hgt : ((x.zip y).map (fun p => T.sqrt (p.1 * p.2))).length = x.length := by simp [h]
  generalize (x.zip y).map (fun p => T.sqrt (p.1 * p.2)) = gt at hgt ⊢
  generalize sumL x = lx
  generalize sumL y = ly
  generalize sumL gt = r
  rw [hmax]
  generalize T.sqrt (lx * ly) = dd
  generalize T.sqrt (maxV 0 (1 - r / dd)) = dist
  rw [foldl_range_set _ _ _ (List.length_replicate ..),
    map_range_getD₂' x.length y gt 0 0 h.symm hgt (fun a b =>
      (ly * r / (((2 : Nat) : α) * Src.cube dd)
        - (if eqV a 0 then 0 else a / (((2 : Nat) : α) * b * dd))) / (((2 : Nat) : α) * dist))]
  simp only [Src.cube, Metrics.two, replicate_length_eq_map]
  split_ifs <;> rfl

theorem haversineGrad_src (T : Transc α) (pi : α) (x y : List α) (h : x.length = y.length) :
    Src.haversineGrad T pi x y = Grad.haversineGrad T pi (1 / ((1000000 : Nat) : α)) x y := by
  unfold Src.haversineGrad Grad.haversineGrad
  rcases x with _ | ⟨x0, _ | ⟨x1, _ | ⟨x2, x⟩⟩⟩ <;> rcases y with _ | ⟨y0, _ | ⟨y1, _ | ⟨y2, y⟩⟩⟩ <;>
    simp at h <;> simp [Src.sq, Metrics.two]

theorem symmetricKlGrad_src (T : Transc α) (z : α) (x y : List α) (h : x.length = y.length) :
    Src.symmetricKlGrad T x y z = Grad.symmetricKlGrad T z x y := by
  unfold Src.symmetricKlGrad Grad.symmetricKlGrad Metrics.symmetricKl
  simp only []
  rw [foldl_range_getD₂ x y 0 0 h (fun (st : α × α) a b => (st.1 + (a + z), st.2 + (b + z))),
    foldl_pair (x.zip y) (fun s p => s + (p.1 + z)) (fun s p => s + (p.2 + z)),
    foldl_zip_fst x y h (fun s a => s + (a + z)), foldl_zip_snd x y h (fun s b => s + (b + z)),
    foldl_add_eq_sumL x (fun a => a + z), foldl_add_eq_sumL y (fun a => a + z)]
  simp only []
  generalize sumL (x.map (fun a => a + z)) = xs
  generalize sumL (y.map (fun a => a + z)) = ys
  rw [foldl_range_getD₂' x.length ((x.map (fun a => a + z)).map (fun a => a / xs))
      ((y.map (fun a => a + z)).map (fun a => a / ys)) 0 0 (by simp) (by simp [h])
      (fun (st : α × α) a b => (st.1 + a * T.log (a / b), st.2 + b * T.log (b / a)))]
  rw [foldl_pair _ (fun s (p : α × α) => s + p.1 * T.log (p.1 / p.2))
      (fun s (p : α × α) => s + p.2 * T.log (p.2 / p.1)),
    foldl_add_eq_sumL _ (fun (p : α × α) => p.1 * T.log (p.1 / p.2)),
    foldl_add_eq_sumL _ (fun (p : α × α) => p.2 * T.log (p.2 / p.1))]
  simp [Function.comp_def, List.zip_eq_zipWith, List.map_zipWith,
    List.zipWith_map_left, List.zipWith_map_right, Metrics.two, zipWith_zipWith_swap,
    zipWith_zipWith_same]

theorem sphericalGaussianEnergyGrad_src (T : Transc α) (pi : α) (x y : List α)
    (hx : x.length = 3) (hy : y.length = 3) :
    some (Src.sphericalGaussianEnergyGrad T pi x y) = Grad.sphericalGaussianEnergyGrad T pi x y := by
  unfold Src.sphericalGaussianEnergyGrad Grad.sphericalGaussianEnergyGrad
  rcases x with _ | ⟨x0, _ | ⟨x1, _ | ⟨x2, _ | ⟨x3, x⟩⟩⟩⟩ <;> simp at hx
  rcases y with _ | ⟨y0, _ | ⟨y1, _ | ⟨y2, _ | ⟨y3, y⟩⟩⟩⟩ <;> simp at hy
  simp [Src.sq, Metrics.two, List.replicate]

theorem sphericalGaussianEnergyGrad_model_none (T : Transc α) (pi : α) (x y : List α)
    (hxy : ¬ (x.length = 3 ∧ y.length = 3)) :
    Grad.sphericalGaussianEnergyGrad T pi x y = none := by
  unfold Grad.sphericalGaussianEnergyGrad
  rcases x with _ | ⟨x0, _ | ⟨x1, _ | ⟨x2, _ | ⟨x3, x⟩⟩⟩⟩ <;>
    rcases y with _ | ⟨y0, _ | ⟨y1, _ | ⟨y2, _ | ⟨y3, y⟩⟩⟩⟩ <;> simp at hxy ⊢

end generic

section field
variable {K : Type} [Field K] [LinearOrder K] [IsStrictOrderedRing K]

theorem maxV_comm (a b : K) : maxV a b = maxV b a := by
  unfold maxV
  split_ifs with h1 h2 h2
  · exact absurd h2 (lt_asymm h1)
  · rfl
  · rfl
  · exact le_antisymm (not_lt.mp h2) (not_lt.mp h1)

theorem hellingerGrad_src (T : Transc K) (x y : List K) (h : x.length = y.length) :
    Src.hellingerGrad T x y = Grad.hellingerGrad T x y :=
  hellingerGrad_src_of_max T x y h (fun v => maxV_comm v 0)

/-- a running subtraction is one subtraction of the sum -/
theorem foldl_sub_eq_sub_sumL {γ : Type} (l : List γ) (f : γ → K) (a : K) :
    l.foldl (fun st p => st - f p) a = a - sumL (l.map f) := by
  induction l generalizing a with
  | nil => simp
  | cons p l ih => simp only [List.foldl_cons, List.map_cons, sumL_cons, ih]; ring

/-- the storing loop of `hyperboloid_grad` -/
theorem hyperboloid_store_loop (c t s : K) (x y : List K) (h : x.length = y.length) :
    (List.range x.length).foldl (fun (st : List K) i =>
        st.set i (c * (x.getD i 0 * t / s - y.getD i 0))) (List.replicate x.length 0)
      = (x.zip y).map (fun p => c * (p.1 * t / s - p.2)) := by
  rw [foldl_range_set _ _ _ (List.length_replicate ..),
    map_range_getD₂ x y 0 0 h (fun a b => c * (a * t / s - b))]

theorem hyperboloidGrad_src (T : Transc K) (x y : List K) (h : x.length = y.length) :
    Src.hyperboloidGrad T x y = Grad.hyperboloidGrad T (1 / ((100000000 : Nat) : K)) x y := by
  unfold Src.hyperboloidGrad Grad.hyperboloidGrad Metrics.dot
  simp only []
  rw [foldl_range_getD₂ x y 0 0 h (fun (st : K) a b => st - a * b),
    foldl_sub_eq_sub_sumL (x.zip y) (fun p => p.1 * p.2)]
  rw [hyperboloid_store_loop _ _ _ x y h, map_zip_self x, map_zip_self y]
  simp only [sq_fun]
  rfl

theorem diagonalGaussianEnergyGrad_src (T : Transc K) (pi : K) (x y : List K)
    (hx : x.length = 4) (hy : y.length = 4) :
    some (Src.diagonalGaussianEnergyGrad T pi x y) = Grad.diagonalGaussianEnergyGrad T pi x y := by
  unfold Src.diagonalGaussianEnergyGrad Grad.diagonalGaussianEnergyGrad
  rcases x with _ | ⟨x0, _ | ⟨x1, _ | ⟨x2, _ | ⟨x3, _ | ⟨x4, x⟩⟩⟩⟩⟩ <;> simp at hx
  rcases y with _ | ⟨y0, _ | ⟨y1, _ | ⟨y2, _ | ⟨y3, _ | ⟨y4, y⟩⟩⟩⟩⟩ <;> simp at hy
  simp only [List.getD_cons_zero, List.getD_cons_succ]
  split_ifs with hdet
  · simp [Src.sq]
  · simp [Src.sq, Metrics.two, List.replicate]

end field
end C14SrcB
end Umap
