/-
  C19 (Procrustes part) — the pre-alignment `procrustes_align` of AlignedUMAP is rigid.

  aligned_umap.py:
      U, S, V = np.linalg.svd(M);  R = U @ V;  return embedding_to_align @ R
  The orthogonality of the SVD factors `U`, `V` (`V` is numpy's `Vh`) is the assumed contract of
  the external call.  Then `R = U V` is orthogonal and right-multiplication by `R` preserves all
  squared distances between rows: the aligned embedding is a rotation / reflection of the
  original one.
-/
import Mathlib.Data.Matrix.Basic
import Mathlib.Data.Matrix.Mul
import Mathlib.Data.Real.Basic
import Mathlib.Tactic

namespace Umap
namespace C19
open Matrix

variable {d : Nat}

/-- the product of two orthogonal matrices is orthogonal (`R Rᵀ = 1`). -/
theorem procrustes_R_orthogonal (U V : Matrix (Fin d) (Fin d) ℝ)
    (hU : U * Uᵀ = 1) (hV : V * Vᵀ = 1) : (U * V) * (U * V)ᵀ = 1 := by
  rw [transpose_mul, Matrix.mul_assoc, ← Matrix.mul_assoc V, hV, Matrix.one_mul, hU]

theorem procrustes_R_orthogonal' (U V : Matrix (Fin d) (Fin d) ℝ)
    (hU : Uᵀ * U = 1) (hV : Vᵀ * V = 1) : (U * V)ᵀ * (U * V) = 1 := by
  rw [transpose_mul, Matrix.mul_assoc, ← Matrix.mul_assoc Uᵀ, hU, Matrix.one_mul, hV]

/-- right-multiplication by an orthogonal matrix preserves the squared norm of a row. -/
theorem vecMul_orthogonal_norm (R : Matrix (Fin d) (Fin d) ℝ) (hR : R * Rᵀ = 1)
    (z : Fin d → ℝ) : (z ᵥ* R) ⬝ᵥ (z ᵥ* R) = z ⬝ᵥ z := by
  rw [← dotProduct_mulVec, ← mulVec_transpose R z, mulVec_mulVec, hR, one_mulVec]

/-- … and inner products of rows. -/
theorem vecMul_orthogonal_inner (R : Matrix (Fin d) (Fin d) ℝ) (hR : R * Rᵀ = 1)
    (x y : Fin d → ℝ) : (x ᵥ* R) ⬝ᵥ (y ᵥ* R) = x ⬝ᵥ y := by
  rw [← dotProduct_mulVec, ← mulVec_transpose R y, mulVec_mulVec, hR, one_mulVec]

/-- (only the two "row" orthogonality facts are needed) -/
theorem procrustes_rigid' (U V : Matrix (Fin d) (Fin d) ℝ)
    (hU : U * Uᵀ = 1) (hV : V * Vᵀ = 1) (x y : Fin d → ℝ) :
    (x ᵥ* (U * V) - y ᵥ* (U * V)) ⬝ᵥ (x ᵥ* (U * V) - y ᵥ* (U * V)) = (x - y) ⬝ᵥ (x - y) := by
  rw [← sub_vecMul]
  exact vecMul_orthogonal_norm _ (procrustes_R_orthogonal U V hU hV) _

/--
  **`procrustes_rigid`.**  With `U`, `V` orthogonal (the `np.linalg.svd` contract) and
  `R := U * V`, squared distances between rows of `embedding_to_align @ R` equal those between the
  rows of `embedding_to_align`.
-/
theorem procrustes_rigid (U V : Matrix (Fin d) (Fin d) ℝ)
    (hU : U * Uᵀ = 1) (_hU' : Uᵀ * U = 1) (hV : V * Vᵀ = 1) (_hV' : Vᵀ * V = 1)
    (x y : Fin d → ℝ) :
    (x ᵥ* (U * V) - y ᵥ* (U * V)) ⬝ᵥ (x ᵥ* (U * V) - y ᵥ* (U * V)) = (x - y) ⬝ᵥ (x - y) :=
  procrustes_rigid' U V hU hV x y

/-- the whole aligned embedding: squared distance between rows `i` and `j` of `E * R`. -/
theorem procrustes_rigid_rows {m : Nat} (U V : Matrix (Fin d) (Fin d) ℝ)
    (hU : U * Uᵀ = 1) (hV : V * Vᵀ = 1) (E : Matrix (Fin m) (Fin d) ℝ) (i j : Fin m) :
    ((E * (U * V)) i - (E * (U * V)) j) ⬝ᵥ ((E * (U * V)) i - (E * (U * V)) j)
      = (E i - E j) ⬝ᵥ (E i - E j) := by
  have h : ∀ k, (E * (U * V)) k = E k ᵥ* (U * V) := by
    intro k; funext c; simp [Matrix.mul_apply, vecMul, dotProduct]
  rw [h i, h j]
  exact procrustes_rigid' U V hU hV _ _

/-! ### non-vacuity: a quarter-turn rotation and a reflection -/

def rot : Matrix (Fin 2) (Fin 2) ℝ := !![0, -1; 1, 0]
def refl : Matrix (Fin 2) (Fin 2) ℝ := !![1, 0; 0, -1]

theorem rot_orth : rot * rotᵀ = 1 := by
  ext i j; fin_cases i <;> fin_cases j <;> simp [rot, Matrix.mul_apply, Fin.sum_univ_two]
theorem rot_orth' : rotᵀ * rot = 1 := by
  ext i j; fin_cases i <;> fin_cases j <;> simp [rot, Matrix.mul_apply, Fin.sum_univ_two]
theorem refl_orth : refl * reflᵀ = 1 := by
  ext i j; fin_cases i <;> fin_cases j <;> simp [refl, Matrix.mul_apply, Fin.sum_univ_two]
theorem refl_orth' : reflᵀ * refl = 1 := by
  ext i j; fin_cases i <;> fin_cases j <;> simp [refl, Matrix.mul_apply, Fin.sum_univ_two]

example (x y : Fin 2 → ℝ) :
    (x ᵥ* (rot * refl) - y ᵥ* (rot * refl)) ⬝ᵥ (x ᵥ* (rot * refl) - y ᵥ* (rot * refl))
      = (x - y) ⬝ᵥ (x - y) :=
  procrustes_rigid rot refl rot_orth rot_orth' refl_orth refl_orth' x y

/-- the product is not the identity (the statement is not about a trivial `R`). -/
example : rot * refl ≠ 1 := by
  intro h
  have := congrFun (congrFun h 0) 0
  simp [rot, refl, Matrix.mul_apply, Fin.sum_univ_two] at this

end C19
end Umap
