/-
  C13 — sparse-input metrics agree with their dense counterparts.

  Model: `Umap.Sparse` (umap/sparse.py) against `Umap.Metrics` (umap/distances.py).  Everything
  is proved over an arbitrary linear ordered field `K` (so over ℚ and ℝ at once); the metrics
  that call `sqrt` / `pow` take the few facts needed about them as hypotheses, discharged for the
  real instance `realT` in `realT_sqrt_props` and the `…_real` corollaries.

  * `Sorted`, `look`, `get`                       – strictly increasing indices, stored entry / value
  * `look_merge`, `get_merge`                     – pointwise semantics of the three-way `merge`
  * `get_sparseSum/Diff/Mul`                      – `+`, `-`, `*` pointwise
  * `merge_sorted`, `sparseSum/Diff/Mul_sorted`,
    `sparseSum/Diff/Mul_nonzero`, `…_bound`       – canonical form (sorted, no stored zero) preserved
  * `toDense_sparseSum/Diff/Mul`                  – densification commutes with the operations
  * `interSize_add_unionSize`, `interSize_comm`,
    `unionSize_comm`, `interSize_le_min`          – `arr_union` / `arr_intersect` sizes
  * `sum_dense`, `sum_look`                       – a sum over stored entries is a sum over positions
  * `sEuclidean_eq`, `sManhattan_eq`, `sChebyshev_eq`, `sMinkowski_eq`, `sHamming_eq`,
    `sCanberra_eq`, `sBrayCurtis_eq`, `sCosine_eq`, `sHellinger_eq`, `sCorrelation_eq`,
    `sLlDirichlet_eq`                             – sparse metric = dense metric of `toDense`
  * `sCounts_eq` and `sJaccard_eq`, `sMatching_eq`, `sDice_eq`, `sKulsinski_eq`,
    `sRogersTanimoto_eq`, `sSokalMichener_eq`, `sSokalSneath_eq`, `sRussellRao_eq`
                                                  – the binary family through the support counts
  Hypotheses are the ones real inputs satisfy (sorted CSR rows with indices `< n`; no stored zero
  for the binary family; non-negative data for hellinger; counts `≥ 1` for ll_dirichlet); the
  examples at the end exhibit concrete rows satisfying them and show that sortedness / "no stored
  zero" cannot be dropped.
-/
import UmapModel.Sparse
import UmapProofs.Basic
import UmapProofs.RealT
import Mathlib.Tactic
import Mathlib.Algebra.BigOperators.Group.Finset.Basic
import Mathlib.Algebra.BigOperators.Ring.Finset
import Mathlib.Algebra.Order.BigOperators.Group.Finset

set_option linter.unusedSectionVars false

namespace Umap
namespace C13
open Sparse

variable {K : Type} [Field K] [LinearOrder K] [IsStrictOrderedRing K]

/-! ### 1. definitions -/

/-- strictly increasing indices. -/
def Sorted {α : Type} (x : SVec α) : Prop := (x.map (·.1)).Pairwise (· < ·)

instance {α : Type} (x : SVec α) : Decidable (Sorted x) := by unfold Sorted; infer_instance

/-- the stored entry at index `i`, if any. -/
def look {α : Type} (x : SVec α) (i : Nat) : Option α := (x.find? (·.1 == i)).map (·.2)

/-- the stored value at index `i`, or `0`. -/
def get (x : SVec K) (i : Nat) : K :=
  match x.find? (·.1 == i) with | some p => p.2 | none => 0

theorem get_eq_look (x : SVec K) (i : Nat) : get x i = (look x i).getD 0 := by
  unfold get look
  cases x.find? (·.1 == i) <;> rfl

section generic
variable {α : Type}

@[simp] theorem look_nil (k : Nat) : look ([] : SVec α) k = none := rfl

theorem look_cons (i : Nat) (a : α) (t : SVec α) (k : Nat) :
    look ((i, a) :: t) k = if i = k then some a else look t k := by
  unfold look
  by_cases h : i = k
  · simp [h]
  · simp [h]

theorem sorted_nil : Sorted ([] : SVec α) := by simp [Sorted]

theorem sorted_cons (i : Nat) (a : α) (t : SVec α) :
    Sorted ((i, a) :: t) ↔ (∀ p ∈ t, i < p.1) ∧ Sorted t := by
  simp [Sorted, List.pairwise_cons]

theorem look_none_of_lt (t : SVec α) (k : Nat) (h : ∀ p ∈ t, k < p.1) : look t k = none := by
  induction t with
  | nil => rfl
  | cons p t ih =>
    obtain ⟨i, a⟩ := p
    rw [look_cons]
    have := h (i, a) (by simp)
    simp only at this
    rw [if_neg (by omega)]
    exact ih (fun p hp => h p (by simp [hp]))

theorem look_emit (i : Nat) (o : Option α) (r : SVec α) (k : Nat) :
    look ((match o with | some v => [(i, v)] | none => []) ++ r) k
      = if i = k then o.or (look r k) else look r k := by
  cases o <;> simp [look_cons]

/-- pointwise semantics of the three-way merge, at the level of stored entries. -/
theorem look_merge (f : α → α → Option α) (g1 g2 : α → Option α) (x y : SVec α)
    (hx : Sorted x) (hy : Sorted y) (k : Nat) :
    look (merge f g1 g2 x y) k =
      match look x k, look y k with
      | some a, some b => f a b
      | some a, none => g1 a
      | none, some b => g2 b
      | none, none => none := by
  fun_induction merge f g1 g2 x y with
  | case1 => simp
  | case2 i a t ih =>
    rw [sorted_cons] at hx
    refine (look_emit i (g1 a) _ k).trans ?_
    rw [look_cons, ih hx.2 hy]
    by_cases h : i = k
    · subst h
      simp [look_none_of_lt t i hx.1]
    · simp [h]
  | case3 j b u ih =>
    rw [sorted_cons] at hy
    refine (look_emit j (g2 b) _ k).trans ?_
    rw [look_cons, ih hx hy.2]
    by_cases h : j = k
    · subst h
      simp [look_none_of_lt u j hy.1]
    · simp [h]
  | case4 a t i b u ih =>
    rw [sorted_cons] at hx hy
    refine (look_emit i (f a b) _ k).trans ?_
    rw [look_cons, look_cons, ih hx.2 hy.2]
    by_cases h : i = k
    · subst h
      simp [look_none_of_lt t i hx.1, look_none_of_lt u i hy.1]
    · simp [h]
  | case5 i a t j b u hne hlt ih =>
    have hy' := hy
    rw [sorted_cons] at hx hy'
    refine (look_emit i (g1 a) _ k).trans ?_
    rw [look_cons, ih hx.2 hy]
    by_cases h : i = k
    · subst h
      have : look ((j, b) :: u) i = none :=
        look_none_of_lt _ _ (by
          intro p hp
          rcases List.mem_cons.1 hp with rfl | hp
          · exact hlt
          · exact lt_trans hlt (hy'.1 p hp))
      simp [look_none_of_lt t i hx.1, this]
    · simp [h]
  | case6 i a t j b u hne hlt ih =>
    have hx' := hx
    rw [sorted_cons] at hx' hy
    have hji : j < i := by omega
    refine (look_emit j (g2 b) _ k).trans ?_
    rw [look_cons (i := j), ih hx hy.2]
    by_cases h : j = k
    · subst h
      have : look ((i, a) :: t) j = none :=
        look_none_of_lt _ _ (by
          intro p hp
          rcases List.mem_cons.1 hp with rfl | hp
          · exact hji
          · exact lt_trans hji (hx'.1 p hp))
      simp [look_none_of_lt u j hy.1, this]
    · simp [h]

theorem mem_emit {i : Nat} {o : Option α} {p : Nat × α}
    (h : p ∈ (match o with | some v => [(i, v)] | none => [])) : p.1 = i ∧ o = some p.2 := by
  cases o with
  | none => simp at h
  | some v => simp at h; subst h; simp

/-- provenance of every stored entry of a merge. -/
theorem mem_merge (f : α → α → Option α) (g1 g2 : α → Option α) (x y : SVec α) :
    ∀ p ∈ merge f g1 g2 x y,
      (∃ a b, (p.1, a) ∈ x ∧ (p.1, b) ∈ y ∧ f a b = some p.2)
      ∨ (∃ a, (p.1, a) ∈ x ∧ g1 a = some p.2)
      ∨ (∃ b, (p.1, b) ∈ y ∧ g2 b = some p.2) := by
  fun_induction merge f g1 g2 x y with
  | case1 => simp
  | case2 i a t ih =>
    intro p hp
    rcases List.mem_append.1 hp with h | h
    · obtain ⟨h1, h2⟩ := mem_emit h
      exact Or.inr (Or.inl ⟨a, by simp [h1], h2⟩)
    · rcases ih p h with ⟨a', b', h1, h2, h3⟩ | ⟨a', h1, h2⟩ | ⟨b', h1, h2⟩
      · simp at h2
      · exact Or.inr (Or.inl ⟨a', List.mem_cons_of_mem _ h1, h2⟩)
      · simp at h1
  | case3 j b u ih =>
    intro p hp
    rcases List.mem_append.1 hp with h | h
    · obtain ⟨h1, h2⟩ := mem_emit h
      exact Or.inr (Or.inr ⟨b, by simp [h1], h2⟩)
    · rcases ih p h with ⟨a', b', h1, h2, h3⟩ | ⟨a', h1, h2⟩ | ⟨b', h1, h2⟩
      · simp at h1
      · simp at h1
      · exact Or.inr (Or.inr ⟨b', List.mem_cons_of_mem _ h1, h2⟩)
  | case4 a t i b u ih =>
    intro p hp
    rcases List.mem_append.1 hp with h | h
    · obtain ⟨h1, h2⟩ := mem_emit h
      exact Or.inl ⟨a, b, by simp [h1], by simp [h1], h2⟩
    · rcases ih p h with ⟨a', b', h1, h2, h3⟩ | ⟨a', h1, h2⟩ | ⟨b', h1, h2⟩
      · exact Or.inl ⟨a', b', List.mem_cons_of_mem _ h1, List.mem_cons_of_mem _ h2, h3⟩
      · exact Or.inr (Or.inl ⟨a', List.mem_cons_of_mem _ h1, h2⟩)
      · exact Or.inr (Or.inr ⟨b', List.mem_cons_of_mem _ h1, h2⟩)
  | case5 i a t j b u hne hlt ih =>
    intro p hp
    rcases List.mem_append.1 hp with h | h
    · obtain ⟨h1, h2⟩ := mem_emit h
      exact Or.inr (Or.inl ⟨a, by simp [h1], h2⟩)
    · rcases ih p h with ⟨a', b', h1, h2, h3⟩ | ⟨a', h1, h2⟩ | ⟨b', h1, h2⟩
      · exact Or.inl ⟨a', b', List.mem_cons_of_mem _ h1, h2, h3⟩
      · exact Or.inr (Or.inl ⟨a', List.mem_cons_of_mem _ h1, h2⟩)
      · exact Or.inr (Or.inr ⟨b', h1, h2⟩)
  | case6 i a t j b u hne hlt ih =>
    intro p hp
    rcases List.mem_append.1 hp with h | h
    · obtain ⟨h1, h2⟩ := mem_emit h
      exact Or.inr (Or.inr ⟨b, by simp [h1], h2⟩)
    · rcases ih p h with ⟨a', b', h1, h2, h3⟩ | ⟨a', h1, h2⟩ | ⟨b', h1, h2⟩
      · exact Or.inl ⟨a', b', h1, List.mem_cons_of_mem _ h2, h3⟩
      · exact Or.inr (Or.inl ⟨a', h1, h2⟩)
      · exact Or.inr (Or.inr ⟨b', List.mem_cons_of_mem _ h1, h2⟩)

/-- every stored index of the result is a stored index of one of the inputs. -/
theorem mem_merge_fst (f : α → α → Option α) (g1 g2 : α → Option α) (x y : SVec α)
    (p : Nat × α) (hp : p ∈ merge f g1 g2 x y) :
    (∃ q ∈ x, q.1 = p.1) ∨ (∃ q ∈ y, q.1 = p.1) := by
  rcases mem_merge f g1 g2 x y p hp with ⟨a', b', h1, h2, h3⟩ | ⟨a', h1, h2⟩ | ⟨b', h1, h2⟩
  · exact Or.inl ⟨_, h1, rfl⟩
  · exact Or.inl ⟨_, h1, rfl⟩
  · exact Or.inr ⟨_, h1, rfl⟩

/-- a bound on the indices of both inputs is a bound on the indices of the result. -/
theorem merge_index_bound (P : Nat → Prop) (f : α → α → Option α) (g1 g2 : α → Option α)
    (x y : SVec α) (hx : ∀ p ∈ x, P p.1) (hy : ∀ p ∈ y, P p.1) :
    ∀ p ∈ merge f g1 g2 x y, P p.1 := by
  intro p hp
  rcases mem_merge_fst f g1 g2 x y p hp with ⟨q, hq, e⟩ | ⟨q, hq, e⟩
  · exact e ▸ hx q hq
  · exact e ▸ hy q hq

theorem sorted_emit_append (i : Nat) (o : Option α) (r : SVec α) (hr : Sorted r)
    (hlt : ∀ p ∈ r, i < p.1) :
    Sorted ((match o with | some v => [(i, v)] | none => []) ++ r) := by
  cases o with
  | none => simpa using hr
  | some v => exact (sorted_cons i v r).2 ⟨hlt, hr⟩

/-- 4. the result of a merge of sorted vectors is sorted. -/
theorem merge_sorted (f : α → α → Option α) (g1 g2 : α → Option α) (x y : SVec α)
    (hx : Sorted x) (hy : Sorted y) : Sorted (merge f g1 g2 x y) := by
  fun_induction merge f g1 g2 x y with
  | case1 => exact sorted_nil
  | case2 i a t ih =>
    rw [sorted_cons] at hx
    exact sorted_emit_append i (g1 a) _ (ih hx.2 hy)
      (merge_index_bound (i < ·) f g1 g2 _ _ hx.1 (by simp))
  | case3 j b u ih =>
    rw [sorted_cons] at hy
    exact sorted_emit_append j (g2 b) _ (ih hx hy.2)
      (merge_index_bound (j < ·) f g1 g2 _ _ (by simp) hy.1)
  | case4 a t i b u ih =>
    rw [sorted_cons] at hx hy
    exact sorted_emit_append i (f a b) _ (ih hx.2 hy.2)
      (merge_index_bound (i < ·) f g1 g2 _ _ hx.1 hy.1)
  | case5 i a t j b u hne hlt ih =>
    have hy' := hy
    rw [sorted_cons] at hx hy'
    refine sorted_emit_append i (g1 a) _ (ih hx.2 hy)
      (merge_index_bound (i < ·) f g1 g2 _ _ hx.1 ?_)
    intro p hp
    rcases List.mem_cons.1 hp with rfl | hp
    · exact hlt
    · exact lt_trans hlt (hy'.1 p hp)
  | case6 i a t j b u hne hlt ih =>
    have hx' := hx
    rw [sorted_cons] at hx' hy
    have hji : j < i := by omega
    refine sorted_emit_append j (g2 b) _ (ih hx hy.2)
      (merge_index_bound (j < ·) f g1 g2 _ _ ?_ hy.1)
    intro p hp
    rcases List.mem_cons.1 hp with rfl | hp
    · exact hji
    · exact lt_trans hji (hx'.1 p hp)

/-- the merge is symmetric up to swapping the roles of the two sides. -/
theorem merge_swap (f : α → α → Option α) (g1 g2 : α → Option α) (x y : SVec α) :
    merge f g1 g2 x y = merge (fun b a => f a b) g2 g1 y x := by
  fun_induction merge f g1 g2 x y with
  | case1 => simp [merge]
  | case2 i a t ih => rw [merge, ← ih]
  | case3 j b u ih => rw [merge, ← ih]
  | case4 a t i b u ih => rw [merge, if_pos rfl, ← ih]
  | case5 i a t j b u hne hlt ih =>
    rw [merge, if_neg (fun h => hne h.symm), if_neg (by omega), ← ih]
  | case6 i a t j b u hne hlt ih =>
    rw [merge, if_neg (fun h => hne h.symm), if_pos (by omega), ← ih]

theorem look_mapVal (h : α → α) (y : SVec α) (k : Nat) :
    look (y.map (fun p => (p.1, h p.2))) k = (look y k).map h := by
  induction y with
  | nil => rfl
  | cons p t ih =>
    obtain ⟨i, a⟩ := p
    simp only [List.map_cons, look_cons, ih]
    split_ifs <;> rfl

theorem sorted_mapVal (h : α → α) (y : SVec α) :
    Sorted (y.map (fun p => (p.1, h p.2))) ↔ Sorted y := by
  unfold Sorted
  rw [List.map_map]
  rfl

theorem length_emit_append (i : Nat) (o : Option α) (r : SVec α) :
    ((match o with | some v => [(i, v)] | none => []) ++ r).length
      = (if o.isSome then 1 else 0) + r.length := by
  cases o <;> simp [Nat.add_comm]

end generic

/-! ### 2. pointwise semantics of `merge` -/

/-- the value at index `i` of `merge f g1 g2 x y` (sorted `x`, `y`) is decided by where `i` is
    stored: in both, only in `x`, only in `y`, or in neither. -/
theorem get_merge (f : K → K → Option K) (g1 g2 : K → Option K) (x y : SVec K)
    (hx : Sorted x) (hy : Sorted y) (i : Nat) :
    get (merge f g1 g2 x y) i =
      match look x i, look y i with
      | some a, some b => (f a b).getD 0
      | some a, none => (g1 a).getD 0
      | none, some b => (g2 b).getD 0
      | none, none => 0 := by
  rw [get_eq_look, look_merge f g1 g2 x y hx hy i]
  cases look x i <;> cases look y i <;> rfl

theorem keepNZ_getD (v : K) : (keepNZ v).getD 0 = v := by
  unfold keepNZ isZ
  by_cases h : v = 0 <;> simp [h]

theorem keepNZ_ne {v w : K} (h : keepNZ v = some w) : w ≠ 0 := by
  unfold keepNZ isZ at h
  by_cases h0 : v = 0
  · simp [h0] at h
  · simp [h0] at h; exact h ▸ h0

/-! ### 3. sum, difference, product -/

theorem get_sparseSum (x y : SVec K) (hx : Sorted x) (hy : Sorted y) (i : Nat) :
    get (sparseSum x y) i = get x i + get y i := by
  unfold sparseSum
  rw [get_merge _ _ _ x y hx hy, get_eq_look x, get_eq_look y]
  cases look x i <;> cases look y i <;> simp [keepNZ_getD]

theorem get_mapVal (h : K → K) (h0 : h 0 = 0) (y : SVec K) (i : Nat) :
    get (y.map (fun p => (p.1, h p.2))) i = h (get y i) := by
  rw [get_eq_look, get_eq_look, look_mapVal]
  cases look y i <;> simp [h0]

theorem get_sparseDiff (x y : SVec K) (hx : Sorted x) (hy : Sorted y) (i : Nat) :
    get (sparseDiff x y) i = get x i - get y i := by
  unfold sparseDiff
  rw [get_sparseSum x _ hx ((sorted_mapVal _ y).2 hy), get_mapVal (fun v => -v) neg_zero]
  ring

theorem get_sparseMul (x y : SVec K) (hx : Sorted x) (hy : Sorted y) (i : Nat) :
    get (sparseMul x y) i = get x i * get y i := by
  unfold sparseMul
  rw [get_merge _ _ _ x y hx hy, get_eq_look x, get_eq_look y]
  cases look x i <;> cases look y i <;> simp [keepNZ_getD]

/-! ### 4. canonical form is preserved -/

theorem sparseSum_sorted (x y : SVec K) (hx : Sorted x) (hy : Sorted y) :
    Sorted (sparseSum x y) := merge_sorted _ _ _ x y hx hy

theorem sparseDiff_sorted (x y : SVec K) (hx : Sorted x) (hy : Sorted y) :
    Sorted (sparseDiff x y) := sparseSum_sorted x _ hx ((sorted_mapVal _ y).2 hy)

theorem sparseMul_sorted (x y : SVec K) (hx : Sorted x) (hy : Sorted y) :
    Sorted (sparseMul x y) := merge_sorted _ _ _ x y hx hy

/-- no stored value of a sparse sum is zero (no sortedness needed). -/
theorem sparseSum_nonzero (x y : SVec K) : ∀ p ∈ sparseSum x y, p.2 ≠ 0 := by
  intro p hp
  rcases mem_merge _ _ _ x y p hp with ⟨a, b, -, -, h⟩ | ⟨a, -, h⟩ | ⟨b, -, h⟩ <;>
    exact keepNZ_ne h

theorem sparseDiff_nonzero (x y : SVec K) : ∀ p ∈ sparseDiff x y, p.2 ≠ 0 :=
  sparseSum_nonzero x _

theorem sparseMul_nonzero (x y : SVec K) : ∀ p ∈ sparseMul x y, p.2 ≠ 0 := by
  intro p hp
  rcases mem_merge _ _ _ x y p hp with ⟨a, b, -, -, h⟩ | ⟨a, -, h⟩ | ⟨b, -, h⟩
  · exact keepNZ_ne h
  · simp at h
  · simp at h

/-- index bounds are preserved. -/
theorem sparseSum_bound (n : Nat) (x y : SVec K) (hx : ∀ p ∈ x, p.1 < n) (hy : ∀ p ∈ y, p.1 < n) :
    ∀ p ∈ sparseSum x y, p.1 < n := merge_index_bound (· < n) _ _ _ x y hx hy

theorem sparseDiff_bound (n : Nat) (x y : SVec K) (hx : ∀ p ∈ x, p.1 < n) (hy : ∀ p ∈ y, p.1 < n) :
    ∀ p ∈ sparseDiff x y, p.1 < n := by
  refine sparseSum_bound n x _ hx ?_
  intro p hp
  obtain ⟨q, hq, rfl⟩ := List.mem_map.1 hp
  exact hy q hq

theorem sparseMul_bound (n : Nat) (x y : SVec K) (hx : ∀ p ∈ x, p.1 < n) (hy : ∀ p ∈ y, p.1 < n) :
    ∀ p ∈ sparseMul x y, p.1 < n := merge_index_bound (· < n) _ _ _ x y hx hy

/-! ### 5. densification commutes with the sparse operations -/

theorem toDense_eq (n : Nat) (x : SVec K) : toDense n x = (List.range n).map (get x) := rfl

theorem length_toDense (n : Nat) (x : SVec K) : (toDense n x).length = n := by
  simp [toDense_eq]

theorem getElem?_toDense (n : Nat) (x : SVec K) (i : Nat) (h : i < n) :
    (toDense n x)[i]? = some (get x i) := by
  simp [toDense_eq, h]

/-- (the hypothesis "all indices `< n`" of the informal statement is not needed: `toDense n`
    simply ignores larger indices on both sides.) -/
theorem toDense_sparseSum (n : Nat) (x y : SVec K) (hx : Sorted x) (hy : Sorted y) :
    toDense n (sparseSum x y) = List.zipWith (· + ·) (toDense n x) (toDense n y) := by
  simp only [toDense_eq, List.zipWith_map, List.zipWith_self]
  exact List.map_congr_left (fun i _ => get_sparseSum x y hx hy i)

theorem toDense_sparseDiff (n : Nat) (x y : SVec K) (hx : Sorted x) (hy : Sorted y) :
    toDense n (sparseDiff x y) = List.zipWith (· - ·) (toDense n x) (toDense n y) := by
  simp only [toDense_eq, List.zipWith_map, List.zipWith_self]
  exact List.map_congr_left (fun i _ => get_sparseDiff x y hx hy i)

theorem toDense_sparseMul (n : Nat) (x y : SVec K) (hx : Sorted x) (hy : Sorted y) :
    toDense n (sparseMul x y) = List.zipWith (· * ·) (toDense n x) (toDense n y) := by
  simp only [toDense_eq, List.zipWith_map, List.zipWith_self]
  exact List.map_congr_left (fun i _ => get_sparseMul x y hx hy i)

/-! ### 6. counting: `arr_union` / `arr_intersect` sizes -/

/-- inclusion–exclusion (no sortedness needed). -/
theorem interSize_add_unionSize (x y : SVec K) :
    interSize x y + unionSize x y = x.length + y.length := by
  unfold interSize unionSize
  fun_induction merge (fun _ _ => some (1 : K)) (fun _ => none) (fun _ => none) x y with
  | case1 => simp [merge]
  | case2 i a t ih => simp [merge] at ih ⊢; omega
  | case3 j b u ih => simp [merge] at ih ⊢; omega
  | case4 a t i b u ih => simp [merge] at ih ⊢; omega
  | case5 i a t j b u hne hlt ih => simp [merge, hne, hlt] at ih ⊢; omega
  | case6 i a t j b u hne hlt ih => simp [merge, hne, hlt] at ih ⊢; omega

theorem interSize_comm (x y : SVec K) : interSize x y = interSize y x := by
  unfold interSize
  rw [merge_swap]

theorem unionSize_comm (x y : SVec K) : unionSize x y = unionSize y x := by
  unfold unionSize
  rw [merge_swap]

theorem interSize_le_left (x y : SVec K) : interSize x y ≤ x.length := by
  unfold interSize
  fun_induction merge (fun _ _ => some (1 : K)) (fun _ => none) (fun _ => none) x y with
  | case1 => simp
  | case2 i a t ih => simp at ih ⊢; omega
  | case3 j b u ih => simp at ih ⊢; exact ih
  | case4 a t i b u ih => simp at ih ⊢; omega
  | case5 i a t j b u hne hlt ih => simp at ih ⊢; omega
  | case6 i a t j b u hne hlt ih => simp at ih ⊢; omega

theorem interSize_le_min (x y : SVec K) : interSize x y ≤ min x.length y.length := by
  refine le_min (interSize_le_left x y) ?_
  rw [interSize_comm]
  exact interSize_le_left y x

/-! ### 7. metrics end to end -/

theorem get_nil (k : Nat) : get ([] : SVec K) k = 0 := rfl

theorem get_cons (i : Nat) (a : K) (t : SVec K) (k : Nat) :
    get ((i, a) :: t) k = if i = k then a else get t k := by
  rw [get_eq_look, get_eq_look, look_cons]
  split_ifs <;> rfl

theorem get_zero_of_lt (t : SVec K) (k : Nat) (h : ∀ p ∈ t, k < p.1) : get t k = 0 := by
  rw [get_eq_look, look_none_of_lt t k h]; rfl

theorem sum_range_ite {M : Type} [AddCommMonoid M] (c : M) (i n : Nat) :
    ((List.range n).map (fun k => if k = i then c else 0)).sum = if i < n then c else 0 := by
  induction n with
  | zero => simp
  | succ n ih =>
    rw [List.range_succ, List.map_append, List.sum_append, ih]
    by_cases h1 : i < n
    · have : ¬ n = i := by omega
      simp [h1, this, Nat.lt_succ_of_lt h1]
    · by_cases h2 : n = i
      · subst h2; simp
      · have : ¬ i < n + 1 := by omega
        simp [h1, h2, this]

/-- summing `h` over the stored values is summing `h` over the dense vector, when `h 0 = 0`. -/
theorem sum_dense {M : Type} [AddCommMonoid M] (h : K → M) (h0 : h 0 = 0) (n : Nat) (z : SVec K)
    (hz : Sorted z) (hn : ∀ p ∈ z, p.1 < n) :
    ((toDense n z).map h).sum = ((vals z).map h).sum := by
  induction z with
  | nil =>
    have : (h ∘ get ([] : SVec K)) = fun _ => (0 : M) := by
      funext k; simp [get_nil, h0]
    simp [toDense_eq, vals, this]
  | cons p t ih =>
    obtain ⟨i, a⟩ := p
    rw [sorted_cons] at hz
    have hi : i < n := hn (i, a) (by simp)
    have e : (toDense n ((i, a) :: t)).map h
        = (List.range n).map (fun k => (if k = i then h a else 0) + h (get t k)) := by
      rw [toDense_eq, List.map_map]
      refine List.map_congr_left (fun k _ => ?_)
      simp only [Function.comp, get_cons]
      by_cases hk : i = k
      · subst hk; simp [get_zero_of_lt t i hz.1, h0]
      · have : ¬ k = i := fun e => hk e.symm
        simp [hk, this]
    rw [e, List.sum_map_add, sum_range_ite, if_pos hi]
    have := ih hz.2 (fun p hp => hn p (List.mem_cons_of_mem _ hp))
    rw [toDense_eq, List.map_map] at this
    simp only [Function.comp_def] at this
    rw [this]
    simp [vals]

theorem diffs_toDense (n : Nat) (x y : SVec K) (hx : Sorted x) (hy : Sorted y) :
    Metrics.diffs (toDense n x) (toDense n y) = toDense n (sparseDiff x y) := by
  unfold Metrics.diffs
  rw [toDense_sparseDiff n x y hx hy, List.map_zip_eq_zipWith]
  rfl

/-- the sparse and the dense Minkowski-family accumulators agree for any summand vanishing at 0. -/
theorem sum_vals_sparseDiff (h : K → K) (h0 : h 0 = 0) (n : Nat) (x y : SVec K)
    (hx : Sorted x) (hy : Sorted y) (hxn : ∀ p ∈ x, p.1 < n) (hyn : ∀ p ∈ y, p.1 < n) :
    sumL ((vals (sparseDiff x y)).map h)
      = sumL ((Metrics.diffs (toDense n x) (toDense n y)).map h) := by
  rw [sumL_eq_sum, sumL_eq_sum, diffs_toDense n x y hx hy]
  exact (sum_dense h h0 n _ (sparseDiff_sorted x y hx hy) (sparseDiff_bound n x y hxn hyn)).symm

theorem absV_zero : absV (0 : K) = 0 := by simp [absV]

theorem sManhattan_eq (n : Nat) (x y : SVec K)
    (hx : Sorted x) (hy : Sorted y) (hxn : ∀ p ∈ x, p.1 < n) (hyn : ∀ p ∈ y, p.1 < n) :
    sManhattan x y = Metrics.manhattan (toDense n x) (toDense n y) :=
  sum_vals_sparseDiff absV absV_zero n x y hx hy hxn hyn

theorem sEuclidean_eq (T : Transc K) (n : Nat) (x y : SVec K)
    (hx : Sorted x) (hy : Sorted y) (hxn : ∀ p ∈ x, p.1 < n) (hyn : ∀ p ∈ y, p.1 < n) :
    sEuclidean T x y = Metrics.euclidean T (toDense n x) (toDense n y) := by
  unfold sEuclidean Metrics.euclidean
  rw [sum_vals_sparseDiff (fun d => d * d) (by simp) n x y hx hy hxn hyn]

/-- `hp`: the power function sends `0` to `0` at exponent `p` (true of `Real.rpow` for `p ≠ 0`). -/
theorem sMinkowski_eq (T : Transc K) (p : K) (hp : T.pow 0 p = 0) (n : Nat) (x y : SVec K)
    (hx : Sorted x) (hy : Sorted y) (hxn : ∀ p ∈ x, p.1 < n) (hyn : ∀ p ∈ y, p.1 < n) :
    sMinkowski T p x y = Metrics.minkowski T p (toDense n x) (toDense n y) := by
  unfold sMinkowski Metrics.minkowski
  rw [sum_vals_sparseDiff (fun d => T.pow (absV d) p) (by simp [absV_zero, hp]) n x y hx hy hxn hyn]

/-! ### the binary family: the sparse counts are the dense counts -/

/-- canonical CSR row: strictly increasing indices and no stored zero. -/
def Canonical (x : SVec K) : Prop := Sorted x ∧ ∀ p ∈ x, p.2 ≠ 0

@[simp] theorem nzB_iff (v : K) : Metrics.nzB v = true ↔ v ≠ 0 := by
  unfold Metrics.nzB
  by_cases hv : v = 0
  · simp [hv]
  · have : eqV v 0 = false := Bool.eq_false_iff.2 (mt (eqV_iff _ _).1 hv)
    simp [this, hv]

theorem nzB_zero : Metrics.nzB (0 : K) = false := by
  unfold Metrics.nzB; simp

theorem counts_foldl (l : List (K × K)) (c : Metrics.Counts) :
    l.foldl (fun (c : Metrics.Counts) (p : K × K) =>
      match Metrics.nzB p.1, Metrics.nzB p.2 with
      | true, true => { c with tt := c.tt + 1 }
      | true, false => { c with tf := c.tf + 1 }
      | false, true => { c with ft := c.ft + 1 }
      | false, false => c) c
    = { n := c.n,
        tt := c.tt + l.countP (fun p => Metrics.nzB p.1 && Metrics.nzB p.2),
        tf := c.tf + l.countP (fun p => Metrics.nzB p.1 && !Metrics.nzB p.2),
        ft := c.ft + l.countP (fun p => !Metrics.nzB p.1 && Metrics.nzB p.2) } := by
  induction l generalizing c with
  | nil => simp
  | cons p l ih =>
    rw [List.foldl_cons, ih]
    cases h1 : Metrics.nzB p.1 <;> cases h2 : Metrics.nzB p.2 <;>
      simp [h1, h2] <;> omega

/-- the dense counts as three `countP`s. -/
theorem counts_eq_countP (x y : List K) :
    Metrics.counts x y
    = { n := x.length,
        tt := (x.zip y).countP (fun p => Metrics.nzB p.1 && Metrics.nzB p.2),
        tf := (x.zip y).countP (fun p => Metrics.nzB p.1 && !Metrics.nzB p.2),
        ft := (x.zip y).countP (fun p => !Metrics.nzB p.1 && Metrics.nzB p.2) } := by
  unfold Metrics.counts
  exact (counts_foldl _ _).trans (by simp)

theorem countP_eq_sum {β : Type} (q : β → Bool) (l : List β) :
    l.countP q = (l.map (fun a => if q a then 1 else 0)).sum := by
  induction l with
  | nil => rfl
  | cons a l ih =>
    rw [List.countP_cons, ih, List.map_cons, List.sum_cons]
    split_ifs <;> omega

theorem countP_split {β : Type} (p q : β → Bool) (l : List β) :
    l.countP p = l.countP (fun a => p a && q a) + l.countP (fun a => p a && !q a) := by
  induction l with
  | nil => rfl
  | cons a l ih =>
    simp only [List.countP_cons, ih]
    cases p a <;> cases q a <;> simp <;> omega

/-- a canonical row has as many stored entries as its dense form has non-zero positions. -/
theorem length_eq_countP_dense (n : Nat) (z : SVec K) (hz : Canonical z)
    (hn : ∀ p ∈ z, p.1 < n) :
    z.length = (List.range n).countP (fun k => Metrics.nzB (get z k)) := by
  have h := sum_dense (M := Nat) (fun v : K => if Metrics.nzB v then 1 else 0)
    (by simp [nzB_zero]) n z hz.1 hn
  have e1 : ((vals z).map (fun v : K => if Metrics.nzB v then 1 else 0)).sum = z.length := by
    unfold vals
    rw [List.map_map]
    have : z.map ((fun v : K => if Metrics.nzB v then 1 else 0) ∘ (·.2)) = z.map (fun _ => 1) := by
      refine List.map_congr_left (fun p hp => ?_)
      have := (nzB_iff p.2).2 (hz.2 p hp)
      show (if Metrics.nzB p.2 = true then 1 else 0) = 1
      rw [if_pos this]
    rw [this]
    simp
  rw [← e1, ← h, toDense_eq, List.map_map, countP_eq_sum]
  rfl

theorem look_some_mem {α : Type} (x : SVec α) (k : Nat) (a : α) (h : look x k = some a) :
    (k, a) ∈ x := by
  unfold look at h
  cases hf : x.find? (·.1 == k) with
  | none => simp [hf] at h
  | some p =>
    simp [hf] at h
    have hm := List.mem_of_find?_eq_some hf
    have hk := List.find?_some hf
    simp at hk
    obtain ⟨i, b⟩ := p
    simp at hk h
    subst hk; subst h
    exact hm

theorem nzB_get (x : SVec K) (hnz : ∀ p ∈ x, p.2 ≠ 0) (k : Nat) :
    Metrics.nzB (get x k) = (look x k).isSome := by
  rw [get_eq_look]
  cases h : look x k with
  | none => simp [nzB_zero]
  | some a =>
    have := hnz _ (look_some_mem x k a h)
    simpa using this

/-- `arr_intersect` size = number of positions where both dense vectors are non-zero. -/
theorem interSize_eq_countP (n : Nat) (x y : SVec K) (hx : Canonical x) (hy : Canonical y)
    (hxn : ∀ p ∈ x, p.1 < n) (hyn : ∀ p ∈ y, p.1 < n) :
    interSize x y
      = (List.range n).countP (fun k => Metrics.nzB (get x k) && Metrics.nzB (get y k)) := by
  unfold interSize
  set I := merge (fun _ _ => some (1 : K)) (fun _ => none) (fun _ => none) x y with hI
  have hIc : Canonical I := by
    refine ⟨merge_sorted _ _ _ x y hx.1 hy.1, ?_⟩
    intro p hp
    rcases mem_merge _ _ _ x y p hp with ⟨a, b, -, -, h⟩ | ⟨a, -, h⟩ | ⟨b, -, h⟩
    · simp at h; rw [← h]; exact one_ne_zero
    · simp at h
    · simp at h
  have hIn : ∀ p ∈ I, p.1 < n := merge_index_bound (· < n) _ _ _ x y hxn hyn
  rw [length_eq_countP_dense n I hIc hIn]
  congr 1
  funext k
  rw [nzB_get x hx.2, nzB_get y hy.2, hI, get_merge _ _ _ x y hx.1 hy.1]
  cases look x k <;> cases look y k <;> simp [nzB_zero]

/-- the support counts computed from the sparse rows are those of the dense vectors. -/
theorem sCounts_eq (n : Nat) (x y : SVec K) (hx : Canonical x) (hy : Canonical y)
    (hxn : ∀ p ∈ x, p.1 < n) (hyn : ∀ p ∈ y, p.1 < n) :
    sCounts n x y = Metrics.counts (toDense n x) (toDense n y) := by
  rw [counts_eq_countP, length_toDense, toDense_eq, toDense_eq, List.zip_map']
  simp only [List.countP_map, Function.comp_def]
  have htt := interSize_eq_countP n x y hx hy hxn hyn
  have h1 := length_eq_countP_dense n x hx hxn
  have h2 := length_eq_countP_dense n y hy hyn
  rw [countP_split _ (fun k => Metrics.nzB (get y k))] at h1
  rw [countP_split _ (fun k => Metrics.nzB (get x k))] at h2
  have e : (List.range n).countP (fun k => Metrics.nzB (get y k) && Metrics.nzB (get x k))
      = (List.range n).countP (fun k => Metrics.nzB (get x k) && Metrics.nzB (get y k)) := by
    congr 1; funext k; exact Bool.and_comm _ _
  have e' : (List.range n).countP (fun k => Metrics.nzB (get y k) && !Metrics.nzB (get x k))
      = (List.range n).countP (fun k => !Metrics.nzB (get x k) && Metrics.nzB (get y k)) := by
    congr 1; funext k; exact Bool.and_comm _ _
  rw [e, e'] at h2
  unfold sCounts
  simp only [Metrics.Counts.mk.injEq, true_and]
  refine ⟨htt, ?_, ?_⟩ <;> omega

section binary
variable (n : Nat) (x y : SVec K) (hx : Canonical x) (hy : Canonical y)
  (hxn : ∀ p ∈ x, p.1 < n) (hyn : ∀ p ∈ y, p.1 < n)
include hx hy hxn hyn

theorem sJaccard_eq :
    sJaccard x y = Metrics.jaccardC (Metrics.counts (toDense n x) (toDense n y)) := by
  rw [← sCounts_eq n x y hx hy hxn hyn]; rfl

theorem sMatching_eq :
    sMatching n x y = Metrics.matchingC (Metrics.counts (toDense n x) (toDense n y)) := by
  rw [← sCounts_eq n x y hx hy hxn hyn]; rfl

theorem sDice_eq :
    sDice x y = Metrics.diceC (Metrics.counts (toDense n x) (toDense n y)) := by
  rw [← sCounts_eq n x y hx hy hxn hyn]; rfl

theorem sKulsinski_eq :
    sKulsinski n x y = Metrics.kulsinskiC (Metrics.counts (toDense n x) (toDense n y)) := by
  rw [← sCounts_eq n x y hx hy hxn hyn]; rfl

theorem sRogersTanimoto_eq :
    sRogersTanimoto n x y
      = Metrics.rogersTanimotoC (Metrics.counts (toDense n x) (toDense n y)) := by
  rw [← sCounts_eq n x y hx hy hxn hyn]; rfl

theorem sSokalMichener_eq :
    sSokalMichener n x y
      = Metrics.sokalMichenerC (Metrics.counts (toDense n x) (toDense n y)) := by
  rw [← sCounts_eq n x y hx hy hxn hyn]; rfl

theorem sSokalSneath_eq :
    sSokalSneath x y = Metrics.sokalSneathC (Metrics.counts (toDense n x) (toDense n y)) := by
  rw [← sCounts_eq n x y hx hy hxn hyn]; rfl

end binary

/-- rows with the same index list intersect in all their entries. -/
theorem interSize_of_same_indices (x y : SVec K) (h : x.map (·.1) = y.map (·.1)) :
    interSize x y = x.length := by
  unfold interSize
  fun_induction merge (fun _ _ => some (1 : K)) (fun _ => none) (fun _ => none) x y with
  | case1 => simp
  | case2 i a t ih => simp at h
  | case3 j b u ih => simp at h
  | case4 a t i b u ih =>
    simp at h
    simp [ih h]
  | case5 i a t j b u hne hlt ih => simp at h; exact absurd h.1 hne
  | case6 i a t j b u hne hlt ih => simp at h; exact absurd h.1 hne

theorem countP_nz_vals (x : SVec K) (hnz : ∀ p ∈ x, p.2 ≠ 0) :
    (vals x).countP (fun v => !isZ v) = x.length := by
  have : (vals x).length = x.length := by simp [vals]
  rw [← this, List.countP_eq_length]
  intro v hv
  obtain ⟨p, hp, rfl⟩ := List.mem_map.1 hv
  exact (nzB_iff p.2).2 (hnz p hp)

theorem sRussellRao_eq (n : Nat) (x y : SVec K) (hx : Canonical x) (hy : Canonical y)
    (hxn : ∀ p ∈ x, p.1 < n) (hyn : ∀ p ∈ y, p.1 < n) :
    sRussellRao n x y = Metrics.russellRaoC (Metrics.counts (toDense n x) (toDense n y)) := by
  rw [← sCounts_eq n x y hx hy hxn hyn]
  unfold sRussellRao Metrics.russellRaoC sCounts
  have hl := interSize_le_min x y
  have hl1 : interSize x y ≤ x.length := le_trans hl (min_le_left _ _)
  have hl2 : interSize x y ≤ y.length := le_trans hl (min_le_right _ _)
  simp only [countP_nz_vals x hx.2, countP_nz_vals y hy.2]
  by_cases h : x.map (·.1) = y.map (·.1)
  · have h1 := interSize_of_same_indices x y h
    have h2 : x.length = y.length := by simpa using congrArg List.length h
    rw [if_pos h, if_pos (by constructor <;> omega)]
  · rw [if_neg h]
    by_cases h' : interSize x y = x.length ∧ interSize x y = y.length
    · rw [if_pos h', if_pos (by obtain ⟨h1, h2⟩ := h'; constructor <;> omega)]
    · rw [if_neg h', if_neg (by intro ⟨h1, h2⟩; exact h' ⟨by omega, by omega⟩)]

theorem nzB_sub (a b : K) : Metrics.nzB (a - b) = !(eqV a b) := by
  unfold Metrics.nzB
  congr 1
  rw [Bool.eq_iff_iff, eqV_iff, eqV_iff, sub_eq_zero]

/-- hamming: the number of stored entries of the sparse difference is the number of positions
    where the dense vectors differ (sortedness suffices; stored zeros are allowed). -/
theorem sHamming_eq (n : Nat) (x y : SVec K) (hx : Sorted x) (hy : Sorted y)
    (hxn : ∀ p ∈ x, p.1 < n) (hyn : ∀ p ∈ y, p.1 < n) :
    sHamming n x y = Metrics.hamming (toDense n x) (toDense n y) := by
  unfold sHamming Metrics.hamming
  have hc : Canonical (sparseDiff x y) := ⟨sparseDiff_sorted x y hx hy, sparseDiff_nonzero x y⟩
  rw [length_toDense, length_eq_countP_dense n _ hc (sparseDiff_bound n x y hxn hyn),
    toDense_eq, toDense_eq, List.zip_map', List.countP_map]
  congr 2
  funext k
  simp only [Function.comp, get_sparseDiff x y hx hy, nzB_sub]

/-! ### chebyshev -/

theorem look_of_mem {α : Type} (d : SVec α) (hd : Sorted d) (p : Nat × α) (hp : p ∈ d) :
    look d p.1 = some p.2 := by
  induction d with
  | nil => simp at hp
  | cons q t ih =>
    obtain ⟨i, a⟩ := q
    rw [sorted_cons] at hd
    rw [look_cons]
    rcases List.mem_cons.1 hp with rfl | hp
    · simp
    · have := hd.1 p hp
      rw [if_neg (by omega)]
      exact ih hd.2 hp

theorem get_of_mem (d : SVec K) (hd : Sorted d) (p : Nat × K) (hp : p ∈ d) : get d p.1 = p.2 := by
  rw [get_eq_look, look_of_mem d hd p hp]; rfl

theorem maxL_spec (l : List K) (init : K) :
    init ≤ maxL init l ∧ (∀ v ∈ l, v ≤ maxL init l) ∧ (maxL init l = init ∨ maxL init l ∈ l) := by
  induction l generalizing init with
  | nil => simp [maxL]
  | cons a l ih =>
    have e : maxL init (a :: l) = maxL (if init < a then a else init) l := rfl
    rw [e]
    obtain ⟨h1, h2, h3⟩ := ih (if init < a then a else init)
    refine ⟨?_, ?_, ?_⟩
    · refine le_trans ?_ h1
      split_ifs with h
      · exact le_of_lt h
      · exact le_refl _
    · intro v hv
      rcases List.mem_cons.1 hv with rfl | hv
      · refine le_trans ?_ h1
        split_ifs with h
        · exact le_refl _
        · exact not_lt.1 h
      · exact h2 v hv
    · rcases h3 with h3 | h3
      · by_cases h : init < a
        · right; rw [if_pos h] at h3 ⊢; rw [h3]; exact List.mem_cons_self
        · left; rw [if_neg h] at h3 ⊢; exact h3
      · right; exact List.mem_cons_of_mem _ h3

/-- two lists with the same members up to `0` have the same running maximum from `0`. -/
theorem maxL_congr (l1 l2 : List K) (hA : ∀ v ∈ l1, v = 0 ∨ v ∈ l2) (hB : ∀ v ∈ l2, v ∈ l1) :
    maxL 0 l1 = maxL 0 l2 := by
  obtain ⟨a1, a2, a3⟩ := maxL_spec l1 0
  obtain ⟨b1, b2, b3⟩ := maxL_spec l2 0
  apply le_antisymm
  · rcases a3 with h | h
    · rw [h]; exact b1
    · rcases hA _ h with h0 | h'
      · rw [h0]; exact b1
      · exact b2 _ h'
  · rcases b3 with h | h
    · rw [h]; exact a1
    · exact a2 _ (hB _ h)

theorem sChebyshev_eq (n : Nat) (x y : SVec K) (hx : Sorted x) (hy : Sorted y)
    (hxn : ∀ p ∈ x, p.1 < n) (hyn : ∀ p ∈ y, p.1 < n) :
    sChebyshev x y = Metrics.chebyshev (toDense n x) (toDense n y) := by
  unfold sChebyshev Metrics.chebyshev
  rw [diffs_toDense n x y hx hy]
  have hd := sparseDiff_sorted x y hx hy
  have hdn := sparseDiff_bound n x y hxn hyn
  set d := sparseDiff x y
  symm
  apply maxL_congr
  · intro v hv
    obtain ⟨w, hw, rfl⟩ := List.mem_map.1 hv
    rw [toDense_eq] at hw
    obtain ⟨k, -, rfl⟩ := List.mem_map.1 hw
    rw [get_eq_look]
    cases h : look d k with
    | none => left; exact absV_zero
    | some a =>
      right
      exact List.mem_map.2 ⟨a, List.mem_map.2 ⟨(k, a), look_some_mem d k a h, rfl⟩, rfl⟩
  · intro v hv
    obtain ⟨w, hw, rfl⟩ := List.mem_map.1 hv
    obtain ⟨p, hp, rfl⟩ := List.mem_map.1 hw
    refine List.mem_map.2 ⟨p.2, ?_, rfl⟩
    rw [toDense_eq]
    exact List.mem_map.2 ⟨p.1, List.mem_range.2 (hdn p hp), get_of_mem d hd p hp⟩

/-! ### bray-curtis and canberra -/

theorem sum_vals_eq (n : Nat) (z : SVec K) (hz : Sorted z) (hn : ∀ p ∈ z, p.1 < n) :
    sumL (vals z) = ((List.range n).map (get z)).sum := by
  have := sum_dense (fun v : K => v) rfl n z hz hn
  rw [sumL_eq_sum]
  simpa [toDense_eq, Function.comp_def] using this.symm

theorem bound_mapVal (h : K → K) (n : Nat) (y : SVec K) (hy : ∀ p ∈ y, p.1 < n) :
    ∀ p ∈ y.map (fun p => (p.1, h p.2)), p.1 < n := by
  intro p hp
  obtain ⟨q, hq, rfl⟩ := List.mem_map.1 hp
  exact hy q hq

theorem absV_nonneg (a : K) : 0 ≤ absV a := by rw [absV_eq_abs]; exact abs_nonneg a

theorem sum_map_absV_nonneg {β : Type} (f : β → K) (l : List β) :
    0 ≤ (l.map (fun b => absV (f b))).sum := by
  apply List.sum_nonneg
  intro v hv
  obtain ⟨b, -, rfl⟩ := List.mem_map.1 hv
  exact absV_nonneg _

theorem sBrayCurtis_eq (n : Nat) (x y : SVec K) (hx : Sorted x) (hy : Sorted y)
    (hxn : ∀ p ∈ x, p.1 < n) (hyn : ∀ p ∈ y, p.1 < n) :
    sBrayCurtis x y = Metrics.brayCurtis (toDense n x) (toDense n y) := by
  unfold sBrayCurtis Metrics.brayCurtis
  have hnum : sumL ((vals (sparseDiff x y)).map absV)
      = sumL (((toDense n x).zip (toDense n y)).map (fun p => absV (p.1 - p.2))) := by
    rw [sum_vals_sparseDiff absV absV_zero n x y hx hy hxn hyn]
    unfold Metrics.diffs
    rw [List.map_map]
    rfl
  have hden : sumL ((vals (sparseSum x y)).map absV)
      = sumL (((toDense n x).zip (toDense n y)).map (fun p => absV (p.1 + p.2))) := by
    rw [sumL_eq_sum, sumL_eq_sum,
      ← sum_dense absV absV_zero n _ (sparseSum_sorted x y hx hy) (sparseSum_bound n x y hxn hyn),
      toDense_sparseSum n x y hx hy, List.map_zipWith, List.map_zip_eq_zipWith]
    rfl
  have hnn : 0 ≤ sumL (((toDense n x).zip (toDense n y)).map (fun p => absV (p.1 + p.2))) := by
    rw [sumL_eq_sum]; exact sum_map_absV_nonneg _ _
  simp only [hnum, hden]
  set D := sumL (((toDense n x).zip (toDense n y)).map (fun p => absV (p.1 + p.2))) with hD
  by_cases h0 : ((vals (sparseSum x y)).map absV).length = 0
  · rw [if_pos h0]
    have : (vals (sparseSum x y)).map absV = [] := List.length_eq_zero_iff.1 h0
    have hD0 : D = 0 := by rw [← hden, this]; simp
    rw [if_neg (by rw [hD0]; exact lt_irrefl _)]
  · rw [if_neg h0]
    by_cases hz : D = 0
    · have : isZ D = true := (eqV_iff _ _).2 hz
      rw [if_pos this, if_neg (by rw [hz]; exact lt_irrefl _)]
    · have : ¬ isZ D = true := fun h => hz ((eqV_iff _ _).1 h)
      rw [if_neg this, if_pos (lt_of_le_of_ne hnn (Ne.symm hz))]

theorem sCanberra_eq (n : Nat) (x y : SVec K) (hx : Sorted x) (hy : Sorted y)
    (hxn : ∀ p ∈ x, p.1 < n) (hyn : ∀ p ∈ y, p.1 < n) :
    sCanberra x y = Metrics.canberra (toDense n x) (toDense n y) := by
  unfold sCanberra Metrics.canberra
  simp only
  set ax := x.map (fun p => (p.1, absV p.2))
  set ay := y.map (fun p => (p.1, absV p.2))
  have hax : Sorted ax := (sorted_mapVal absV x).2 hx
  have hay : Sorted ay := (sorted_mapVal absV y).2 hy
  have haxn : ∀ p ∈ ax, p.1 < n := bound_mapVal absV n x hxn
  have hayn : ∀ p ∈ ay, p.1 < n := bound_mapVal absV n y hyn
  set den := (sparseSum ax ay).map (fun p => (p.1, 1 / p.2))
  set num := (sparseDiff x y).map (fun p => (p.1, absV p.2))
  have hden : Sorted den := (sorted_mapVal (fun v => 1 / v) _).2 (sparseSum_sorted ax ay hax hay)
  have hnum : Sorted num := (sorted_mapVal absV _).2 (sparseDiff_sorted x y hx hy)
  have hdenn : ∀ p ∈ den, p.1 < n :=
    bound_mapVal (fun v => 1 / v) n _ (sparseSum_bound n ax ay haxn hayn)
  have hnumn : ∀ p ∈ num, p.1 < n := bound_mapVal absV n _ (sparseDiff_bound n x y hxn hyn)
  rw [sum_vals_eq n _ (sparseMul_sorted num den hnum hden) (sparseMul_bound n num den hnumn hdenn),
    sumL_eq_sum, toDense_eq, toDense_eq, List.zip_map', List.map_map]
  congr 1
  refine List.map_congr_left (fun k _ => ?_)
  simp only [Function.comp]
  rw [get_sparseMul num den hnum hden, get_mapVal absV absV_zero, get_sparseDiff x y hx hy,
    get_mapVal (fun v => 1 / v) (by simp), get_sparseSum ax ay hax hay,
    get_mapVal absV absV_zero, get_mapVal absV absV_zero]
  have hnn : 0 ≤ absV (get x k) + absV (get y k) := add_nonneg (absV_nonneg _) (absV_nonneg _)
  by_cases hpos : 0 < absV (get x k) + absV (get y k)
  · rw [if_pos hpos, mul_one_div]
  · rw [if_neg hpos]
    have : absV (get x k) + absV (get y k) = 0 := le_antisymm (not_lt.1 hpos) hnn
    rw [this]; simp

/-! ### cosine and hellinger (for any `Transc` whose `sqrt` behaves like the real one) -/

theorem dot_toDense (n : Nat) (x y : SVec K) (hx : Sorted x) (hy : Sorted y)
    (hxn : ∀ p ∈ x, p.1 < n) (hyn : ∀ p ∈ y, p.1 < n) :
    Metrics.dot (toDense n x) (toDense n y) = sumL (vals (sparseMul x y)) := by
  unfold Metrics.dot
  rw [sum_vals_eq n _ (sparseMul_sorted x y hx hy) (sparseMul_bound n x y hxn hyn),
    sumL_eq_sum, toDense_eq, toDense_eq, List.zip_map', List.map_map]
  congr 1
  refine List.map_congr_left (fun k _ => ?_)
  simp only [Function.comp]
  rw [get_sparseMul x y hx hy]

theorem dot_self_toDense (n : Nat) (x : SVec K) (hx : Sorted x) (hxn : ∀ p ∈ x, p.1 < n) :
    Metrics.dot (toDense n x) (toDense n x) = sumL ((vals x).map (fun v => v * v)) := by
  unfold Metrics.dot
  rw [sumL_eq_sum, sumL_eq_sum, ← sum_dense (fun v => v * v) (by simp) n x hx hxn,
    toDense_eq, List.zip_map', List.map_map, List.map_map]
  rfl

theorem sum_toDense (n : Nat) (x : SVec K) (hx : Sorted x) (hxn : ∀ p ∈ x, p.1 < n) :
    sumL (toDense n x) = sumL (vals x) := by
  rw [sum_vals_eq n x hx hxn, sumL_eq_sum, toDense_eq]

/-- `hs`, `hm`: on non-negative arguments `sqrt` vanishes only at `0` and is multiplicative
    (both true of `Real.sqrt`, see the example below). -/
theorem sCosine_eq (T : Transc K) (hs : ∀ a, 0 ≤ a → (T.sqrt a = 0 ↔ a = 0))
    (hm : ∀ a b, 0 ≤ a → 0 ≤ b → T.sqrt a * T.sqrt b = T.sqrt (a * b))
    (n : Nat) (x y : SVec K) (hx : Sorted x) (hy : Sorted y)
    (hxn : ∀ p ∈ x, p.1 < n) (hyn : ∀ p ∈ y, p.1 < n) :
    sCosine T x y = Metrics.cosine T (toDense n x) (toDense n y) := by
  unfold sCosine Metrics.cosine
  rw [dot_toDense n x y hx hy hxn hyn, dot_self_toDense n x hx hxn, dot_self_toDense n y hy hyn]
  have nn : ∀ z : SVec K, 0 ≤ sumL ((vals z).map (fun v => v * v)) := by
    intro z
    rw [sumL_eq_sum]
    apply List.sum_nonneg
    intro v hv
    obtain ⟨w, -, rfl⟩ := List.mem_map.1 hv
    exact mul_self_nonneg w
  set sx := sumL ((vals x).map (fun v => v * v))
  set sy := sumL ((vals y).map (fun v => v * v))
  have e1 : isZ (T.sqrt sx) = eqV sx 0 := by
    unfold isZ; rw [Bool.eq_iff_iff, eqV_iff, eqV_iff]; exact hs sx (nn x)
  have e2 : isZ (T.sqrt sy) = eqV sy 0 := by
    unfold isZ; rw [Bool.eq_iff_iff, eqV_iff, eqV_iff]; exact hs sy (nn y)
  simp only [e1, e2, hm sx sy (nn x) (nn y)]

/-- hellinger, for non-negative data (the metric's domain).  `hs0`, `hpos`: `sqrt 0 = 0` and
    `sqrt` is positive on positives (true of `Real.sqrt`).  The dense function clamps its radicand
    at `0` (`sqrt (max 0 (1 - r / snp))`), which is what the sparse early exit `snp < r → 0`
    computes, so nothing is assumed about `sqrt` on negative arguments. -/
theorem sHellinger_eq (T : Transc K) (hs0 : T.sqrt 0 = 0) (hpos : ∀ a, 0 < a → 0 < T.sqrt a)
    (n : Nat) (x y : SVec K) (hx : Sorted x) (hy : Sorted y)
    (hxn : ∀ p ∈ x, p.1 < n) (hyn : ∀ p ∈ y, p.1 < n)
    (hxp : ∀ p ∈ x, 0 ≤ p.2) (hyp : ∀ p ∈ y, 0 ≤ p.2) :
    sHellinger T x y = Metrics.hellinger T (toDense n x) (toDense n y) := by
  unfold sHellinger Metrics.hellinger
  have hr : sumL (((toDense n x).zip (toDense n y)).map (fun p => T.sqrt (p.1 * p.2)))
      = sumL ((vals (sparseMul x y)).map T.sqrt) := by
    rw [sumL_eq_sum, sumL_eq_sum,
      ← sum_dense T.sqrt hs0 n _ (sparseMul_sorted x y hx hy) (sparseMul_bound n x y hxn hyn),
      toDense_sparseMul n x y hx hy, List.map_zipWith, List.map_zip_eq_zipWith]
    rfl
  rw [hr, sum_toDense n x hx hxn, sum_toDense n y hy hyn]
  have nn : ∀ z : SVec K, (∀ p ∈ z, 0 ≤ p.2) → 0 ≤ sumL (vals z) := by
    intro z hz
    rw [sumL_eq_sum]
    apply List.sum_nonneg
    intro v hv
    obtain ⟨p, hp, rfl⟩ := List.mem_map.1 hv
    exact hz p hp
  set n1 := sumL (vals x)
  set n2 := sumL (vals y)
  set r := sumL ((vals (sparseMul x y)).map T.sqrt)
  unfold isZ
  simp only
  by_cases hc1 : (eqV n1 0 && eqV n2 0) = true
  · rw [if_pos hc1, if_pos hc1]
  · rw [if_neg hc1, if_neg hc1]
    by_cases hc2 : (eqV n1 0 || eqV n2 0) = true
    · rw [if_pos hc2, if_pos hc2]
    · rw [if_neg hc2, if_neg hc2]
      simp only [Bool.or_eq_true, eqV_iff, not_or] at hc2
      have h1 : 0 < n1 := lt_of_le_of_ne (nn x hxp) (Ne.symm hc2.1)
      have h2 : 0 < n2 := lt_of_le_of_ne (nn y hyp) (Ne.symm hc2.2)
      have h3 : 0 < T.sqrt (n1 * n2) := hpos _ (mul_pos h1 h2)
      by_cases hlt : T.sqrt (n1 * n2) < r
      · rw [if_pos hlt]
        have : 1 < r / T.sqrt (n1 * n2) := (one_lt_div h3).2 hlt
        have hm : maxV 0 (1 - r / T.sqrt (n1 * n2)) = 0 := by
          unfold maxV; rw [if_neg (by linarith)]
        rw [hm, hs0]
      · rw [if_neg hlt]
        have : r / T.sqrt (n1 * n2) ≤ 1 := (div_le_one h3).2 (not_lt.1 hlt)
        have hm : maxV 0 (1 - r / T.sqrt (n1 * n2)) = 1 - r / T.sqrt (n1 * n2) := by
          unfold maxV
          split_ifs with h
          · rfl
          · linarith
        rw [hm]

/-! ### correlation (the repaired `sparse_correlation`) -/

theorem list_sum_range {M : Type} [AddCommMonoid M] (f : Nat → M) (n : Nat) :
    ((List.range n).map f).sum = ∑ k ∈ Finset.range n, f k := by
  induction n with
  | zero => simp
  | succ n ih =>
    rw [List.range_succ, List.map_append, List.sum_append, ih, Finset.sum_range_succ]
    simp

/-- a sum over the stored entries is a sum over all positions (index-dependent summand). -/
theorem sum_look {α M : Type} [AddCommMonoid M] (H : Nat → α → M) (n : Nat) (z : SVec α)
    (hz : Sorted z) (hn : ∀ p ∈ z, p.1 < n) :
    (z.map (fun p => H p.1 p.2)).sum = ∑ k ∈ Finset.range n, (look z k).elim 0 (H k) := by
  rw [← list_sum_range]
  induction z with
  | nil => simp
  | cons p t ih =>
    obtain ⟨i, a⟩ := p
    rw [sorted_cons] at hz
    have hi : i < n := hn (i, a) (by simp)
    have e : (List.range n).map (fun k => (look ((i, a) :: t) k).elim 0 (H k))
        = (List.range n).map
            (fun k => (if k = i then H i a else 0) + (look t k).elim 0 (H k)) := by
      refine List.map_congr_left (fun k _ => ?_)
      rw [look_cons]
      by_cases hk : i = k
      · subst hk; simp [look_none_of_lt t i hz.1]
      · have : ¬ k = i := fun e => hk e.symm
        simp [hk, this]
    rw [e, List.sum_map_add, sum_range_ite, if_pos hi,
      ← ih hz.2 (fun p hp => hn p (List.mem_cons_of_mem _ hp))]
    simp

theorem length_eq_sum_look {α : Type} (n : Nat) (z : SVec α) (hz : Sorted z)
    (hn : ∀ p ∈ z, p.1 < n) :
    z.length = ∑ k ∈ Finset.range n, (look z k).elim 0 (fun _ => 1) := by
  rw [← sum_look (fun _ _ => 1) n z hz hn]
  simp

theorem length_le_of_bound {α : Type} (n : Nat) (z : SVec α) (hz : Sorted z)
    (hn : ∀ p ∈ z, p.1 < n) : z.length ≤ n := by
  rw [length_eq_sum_look n z hz hn]
  calc ∑ k ∈ Finset.range n, (look z k).elim 0 (fun _ => 1)
      ≤ ∑ _k ∈ Finset.range n, 1 := by
        apply Finset.sum_le_sum
        intro k _
        cases look z k <;> simp
    _ = n := by simp

theorem any_eq_look {α : Type} (x : SVec α) (i : Nat) :
    x.any (·.1 == i) = (look x i).isSome := by
  induction x with
  | nil => rfl
  | cons p t ih =>
    obtain ⟨j, a⟩ := p
    rw [List.any_cons, look_cons, ih]
    by_cases h : j = i <;> simp [h]

theorem foldl_sub {β : Type} (c : β → Bool) (w : β → K) (l : List β) (init : K) :
    l.foldl (fun acc p => if c p then acc else acc - w p) init
      = init - (l.map (fun p => if c p then 0 else w p)).sum := by
  induction l generalizing init with
  | nil => simp
  | cons p l ih =>
    rw [List.foldl_cons, ih, List.map_cons, List.sum_cons]
    by_cases h : c p = true
    · simp [h]
    · simp [h]; ring

theorem dot_map_range (f g : Nat → K) (n : Nat) :
    Metrics.dot ((List.range n).map f) ((List.range n).map g)
      = ∑ k ∈ Finset.range n, f k * g k := by
  unfold Metrics.dot
  rw [List.zip_map', List.map_map, sumL_eq_sum, list_sum_range]
  rfl

/-- the dense correlation of densified rows, written with sums over positions. -/
theorem correlation_toDense (T : Transc K) (n : Nat) (x y : SVec K) (hx : Sorted x)
    (hy : Sorted y) (hxn : ∀ p ∈ x, p.1 < n) (hyn : ∀ p ∈ y, p.1 < n) :
    Metrics.correlation T (toDense n x) (toDense n y) =
      if (eqV (∑ k ∈ Finset.range n, (get x k - sumL (vals x) / (n : K))
                  * (get x k - sumL (vals x) / (n : K))) 0
          && eqV (∑ k ∈ Finset.range n, (get y k - sumL (vals y) / (n : K))
                  * (get y k - sumL (vals y) / (n : K))) 0) then 0
      else if eqV (∑ k ∈ Finset.range n, (get x k - sumL (vals x) / (n : K))
                  * (get y k - sumL (vals y) / (n : K))) 0 then 1
      else 1 - (∑ k ∈ Finset.range n, (get x k - sumL (vals x) / (n : K))
                  * (get y k - sumL (vals y) / (n : K)))
             / T.sqrt ((∑ k ∈ Finset.range n, (get x k - sumL (vals x) / (n : K))
                  * (get x k - sumL (vals x) / (n : K)))
                * (∑ k ∈ Finset.range n, (get y k - sumL (vals y) / (n : K))
                  * (get y k - sumL (vals y) / (n : K)))) := by
  unfold Metrics.correlation Metrics.mean
  rw [sum_toDense n x hx hxn, sum_toDense n y hy hyn, length_toDense]
  simp only [toDense_eq, List.map_map, dot_map_range, Function.comp_def]

/-- the centred squared norm computed from the stored entries plus the implicit zeros. -/
theorem sCorrelation_norm (n : Nat) (x : SVec K) (hx : Sorted x) (hxn : ∀ p ∈ x, p.1 < n)
    (m : K) :
    sumL ((vals (x.map (fun p => (p.1, p.2 - m)))).map (fun v => v * v))
        + ((n - x.length : Nat) : K) * (m * m)
      = ∑ k ∈ Finset.range n, (get x k - m) * (get x k - m) := by
  have hle := length_le_of_bound n x hx hxn
  have h1 : sumL ((vals (x.map (fun p => (p.1, p.2 - m)))).map (fun v => v * v))
      = ∑ k ∈ Finset.range n, (look x k).elim 0 (fun a => (a - m) * (a - m)) := by
    rw [← sum_look (fun _ a => (a - m) * (a - m)) n x hx hxn, sumL_eq_sum]
    simp [vals, List.map_map, Function.comp_def]
  have h2 : (x.length : K) = ∑ k ∈ Finset.range n, (look x k).elim 0 (fun _ => (1 : K)) := by
    rw [← sum_look (fun _ _ => (1 : K)) n x hx hxn]
    simp
  have h3 : (n : K) = ∑ _k ∈ Finset.range n, (1 : K) := by simp
  rw [h1, Nat.cast_sub hle, h2, h3, ← Finset.sum_sub_distrib, Finset.sum_mul,
    ← Finset.sum_add_distrib]
  refine Finset.sum_congr rfl (fun k _ => ?_)
  rw [get_eq_look]
  cases look x k <;> simp

theorem cast_countP_range (q : Nat → Bool) (n : Nat) :
    (((List.range n).countP q : Nat) : K) = ∑ k ∈ Finset.range n, if q k then 1 else 0 := by
  induction n with
  | zero => simp
  | succ n ih =>
    rw [List.range_succ, List.countP_append, Nat.cast_add, ih, Finset.sum_range_succ]
    by_cases h : q n = true <;> simp [h]

/-- positions stored in neither row. -/
theorem cast_sub_unionSize (n : Nat) (x y : SVec K) (hx : Sorted x) (hy : Sorted y)
    (hxn : ∀ p ∈ x, p.1 < n) (hyn : ∀ p ∈ y, p.1 < n) :
    ((n - unionSize x y : Nat) : K)
      = ∑ k ∈ Finset.range n, if ((look x k).isSome || (look y k).isSome) then 0 else 1 := by
  unfold unionSize
  set U := merge (fun _ _ => some (1 : K)) (fun _ => some 1) (fun _ => some 1) x y with hU
  have hUs : Sorted U := merge_sorted _ _ _ x y hx hy
  have hUn : ∀ p ∈ U, p.1 < n := merge_index_bound (· < n) _ _ _ x y hxn hyn
  have hlen : U.length = (List.range n).countP (fun k => (look x k).isSome || (look y k).isSome) := by
    have := length_eq_sum_look n U hUs hUn
    rw [this, countP_eq_sum, list_sum_range]
    refine Finset.sum_congr rfl (fun k _ => ?_)
    rw [hU, look_merge _ _ _ x y hx hy]
    cases look x k <;> cases look y k <;> simp
  have hn := List.length_eq_countP_add_countP
    (fun k => (look x k).isSome || (look y k).isSome) (l := List.range n)
  rw [List.length_range] at hn
  have : n - U.length
      = (List.range n).countP (fun k => !((look x k).isSome || (look y k).isSome)) := by
    rw [hlen]
    have e : (List.range n).countP
          (fun k => decide ¬((look x k).isSome || (look y k).isSome) = true)
        = (List.range n).countP (fun k => !((look x k).isSome || (look y k).isSome)) := by
      congr 1; funext k; cases ((look x k).isSome || (look y k).isSome) <;> simp
    omega
  rw [this, cast_countP_range]
  refine Finset.sum_congr rfl (fun k _ => ?_)
  cases ((look x k).isSome || (look y k).isSome) <;> simp

/-- the sparse dot product of the centred rows, corrected for the one-sided and the absent
    positions, is the dense centred dot product. -/
theorem sCorrelation_dp (n : Nat) (x y : SVec K) (hx : Sorted x) (hy : Sorted y)
    (hxn : ∀ p ∈ x, p.1 < n) (hyn : ∀ p ∈ y, p.1 < n) (mx my : K) :
    (y.map (fun p => (p.1, p.2 - my))).foldl
        (fun acc p => if (x.any (·.1 == p.1) && y.any (·.1 == p.1)) then acc else acc - p.2 * mx)
        ((x.map (fun p => (p.1, p.2 - mx))).foldl
          (fun acc p => if (x.any (·.1 == p.1) && y.any (·.1 == p.1)) then acc
            else acc - p.2 * my)
          (sumL (vals (sparseMul (x.map (fun p => (p.1, p.2 - mx)))
            (y.map (fun p => (p.1, p.2 - my)))))))
      + mx * my * ((n - unionSize x y : Nat) : K)
    = ∑ k ∈ Finset.range n, (get x k - mx) * (get y k - my) := by
  set sx := x.map (fun p => (p.1, p.2 - mx)) with hsx
  set sy := y.map (fun p => (p.1, p.2 - my)) with hsy
  have hsxs : Sorted sx := (sorted_mapVal (fun v => v - mx) x).2 hx
  have hsys : Sorted sy := (sorted_mapVal (fun v => v - my) y).2 hy
  have hsxn : ∀ p ∈ sx, p.1 < n := bound_mapVal (fun v => v - mx) n x hxn
  have hsyn : ∀ p ∈ sy, p.1 < n := bound_mapVal (fun v => v - my) n y hyn
  rw [foldl_sub, foldl_sub,
    sum_look (fun k a => if (x.any (·.1 == k) && y.any (·.1 == k)) then 0 else a * mx) n sy hsys hsyn,
    sum_look (fun k a => if (x.any (·.1 == k) && y.any (·.1 == k)) then 0 else a * my) n sx hsxs hsxn,
    sum_vals_eq n _ (sparseMul_sorted sx sy hsxs hsys) (sparseMul_bound n sx sy hsxn hsyn),
    list_sum_range, cast_sub_unionSize n x y hx hy hxn hyn, Finset.mul_sum,
    ← Finset.sum_sub_distrib, ← Finset.sum_sub_distrib, ← Finset.sum_add_distrib]
  refine Finset.sum_congr rfl (fun k _ => ?_)
  rw [get_sparseMul sx sy hsxs hsys, get_eq_look sx, get_eq_look sy, get_eq_look x, get_eq_look y,
    hsx, hsy, look_mapVal (fun v => v - mx) x k, look_mapVal (fun v => v - my) y k,
    any_eq_look, any_eq_look]
  cases look x k <;> cases look y k <;> simp <;> ring

/-- `hs`, `hm` as for cosine. -/
theorem sCorrelation_eq (T : Transc K) (hs : ∀ a, 0 ≤ a → (T.sqrt a = 0 ↔ a = 0))
    (hm : ∀ a b, 0 ≤ a → 0 ≤ b → T.sqrt a * T.sqrt b = T.sqrt (a * b))
    (n : Nat) (x y : SVec K) (hx : Sorted x) (hy : Sorted y)
    (hxn : ∀ p ∈ x, p.1 < n) (hyn : ∀ p ∈ y, p.1 < n) :
    sCorrelation T n x y = Metrics.correlation T (toDense n x) (toDense n y) := by
  rw [correlation_toDense T n x y hx hy hxn hyn]
  unfold sCorrelation
  by_cases h0 : x.length = 0 ∧ y.length = 0
  · rw [if_pos h0]
    obtain ⟨h1, h2⟩ := h0
    rw [List.length_eq_zero_iff] at h1 h2
    subst h1 h2
    simp [get_nil, vals]
  · rw [if_neg h0]
    simp only
    rw [sCorrelation_dp n x y hx hy hxn hyn, sCorrelation_norm n x hx hxn,
      sCorrelation_norm n y hy hyn]
    have nn : ∀ (z : SVec K) (m : K),
        0 ≤ ∑ k ∈ Finset.range n, (get z k - m) * (get z k - m) :=
      fun z m => Finset.sum_nonneg (fun k _ => mul_self_nonneg _)
    set NX := ∑ k ∈ Finset.range n, (get x k - sumL (vals x) / (n : K))
      * (get x k - sumL (vals x) / (n : K)) with hNX
    set NY := ∑ k ∈ Finset.range n, (get y k - sumL (vals y) / (n : K))
      * (get y k - sumL (vals y) / (n : K)) with hNY
    have e1 : isZ (T.sqrt NX) = eqV NX 0 := by
      unfold isZ; rw [Bool.eq_iff_iff, eqV_iff, eqV_iff]; exact hs NX (nn x _)
    have e2 : isZ (T.sqrt NY) = eqV NY 0 := by
      unfold isZ; rw [Bool.eq_iff_iff, eqV_iff, eqV_iff]; exact hs NY (nn y _)
    rw [e1, e2, hm NX NY (nn x _) (nn y _)]
    rfl

/-! ### ll_dirichlet (count data: every stored value is at least 1) -/

section lld
local notation "θ" => (((9 : Nat) : K) / ((10 : Nat) : K))

theorem llDirichlet_foldl (T : Transc K) (pi : K) (l : List (K × K)) (acc : K × K × K) :
    l.foldl (fun (acc : K × K × K) p =>
      if θ < p.1 * p.2 then
        (acc.1 + Metrics.logBeta T pi p.1 p.2, acc.2.1 + Metrics.logSingleBeta T pi p.1,
          acc.2.2 + Metrics.logSingleBeta T pi p.2)
      else
        (acc.1, (if θ < p.1 then acc.2.1 + Metrics.logSingleBeta T pi p.1 else acc.2.1),
                (if θ < p.2 then acc.2.2 + Metrics.logSingleBeta T pi p.2 else acc.2.2))) acc
    = (acc.1 + (l.map (fun p => if θ < p.1 * p.2 then Metrics.logBeta T pi p.1 p.2 else 0)).sum,
       acc.2.1 + (l.map (fun p => if θ < p.1 * p.2 ∨ θ < p.1
          then Metrics.logSingleBeta T pi p.1 else 0)).sum,
       acc.2.2 + (l.map (fun p => if θ < p.1 * p.2 ∨ θ < p.2
          then Metrics.logSingleBeta T pi p.2 else 0)).sum) := by
  induction l generalizing acc with
  | nil => simp
  | cons p l ih =>
    rw [List.foldl_cons, ih]
    simp only [List.map_cons, List.sum_cons]
    by_cases h0 : θ < p.1 * p.2
    · simp only [h0, if_true, true_or]
      ext <;> simp only [] <;> ring
    · by_cases h1 : θ < p.1 <;> by_cases h2 : θ < p.2 <;>
        simp only [h0, h1, h2, if_true, if_false, false_or] <;>
        (ext <;> simp only [] <;> ring)

theorem sLlDirichlet_eq (T : Transc K) (pi big : K)
    (n : Nat) (x y : SVec K) (hx : Sorted x) (hy : Sorted y)
    (hxn : ∀ p ∈ x, p.1 < n) (hyn : ∀ p ∈ y, p.1 < n)
    (hx1 : ∀ p ∈ x, 1 ≤ p.2) (hy1 : ∀ p ∈ y, 1 ≤ p.2) :
    sLlDirichlet T pi big x y = Metrics.llDirichlet T pi big (toDense n x) (toDense n y) := by
  unfold sLlDirichlet Metrics.llDirichlet
  rw [sum_toDense n x hx hxn, sum_toDense n y hy hyn]
  have hlook1 : ∀ (z : SVec K), (∀ p ∈ z, 1 ≤ p.2) → ∀ k a, look z k = some a → 1 ≤ a :=
    fun z hz k a h => hz _ (look_some_mem z k a h)
  set M := merge (fun a b => if isZ (a * b) then none else some (Metrics.logBeta T pi a b))
    (fun _ => none) (fun _ => none) x y with hM
  have hMs : Sorted M := merge_sorted _ _ _ x y hx hy
  have hMn : ∀ p ∈ M, p.1 < n := merge_index_bound (· < n) _ _ _ x y hxn hyn
  have hacc := llDirichlet_foldl T pi ((toDense n x).zip (toDense n y)) (0, 0, 0)
  have h1 : (((toDense n x).zip (toDense n y)).map
        (fun p => if θ < p.1 * p.2 then Metrics.logBeta T pi p.1 p.2 else 0)).sum
      = sumL (M.map (·.2)) := by
    rw [sumL_eq_sum, sum_look (fun _ a => a) n M hMs hMn, toDense_eq, toDense_eq, List.zip_map',
      List.map_map, list_sum_range]
    refine Finset.sum_congr rfl (fun k _ => ?_)
    simp only [Function.comp]
    rw [hM, look_merge _ _ _ x y hx hy, get_eq_look x, get_eq_look y]
    cases hxk : look x k with
    | none =>
      have : ¬ (9 / 10 : K) < 0 := by norm_num
      cases look y k <;> simp [this]
    | some a =>
      cases hyk : look y k with
      | none =>
        have : ¬ (9 / 10 : K) < 0 := by norm_num
        simp [this]
      | some b =>
        have ha := hlook1 x hx1 k a hxk
        have hb := hlook1 y hy1 k b hyk
        have hab : 1 ≤ a * b := one_le_mul_of_one_le_of_one_le ha hb
        have h1 : (9 / 10 : K) < a * b := lt_of_lt_of_le (by norm_num) hab
        have h2 : ¬ isZ (a * b) = true := by
          unfold isZ; rw [eqV_iff]; exact ne_of_gt (lt_of_lt_of_le one_pos hab)
        simp [h1, h2]
  have h2 : ∀ (z w : SVec K), Sorted z → (∀ p ∈ z, p.1 < n) → (∀ p ∈ z, 1 ≤ p.2) →
      ((List.range n).map (fun k => if θ < get z k * get w k ∨ θ < get z k
          then Metrics.logSingleBeta T pi (get z k) else 0)).sum
        = sumL ((vals z).map (Metrics.logSingleBeta T pi)) := by
    intro z w hz hzn hz1
    have := sum_look (fun _ a => Metrics.logSingleBeta T pi a) n z hz hzn
    rw [sumL_eq_sum]
    unfold vals
    rw [List.map_map]
    simp only [Function.comp_def]
    rw [this, list_sum_range]
    refine Finset.sum_congr rfl (fun k _ => ?_)
    rw [get_eq_look z]
    cases hzk : look z k with
    | none =>
      have : ¬ (9 / 10 : K) < 0 := by norm_num
      simp [this]
    | some a =>
      have ha := hlook1 z hz1 k a hzk
      have : (9 / 10 : K) < a := lt_of_lt_of_le (by norm_num) ha
      simp [this]
  have h3 : (((toDense n x).zip (toDense n y)).map
        (fun p => if θ < p.1 * p.2 ∨ θ < p.1 then Metrics.logSingleBeta T pi p.1 else 0)).sum
      = sumL ((vals x).map (Metrics.logSingleBeta T pi)) := by
    rw [← h2 x y hx hxn hx1, toDense_eq, toDense_eq, List.zip_map', List.map_map]
    rfl
  have h4 : (((toDense n x).zip (toDense n y)).map
        (fun p => if θ < p.1 * p.2 ∨ θ < p.2 then Metrics.logSingleBeta T pi p.2 else 0)).sum
      = sumL ((vals y).map (Metrics.logSingleBeta T pi)) := by
    rw [← h2 y x hy hyn hy1, toDense_eq, toDense_eq, List.zip_map', List.map_map]
    refine congrArg List.sum (List.map_congr_left (fun k _ => ?_))
    simp only [Function.comp, mul_comm]
  rw [h1, h3, h4] at hacc
  simp only [zero_add] at hacc
  simp only []
  rw [hacc]
  rfl

end lld

/-! ### the real instance satisfies the `sqrt` / `pow` hypotheses used above -/

theorem realT_sqrt_props :
    (∀ a : ℝ, 0 ≤ a → (realT.sqrt a = 0 ↔ a = 0))
    ∧ (∀ a b : ℝ, 0 ≤ a → 0 ≤ b → realT.sqrt a * realT.sqrt b = realT.sqrt (a * b))
    ∧ realT.sqrt 0 = 0
    ∧ (∀ a : ℝ, 0 < a → 0 < realT.sqrt a)
    ∧ (∀ a : ℝ, a < 0 → realT.sqrt a = 0)
    ∧ (∀ p : ℝ, p ≠ 0 → realT.pow 0 p = 0) :=
  ⟨fun _ ha => Real.sqrt_eq_zero ha, fun _ b ha _ => (Real.sqrt_mul ha b).symm, Real.sqrt_zero,
    fun _ ha => Real.sqrt_pos.2 ha, fun _ ha => Real.sqrt_eq_zero_of_nonpos ha.le,
    fun _ hp => Real.zero_rpow hp⟩

section real
variable (n : Nat) (x y : SVec ℝ) (hx : Sorted x) (hy : Sorted y)
  (hxn : ∀ p ∈ x, p.1 < n) (hyn : ∀ p ∈ y, p.1 < n)
include hx hy hxn hyn

theorem sMinkowski_real (p : ℝ) (hp : p ≠ 0) :
    sMinkowski realT p x y = Metrics.minkowski realT p (toDense n x) (toDense n y) :=
  sMinkowski_eq realT p (realT_sqrt_props.2.2.2.2.2 p hp) n x y hx hy hxn hyn

theorem sCosine_real :
    sCosine realT x y = Metrics.cosine realT (toDense n x) (toDense n y) :=
  sCosine_eq realT realT_sqrt_props.1 realT_sqrt_props.2.1 n x y hx hy hxn hyn

theorem sCorrelation_real :
    sCorrelation realT n x y = Metrics.correlation realT (toDense n x) (toDense n y) :=
  sCorrelation_eq realT realT_sqrt_props.1 realT_sqrt_props.2.1 n x y hx hy hxn hyn

theorem sHellinger_real (hxp : ∀ p ∈ x, 0 ≤ p.2) (hyp : ∀ p ∈ y, 0 ≤ p.2) :
    sHellinger realT x y = Metrics.hellinger realT (toDense n x) (toDense n y) :=
  sHellinger_eq realT realT_sqrt_props.2.2.1 realT_sqrt_props.2.2.2.1
    n x y hx hy hxn hyn hxp hyp

end real

/-! ### non-vacuity: concrete canonical rows over ℚ -/

def exX : SVec ℚ := [(0, 1), (2, 3)]
def exY : SVec ℚ := [(1, 5), (2, -3)]

example : Sorted exX ∧ Sorted exY := by decide +kernel
example : (∀ p ∈ exX, p.1 < 3) ∧ (∀ p ∈ exY, p.1 < 3) := by decide +kernel
example : (∀ p ∈ exX, p.2 ≠ 0) ∧ (∀ p ∈ exY, p.2 ≠ 0) := by decide +kernel
example : Canonical exX ∧ Canonical exY := by unfold Canonical; decide +kernel
/-- the `2`-entries cancel and are dropped by the sum, the product keeps only the common index. -/
example : sparseSum exX exY = [(0, 1), (1, 5)] := by decide +kernel
example : sparseDiff exX exY = [(0, 1), (1, -5), (2, 6)] := by decide +kernel
example : sparseMul exX exY = [(2, -9)] := by decide +kernel
example : toDense 3 exX = [1, 0, 3] ∧ toDense 3 exY = [0, 5, -3] := by decide +kernel
example : toDense 3 (sparseSum exX exY) = [1, 5, 0] := by decide +kernel
example : interSize exX exY = 1 ∧ unionSize exX exY = 3 := by decide +kernel
example : sManhattan exX exY = 12 ∧ Metrics.manhattan (toDense 3 exX) (toDense 3 exY) = 12 := by
  decide +kernel
example : sChebyshev exX exY = 6 := by decide +kernel
example : sCounts 3 exX exY = { n := 3, tt := 1, tf := 1, ft := 1 }
    ∧ Metrics.counts (toDense 3 exX) (toDense 3 exY) = { n := 3, tt := 1, tf := 1, ft := 1 } := by
  decide +kernel
example : sJaccard exX exY = (2 / 3 : ℚ) := by decide +kernel
example : sHamming 3 exX exY = (1 : ℚ) := by decide +kernel
/-- sortedness is needed for the pointwise semantics: an unsorted row is mis-merged. -/
example : get (sparseSum [(2, (1:ℚ)), (1, 1)] [(1, 1)]) 1 = 1
    ∧ get [(2, (1:ℚ)), (1, 1)] 1 + get [(1, (1:ℚ))] 1 = 2 := by decide +kernel

/-- the "no stored zero" half of `Canonical` is needed for the binary family: a stored zero is
    counted by the sparse code but not by the dense one. -/
example : sCounts 1 [(0, (0:ℚ))] [] = { n := 1, tt := 0, tf := 1, ft := 0 }
    ∧ Metrics.counts (toDense 1 [(0, (0:ℚ))]) (toDense 1 ([] : SVec ℚ))
        = { n := 1, tt := 0, tf := 0, ft := 0 } := by decide +kernel

/-- count data for `ll_dirichlet`: all stored values `≥ 1`. -/
def exZ : SVec ℚ := [(1, 5), (2, 2)]
example : Sorted exZ ∧ (∀ p ∈ exZ, p.1 < 3) ∧ (∀ p ∈ exX, 1 ≤ p.2) ∧ (∀ p ∈ exZ, 1 ≤ p.2) := by
  decide +kernel

/-! real rows satisfying every hypothesis of the `…_real` theorems, and the theorems applied. -/

noncomputable def exR : SVec ℝ := [(0, 1), (2, 3)]
noncomputable def exS : SVec ℝ := [(1, 5), (2, 2)]

theorem exR_ok : Sorted exR ∧ (∀ p ∈ exR, p.1 < 3) ∧ (∀ p ∈ exR, 0 ≤ p.2) ∧ (∀ p ∈ exR, 1 ≤ p.2) := by
  simp [exR, Sorted]
theorem exS_ok : Sorted exS ∧ (∀ p ∈ exS, p.1 < 3) ∧ (∀ p ∈ exS, 0 ≤ p.2) ∧ (∀ p ∈ exS, 1 ≤ p.2) := by
  simp [exS, Sorted]

example : sCosine realT exR exS = Metrics.cosine realT (toDense 3 exR) (toDense 3 exS) :=
  sCosine_real 3 exR exS exR_ok.1 exS_ok.1 exR_ok.2.1 exS_ok.2.1
example : sCorrelation realT 3 exR exS
    = Metrics.correlation realT (toDense 3 exR) (toDense 3 exS) :=
  sCorrelation_real 3 exR exS exR_ok.1 exS_ok.1 exR_ok.2.1 exS_ok.2.1
example : sHellinger realT exR exS = Metrics.hellinger realT (toDense 3 exR) (toDense 3 exS) :=
  sHellinger_real 3 exR exS exR_ok.1 exS_ok.1 exR_ok.2.1 exS_ok.2.1 exR_ok.2.2.1 exS_ok.2.2.1
example : sMinkowski realT 3 exR exS
    = Metrics.minkowski realT 3 (toDense 3 exR) (toDense 3 exS) :=
  sMinkowski_real 3 exR exS exR_ok.1 exS_ok.1 exR_ok.2.1 exS_ok.2.1 3 (by norm_num)
example (pi big : ℝ) : sLlDirichlet realT pi big exR exS
    = Metrics.llDirichlet realT pi big (toDense 3 exR) (toDense 3 exS) :=
  sLlDirichlet_eq realT pi big 3 exR exS exR_ok.1 exS_ok.1 exR_ok.2.1 exS_ok.2.1
    exR_ok.2.2.2 exS_ok.2.2.2

end C13
end Umap
