/-
  C13 — sparse-input metrics agree with their dense counterparts.  (theorems: see below)
-/
import UmapModel.Sparse
