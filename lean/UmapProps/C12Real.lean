/-
  C12 (real-valued family) — axioms and bounds of the real-valued dense metrics.

  Model: `Umap.Metrics` instantiated at ℝ with `Umap.realT`.  For every metric: symmetry,
  non-negativity, the value on identical arguments, the code's conventions for all-zero vectors,
  and — for the bounded metrics — the supremum that the live table of default disconnection
  distances (`Generated.disconnectionDistances`) relies on.
-/
import UmapProofs.Basic
import UmapProofs.RealT
import UmapModel.Metrics
import UmapProps.C12
import Generated.Constants
import Mathlib.Tactic
import Mathlib.Algebra.Order.BigOperators.Ring.Finset
import Mathlib.Algebra.BigOperators.Fin
import Mathlib.Data.List.OfFn
import Mathlib.Analysis.SpecialFunctions.Pow.Real
import Mathlib.Analysis.SpecialFunctions.Trigonometric.Inverse
import Mathlib.Analysis.Real.Sqrt

namespace Umap
namespace C12
open Metrics

/-! ### list helpers -/

/-- a map over the swapped zip is the map of the swapped function. -/
theorem map_zip_swap {β : Type} (x y : List ℝ) (f : ℝ × ℝ → β) :
    (y.zip x).map f = (x.zip y).map (fun p => f (p.2, p.1)) := by
  rw [← List.zip_swap, List.map_map]
  rfl

theorem map_zip_swap_congr {β : Type} (x y : List ℝ) (f g : ℝ × ℝ → β)
    (h : ∀ a b, f (b, a) = g (a, b)) :
    (y.zip x).map f = (x.zip y).map g := by
  rw [map_zip_swap]
  apply List.map_congr_left
  intro p _
  exact h p.1 p.2

/-- a sum over a list as a finite sum over its positions. -/
theorem sumL_map_eq_finsum {β : Type} (l : List β) (f : β → ℝ) :
    sumL (l.map f) = ∑ i : Fin l.length, f l[i.val] := by
  rw [sumL_eq_sum, ← List.ofFn_getElem_eq_map, List.sum_ofFn]

theorem sumL_eq_zero_of_forall (l : List ℝ) (h : ∀ v ∈ l, v = 0) : sumL l = 0 := by
  rw [sumL_eq_sum]; exact List.sum_eq_zero h

/-- a sum of non-negative reals vanishes only if every term does. -/
theorem forall_eq_zero_of_sumL_eq_zero (l : List ℝ) (hn : ∀ v ∈ l, 0 ≤ v) (h : sumL l = 0) :
    ∀ v ∈ l, v = 0 := by
  induction l with
  | nil => simp
  | cons a l ih =>
    rw [sumL_cons] at h
    have ha : 0 ≤ a := hn a (by simp)
    have hl : 0 ≤ sumL l := sumL_nonneg l (fun v hv => hn v (by simp [hv]))
    have ha0 : a = 0 := by linarith
    have hl0 : sumL l = 0 := by linarith
    intro v hv
    rcases List.mem_cons.mp hv with rfl | hv
    · exact ha0
    · exact ih (fun v hv => hn v (by simp [hv])) hl0 v hv

theorem sumL_le_length (l : List ℝ) (h : ∀ v ∈ l, v ≤ 1) : sumL l ≤ (l.length : ℝ) := by
  induction l with
  | nil => simp
  | cons a l ih =>
    rw [sumL_cons, List.length_cons]
    have := ih (fun v hv => h v (by simp [hv]))
    have ha := h a (by simp)
    push_cast
    linarith

theorem sumL_le_sumL_zip (l : List (ℝ × ℝ)) (f g : ℝ × ℝ → ℝ) (h : ∀ p ∈ l, f p ≤ g p) :
    sumL (l.map f) ≤ sumL (l.map g) := by
  rw [sumL_eq_sum, sumL_eq_sum]
  exact List.sum_le_sum h

/-- the pairs of `x.zip x` have equal components. -/
theorem mem_zip_self {a b : ℝ} {x : List ℝ} (h : (a, b) ∈ x.zip x) : a = b := by
  induction x with
  | nil => simp at h
  | cons c x ih =>
    simp only [List.zip_cons_cons, List.mem_cons, Prod.mk.injEq] at h
    rcases h with ⟨rfl, rfl⟩ | h
    · rfl
    · exact ih h

theorem map_zip_self {β : Type} (x : List ℝ) (f : ℝ × ℝ → β) :
    (x.zip x).map f = x.map (fun a => f (a, a)) := by
  induction x with
  | nil => rfl
  | cons c x ih => simp only [List.zip_cons_cons, List.map_cons, ih]

/-- for equal lengths a function of the first component can be summed over the zip. -/
theorem map_zip_fst {β : Type} (x y : List ℝ) (h : x.length = y.length) (f : ℝ → β) :
    (x.zip y).map (fun p => f p.1) = x.map f := by
  induction x generalizing y with
  | nil => simp
  | cons a x ih =>
    cases y with
    | nil => simp at h
    | cons b y =>
      simp only [List.zip_cons_cons, List.map_cons, List.cons.injEq, true_and]
      exact ih y (by simpa using h)

theorem map_zip_snd {β : Type} (x y : List ℝ) (h : x.length = y.length) (f : ℝ → β) :
    (x.zip y).map (fun p => f p.2) = y.map f := by
  induction x generalizing y with
  | nil => cases y with
    | nil => rfl
    | cons b y => simp at h
  | cons a x ih =>
    cases y with
    | nil => simp at h
    | cons b y =>
      simp only [List.zip_cons_cons, List.map_cons, List.cons.injEq, true_and]
      exact ih y (by simpa using h)

/-- if every zipped pair of two equally long lists has equal components, the lists are equal. -/
theorem eq_of_zip_forall_eq (x y : List ℝ) (h : x.length = y.length)
    (hp : ∀ p ∈ x.zip y, p.1 = p.2) : x = y := by
  induction x generalizing y with
  | nil => cases y with
    | nil => rfl
    | cons b y => simp at h
  | cons a x ih =>
    cases y with
    | nil => simp at h
    | cons b y =>
      have hab : a = b := hp (a, b) (by simp)
      have := ih y (by simpa using h) (fun p hp' => hp p (by simp [hp']))
      rw [hab, this]

/-! ### `diffs` -/

theorem diffs_swap (x y : List ℝ) : diffs y x = (diffs x y).map (fun d => -d) := by
  unfold diffs
  rw [List.map_map]
  apply map_zip_swap_congr
  intro a b
  simp

theorem diffs_swap_map {β : Type} (x y : List ℝ) (f : ℝ → β) (hf : ∀ d, f (-d) = f d) :
    (diffs y x).map f = (diffs x y).map f := by
  rw [diffs_swap, List.map_map]
  apply List.map_congr_left
  intro d _
  exact hf d

theorem diffs_self_eq (x : List ℝ) : diffs x x = x.map (fun _ => 0) := by
  unfold diffs
  rw [map_zip_self]
  simp

/-! ### 1. euclidean -/

theorem euclidean_symm (x y : List ℝ) : euclidean realT y x = euclidean realT x y := by
  unfold euclidean
  rw [diffs_swap_map x y _ (fun d => by ring)]

theorem euclidean_nonneg (x y : List ℝ) : 0 ≤ euclidean realT x y := by
  unfold euclidean
  exact Real.sqrt_nonneg _

theorem sq_diffs_nonneg (x y : List ℝ) : ∀ v ∈ (diffs x y).map (fun d => d * d), 0 ≤ v := by
  intro v hv
  obtain ⟨d, _, rfl⟩ := List.mem_map.mp hv
  exact mul_self_nonneg d

theorem euclidean_self (x : List ℝ) : euclidean realT x x = 0 := by
  unfold euclidean
  rw [sumL_eq_zero_of_forall]
  · exact Real.sqrt_zero
  · intro v hv
    obtain ⟨d, hd, rfl⟩ := List.mem_map.mp hv
    rw [diffs_self x d hd]; ring

/-- identity of indiscernibles: for equally long vectors a zero euclidean distance forces
    equality. -/
theorem euclidean_eq_zero (x y : List ℝ) (h : x.length = y.length)
    (h0 : euclidean realT x y = 0) : x = y := by
  unfold euclidean at h0
  have hs : sumL ((diffs x y).map (fun d => d * d)) = 0 := by
    have := (Real.sqrt_eq_zero (sumL_nonneg _ (sq_diffs_nonneg x y))).mp h0
    exact this
  have hz := forall_eq_zero_of_sumL_eq_zero _ (sq_diffs_nonneg x y) hs
  apply eq_of_zip_forall_eq x y h
  intro p hp
  have : (p.1 - p.2) * (p.1 - p.2) = 0 := by
    apply hz
    unfold diffs
    rw [List.map_map]
    exact List.mem_map.mpr ⟨p, hp, rfl⟩
  have := mul_self_eq_zero.mp this
  linarith

theorem euclidean_eq_zero_iff (x y : List ℝ) (h : x.length = y.length) :
    euclidean realT x y = 0 ↔ x = y :=
  ⟨euclidean_eq_zero x y h, fun e => e ▸ euclidean_self x⟩

example : euclidean realT [3, 0] [0, 4] = 5 := by
  simp only [euclidean, diffs, List.zip_cons_cons, List.zip_nil_right, List.map_cons, List.map_nil,
    sumL_cons, sumL_nil, realT]
  rw [show (3 - 0) * (3 - 0) + ((0 - 4) * (0 - 4) + 0) = (5 : ℝ) ^ 2 by norm_num]
  exact Real.sqrt_sq (by norm_num)

/-! ### 2. chebyshev -/

theorem maxL_ge_init (init : ℝ) (l : List ℝ) : init ≤ maxL init l := by
  unfold maxL
  induction l generalizing init with
  | nil => exact le_refl _
  | cons a l ih =>
    simp only [List.foldl_cons]
    split_ifs with h
    · exact le_trans h.le (ih a)
    · exact ih init

theorem maxL_ge_mem (init : ℝ) (l : List ℝ) : ∀ v ∈ l, v ≤ maxL init l := by
  induction l generalizing init with
  | nil => simp
  | cons a l ih =>
    intro v hv
    have e : maxL init (a :: l) = maxL (if init < a then a else init) l := by
      simp [maxL]
    rw [e]
    rcases List.mem_cons.mp hv with rfl | hv
    · refine le_trans ?_ (maxL_ge_init _ l)
      split_ifs with h
      · exact le_refl _
      · exact not_lt.mp h
    · exact ih _ v hv

/-- the running maximum is its initial value or one of the entries. -/
theorem maxL_mem (init : ℝ) (l : List ℝ) : maxL init l = init ∨ maxL init l ∈ l := by
  induction l generalizing init with
  | nil => left; rfl
  | cons a l ih =>
    have e : maxL init (a :: l) = maxL (if init < a then a else init) l := by
      simp [maxL]
    rw [e]
    rcases ih (if init < a then a else init) with h | h
    · rw [h]
      split_ifs
      · right; simp
      · left; rfl
    · right; exact List.mem_cons_of_mem _ h

theorem chebyshev_nonneg (x y : List ℝ) : 0 ≤ chebyshev x y := by
  unfold chebyshev
  exact maxL_ge_init 0 _

theorem chebyshev_self (x : List ℝ) : chebyshev x x = 0 := by
  unfold chebyshev
  rcases maxL_mem 0 ((diffs x x).map absV) with h | h
  · exact h
  · obtain ⟨d, hd, e⟩ := List.mem_map.mp h
    rw [← e, diffs_self x d hd, absV_eq_abs, abs_zero]

/-- chebyshev dominates every coordinate difference … -/
theorem chebyshev_ge (x y : List ℝ) : ∀ p ∈ x.zip y, |p.1 - p.2| ≤ chebyshev x y := by
  intro p hp
  unfold chebyshev
  apply maxL_ge_mem
  unfold diffs
  rw [List.map_map]
  exact List.mem_map.mpr ⟨p, hp, by simp [absV_eq_abs]⟩

/-- … and, unless the vectors are empty or equal, is attained by one of them. -/
theorem chebyshev_attained (x y : List ℝ) :
    chebyshev x y = 0 ∨ ∃ p ∈ x.zip y, chebyshev x y = |p.1 - p.2| := by
  unfold chebyshev
  rcases maxL_mem 0 ((diffs x y).map absV) with h | h
  · left; exact h
  · right
    unfold diffs at h ⊢
    rw [List.map_map] at h ⊢
    obtain ⟨p, hp, e⟩ := List.mem_map.mp h
    exact ⟨p, hp, by rw [← e]; simp [absV_eq_abs]⟩

theorem chebyshev_eq_zero (x y : List ℝ) (h : x.length = y.length) (h0 : chebyshev x y = 0) :
    x = y := by
  apply eq_of_zip_forall_eq x y h
  intro p hp
  have := chebyshev_ge x y p hp
  rw [h0] at this
  have := abs_eq_zero.mp (le_antisymm this (abs_nonneg _))
  linarith

example : chebyshev ([1, 5, 2] : List ℝ) [2, 1, 2] = 4 := by
  simp only [chebyshev, diffs, List.zip_cons_cons, List.zip_nil_right, List.map_cons, List.map_nil,
    maxL, List.foldl_cons, List.foldl_nil, absV_eq_abs]
  norm_num [abs_of_neg, abs_of_pos]

/-! ### 3. minkowski, seuclidean, wminkowski, mahalanobis -/

theorem absV_neg (d : ℝ) : absV (-d) = absV d := by
  rw [absV_eq_abs, absV_eq_abs, abs_neg]

theorem absV_nonneg (d : ℝ) : 0 ≤ absV d := by
  rw [absV_eq_abs]; exact abs_nonneg d

theorem zip_diffs_swap_map {β γ : Type} (x y : List ℝ) (s : List β) (f : ℝ × β → γ)
    (hf : ∀ d b, f (-d, b) = f (d, b)) :
    ((diffs y x).zip s).map f = ((diffs x y).zip s).map f := by
  rw [diffs_swap, List.zip_map_left, List.map_map]
  apply List.map_congr_left
  intro q _
  exact hf q.1 q.2

theorem mem_zip_diffs_self {β : Type} (x : List ℝ) (s : List β) :
    ∀ q ∈ (diffs x x).zip s, q.1 = 0 := by
  intro q hq
  exact diffs_self x q.1 (List.of_mem_zip hq).1

/-- minkowski is symmetric for every exponent. -/
theorem minkowski_symm (p : ℝ) (x y : List ℝ) : minkowski realT p y x = minkowski realT p x y := by
  unfold minkowski
  rw [diffs_swap_map x y _ (fun d => by rw [absV_neg])]

theorem minkowski_terms_nonneg (p : ℝ) (x y : List ℝ) :
    ∀ v ∈ (diffs x y).map (fun d => realT.pow (absV d) p), 0 ≤ v := by
  intro v hv
  obtain ⟨d, _, rfl⟩ := List.mem_map.mp hv
  exact Real.rpow_nonneg (absV_nonneg d) p

/-- minkowski is non-negative for every exponent. -/
theorem minkowski_nonneg (p : ℝ) (x y : List ℝ) : 0 ≤ minkowski realT p x y := by
  unfold minkowski
  exact Real.rpow_nonneg (sumL_nonneg _ (minkowski_terms_nonneg p x y)) _

theorem minkowski_self (p : ℝ) (hp : 0 < p) (x : List ℝ) : minkowski realT p x x = 0 := by
  unfold minkowski
  rw [sumL_eq_zero_of_forall]
  · exact Real.zero_rpow (by positivity)
  · intro v hv
    obtain ⟨d, hd, rfl⟩ := List.mem_map.mp hv
    rw [diffs_self x d hd, absV_eq_abs, abs_zero]
    exact Real.zero_rpow hp.ne'

/-- identity of indiscernibles for minkowski (equal lengths; every exponent — for `p = 0` the
    value is never 0, the exponents of interest are `p > 0`). -/
theorem minkowski_eq_zero (p : ℝ) (x y : List ℝ) (h : x.length = y.length)
    (h0 : minkowski realT p x y = 0) : x = y := by
  unfold minkowski at h0
  have hn := sumL_nonneg _ (minkowski_terms_nonneg p x y)
  have hs : sumL ((diffs x y).map (fun d => realT.pow (absV d) p)) = 0 :=
    ((Real.rpow_eq_zero_iff_of_nonneg hn).mp h0).1
  have hz := forall_eq_zero_of_sumL_eq_zero _ (minkowski_terms_nonneg p x y) hs
  apply eq_of_zip_forall_eq x y h
  intro q hq
  have : realT.pow (absV (q.1 - q.2)) p = 0 := by
    apply hz
    unfold diffs
    rw [List.map_map]
    exact List.mem_map.mpr ⟨q, hq, rfl⟩
  have := ((Real.rpow_eq_zero_iff_of_nonneg (absV_nonneg _)).mp this).1
  rw [absV_eq_abs] at this
  have := abs_eq_zero.mp this
  linarith

/-- with `p = 1` minkowski is manhattan. -/
theorem minkowski_one (x y : List ℝ) : minkowski realT 1 x y = manhattan x y := by
  unfold minkowski manhattan
  simp only [realT, Real.rpow_one, div_one]

/-- with `p = 2` minkowski is euclidean. -/
theorem minkowski_two (x y : List ℝ) : minkowski realT 2 x y = euclidean realT x y := by
  unfold minkowski euclidean
  simp only [realT]
  rw [Real.sqrt_eq_rpow]
  congr 2
  apply List.map_congr_left
  intro d _
  rw [absV_eq_abs, Real.rpow_two, sq_abs, sq]

example : (0 : ℝ) < 3 ∧ ([1, 2] : List ℝ).length = ([4, 6] : List ℝ).length := by
  constructor <;> norm_num

/-- standardised euclidean: symmetric (for every `sigma`). -/
theorem seuclidean_symm (sigma x y : List ℝ) :
    seuclidean realT sigma y x = seuclidean realT sigma x y := by
  unfold seuclidean
  rw [zip_diffs_swap_map x y sigma _ (fun d b => by ring)]

theorem seuclidean_nonneg (sigma x y : List ℝ) : 0 ≤ seuclidean realT sigma x y := by
  unfold seuclidean
  exact Real.sqrt_nonneg _

theorem seuclidean_self (sigma x : List ℝ) : seuclidean realT sigma x x = 0 := by
  unfold seuclidean
  rw [sumL_eq_zero_of_forall]
  · exact Real.sqrt_zero
  · intro v hv
    obtain ⟨q, hq, rfl⟩ := List.mem_map.mp hv
    rw [mem_zip_diffs_self x sigma q hq]; ring

theorem seuclidean_terms_nonneg (sigma x y : List ℝ) (hs : ∀ s ∈ sigma, 0 < s) :
    ∀ v ∈ ((diffs x y).zip sigma).map (fun p => (p.1 * p.1) / p.2), 0 ≤ v := by
  intro v hv
  obtain ⟨q, hq, rfl⟩ := List.mem_map.mp hv
  exact div_nonneg (mul_self_nonneg _) (hs _ (List.of_mem_zip hq).2).le

/-- with positive variances the radicand of seuclidean is non-negative (no `sqrt` of a negative
    number). -/
theorem seuclidean_radicand_nonneg (sigma x y : List ℝ) (hs : ∀ s ∈ sigma, 0 < s) :
    0 ≤ sumL (((diffs x y).zip sigma).map (fun p => (p.1 * p.1) / p.2)) :=
  sumL_nonneg _ (seuclidean_terms_nonneg sigma x y hs)

example : ∀ s ∈ ([1, 4] : List ℝ), 0 < s := by
  intro s hs; simp at hs; rcases hs with rfl | rfl <;> norm_num

/-- weighted minkowski: symmetric (for every weight vector and exponent). -/
theorem wminkowski_symm (w : List ℝ) (p : ℝ) (x y : List ℝ) :
    wminkowski realT w p y x = wminkowski realT w p x y := by
  unfold wminkowski
  rw [zip_diffs_swap_map x y w _ (fun d b => by rw [absV_neg])]

theorem wminkowski_terms_nonneg (w : List ℝ) (hw : ∀ v ∈ w, 0 ≤ v) (p : ℝ) (x y : List ℝ) :
    ∀ v ∈ ((diffs x y).zip w).map (fun q => q.2 * realT.pow (absV q.1) p), 0 ≤ v := by
  intro v hv
  obtain ⟨q, hq, rfl⟩ := List.mem_map.mp hv
  exact mul_nonneg (hw _ (List.of_mem_zip hq).2) (Real.rpow_nonneg (absV_nonneg _) p)

/-- weighted minkowski is non-negative for non-negative weights. -/
theorem wminkowski_nonneg (w : List ℝ) (hw : ∀ v ∈ w, 0 ≤ v) (p : ℝ) (x y : List ℝ) :
    0 ≤ wminkowski realT w p x y := by
  unfold wminkowski
  exact Real.rpow_nonneg (sumL_nonneg _ (wminkowski_terms_nonneg w hw p x y)) _

theorem wminkowski_self (w : List ℝ) (p : ℝ) (hp : 0 < p) (x : List ℝ) :
    wminkowski realT w p x x = 0 := by
  unfold wminkowski
  rw [sumL_eq_zero_of_forall]
  · exact Real.zero_rpow (by positivity)
  · intro v hv
    obtain ⟨q, hq, rfl⟩ := List.mem_map.mp hv
    rw [mem_zip_diffs_self x w q hq, absV_eq_abs, abs_zero]
    show q.2 * (0 : ℝ) ^ p = 0
    rw [Real.zero_rpow hp.ne', mul_zero]

example : (∀ v ∈ ([0, 2] : List ℝ), 0 ≤ v) ∧ (0 : ℝ) < 3 := by
  refine ⟨?_, by norm_num⟩
  intro s hs; simp at hs; rcases hs with rfl | rfl <;> norm_num

/-- the quadratic form `dᵀ · vinv · d` as the code accumulates it. -/
noncomputable def mahaQ (vinv : List (List ℝ)) (d : List ℝ) : ℝ :=
  sumL ((vinv.zip d).map (fun rd => sumL ((rd.1.zip d).map (fun q => q.1 * q.2)) * rd.2))

theorem mahalanobis_eq (vinv : List (List ℝ)) (x y : List ℝ) :
    mahalanobis realT vinv x y = Real.sqrt (mahaQ vinv (diffs x y)) := rfl

theorem row_dot_neg (r d : List ℝ) :
    sumL ((r.zip (d.map (fun v => -v))).map (fun q => q.1 * q.2))
      = - sumL ((r.zip d).map (fun q => q.1 * q.2)) := by
  induction r generalizing d with
  | nil => simp
  | cons a r ih =>
    cases d with
    | nil => simp
    | cons b d =>
      simp only [List.map_cons, List.zip_cons_cons, sumL_cons, ih]
      ring

theorem mahaQ_neg (vinv : List (List ℝ)) (d : List ℝ) :
    mahaQ vinv (d.map (fun v => -v)) = mahaQ vinv d := by
  unfold mahaQ
  rw [List.zip_map_right, List.map_map]
  congr 1
  apply List.map_congr_left
  intro rd _
  simp only [Function.comp, Prod.map, id, row_dot_neg]
  ring

/-- mahalanobis is symmetric — for every matrix `vinv`, symmetric or not (the quadratic form is
    even in the difference vector). -/
theorem mahalanobis_symm (vinv : List (List ℝ)) (x y : List ℝ) :
    mahalanobis realT vinv y x = mahalanobis realT vinv x y := by
  rw [mahalanobis_eq, mahalanobis_eq, diffs_swap, mahaQ_neg]

theorem mahalanobis_nonneg (vinv : List (List ℝ)) (x y : List ℝ) :
    0 ≤ mahalanobis realT vinv x y := by
  rw [mahalanobis_eq]; exact Real.sqrt_nonneg _

theorem mahalanobis_self (vinv : List (List ℝ)) (x : List ℝ) :
    mahalanobis realT vinv x x = 0 := by
  rw [mahalanobis_eq]
  unfold mahaQ
  rw [sumL_eq_zero_of_forall]
  · exact Real.sqrt_zero
  · intro v hv
    obtain ⟨rd, hrd, rfl⟩ := List.mem_map.mp hv
    rw [diffs_self x rd.2 (List.of_mem_zip hrd).2, mul_zero]

/-! ### 4. canberra, bray-curtis -/

/-- one term of the canberra sum. -/
noncomputable def canberraTerm (p : ℝ × ℝ) : ℝ :=
  let den := absV p.1 + absV p.2
  if 0 < den then absV (p.1 - p.2) / den else 0

theorem canberra_eq (x y : List ℝ) : canberra x y = sumL ((x.zip y).map canberraTerm) := rfl

theorem canberraTerm_eq (a b : ℝ) :
    canberraTerm (a, b) = if 0 < |a| + |b| then |a - b| / (|a| + |b|) else 0 := by
  simp only [canberraTerm, absV_eq_abs]

theorem canberraTerm_swap (a b : ℝ) : canberraTerm (b, a) = canberraTerm (a, b) := by
  rw [canberraTerm_eq, canberraTerm_eq, abs_sub_comm, add_comm]

theorem canberraTerm_range (a b : ℝ) : 0 ≤ canberraTerm (a, b) ∧ canberraTerm (a, b) ≤ 1 := by
  rw [canberraTerm_eq]
  split_ifs with h
  · exact ⟨div_nonneg (abs_nonneg _) h.le, (div_le_one h).mpr (abs_sub a b)⟩
  · exact ⟨le_refl _, zero_le_one⟩

theorem canberraTerm_self (a : ℝ) : canberraTerm (a, a) = 0 := by
  rw [canberraTerm_eq]
  split_ifs <;> simp

theorem canberra_symm (x y : List ℝ) : canberra y x = canberra x y := by
  rw [canberra_eq, canberra_eq]
  rw [map_zip_swap_congr x y canberraTerm canberraTerm canberraTerm_swap]

theorem canberra_nonneg (x y : List ℝ) : 0 ≤ canberra x y := by
  rw [canberra_eq]
  apply sumL_nonneg
  intro v hv
  obtain ⟨p, _, rfl⟩ := List.mem_map.mp hv
  exact (canberraTerm_range p.1 p.2).1

/-- canberra is at most the dimension. -/
theorem canberra_le_length (x y : List ℝ) : canberra x y ≤ (x.length : ℝ) := by
  rw [canberra_eq]
  have h1 : sumL ((x.zip y).map canberraTerm) ≤ (((x.zip y).map canberraTerm).length : ℝ) := by
    apply sumL_le_length
    intro v hv
    obtain ⟨p, _, rfl⟩ := List.mem_map.mp hv
    exact (canberraTerm_range p.1 p.2).2
  have h2 : ((x.zip y).map canberraTerm).length ≤ x.length := by
    rw [List.length_map, List.length_zip]; exact Nat.min_le_left _ _
  exact le_trans h1 (by exact_mod_cast h2)

theorem canberra_range (x y : List ℝ) : 0 ≤ canberra x y ∧ canberra x y ≤ (x.length : ℝ) :=
  ⟨canberra_nonneg x y, canberra_le_length x y⟩

theorem canberra_self (x : List ℝ) : canberra x x = 0 := by
  rw [canberra_eq, map_zip_self]
  apply sumL_eq_zero_of_forall
  intro v hv
  obtain ⟨a, _, rfl⟩ := List.mem_map.mp hv
  exact canberraTerm_self a

/-- the code's convention for coordinates where both entries are 0: they contribute nothing. -/
theorem canberra_zero_zero (n : ℕ) :
    canberra (List.replicate n (0 : ℝ)) (List.replicate n 0) = 0 := canberra_self _

/-- the bound is attained: vectors of opposite sign are at distance `length`. -/
example : canberra ([1, -2] : List ℝ) [-3, 5] = 2 := by
  simp only [canberra_eq, List.zip_cons_cons, List.zip_nil_right, List.map_cons, List.map_nil,
    sumL_cons, sumL_nil, canberraTerm_eq]
  norm_num [abs_of_neg, abs_of_pos]

/-- numerator and denominator of bray-curtis. -/
noncomputable def bcNum (x y : List ℝ) : ℝ := sumL ((x.zip y).map (fun p => absV (p.1 - p.2)))
noncomputable def bcDen (x y : List ℝ) : ℝ := sumL ((x.zip y).map (fun p => absV (p.1 + p.2)))

theorem brayCurtis_eq (x y : List ℝ) :
    brayCurtis x y = if 0 < bcDen x y then bcNum x y / bcDen x y else 0 := rfl

theorem bcNum_symm (x y : List ℝ) : bcNum y x = bcNum x y := by
  unfold bcNum
  rw [map_zip_swap_congr x y _ (fun p => absV (p.1 - p.2))]
  intro a b
  simp only [absV_eq_abs, abs_sub_comm]

theorem bcDen_symm (x y : List ℝ) : bcDen y x = bcDen x y := by
  unfold bcDen
  rw [map_zip_swap_congr x y _ (fun p => absV (p.1 + p.2))]
  intro a b
  simp only [add_comm]

theorem bcNum_nonneg (x y : List ℝ) : 0 ≤ bcNum x y := by
  unfold bcNum
  apply sumL_nonneg
  intro v hv
  obtain ⟨p, _, rfl⟩ := List.mem_map.mp hv
  exact absV_nonneg _

theorem bcNum_self (x : List ℝ) : bcNum x x = 0 := by
  unfold bcNum
  rw [map_zip_self]
  apply sumL_eq_zero_of_forall
  intro v hv
  obtain ⟨a, _, rfl⟩ := List.mem_map.mp hv
  simp [absV_eq_abs]

theorem brayCurtis_symm (x y : List ℝ) : brayCurtis y x = brayCurtis x y := by
  rw [brayCurtis_eq, brayCurtis_eq, bcNum_symm, bcDen_symm]

theorem brayCurtis_nonneg (x y : List ℝ) : 0 ≤ brayCurtis x y := by
  rw [brayCurtis_eq]
  split_ifs with h
  · exact div_nonneg (bcNum_nonneg x y) h.le
  · exact le_refl _

theorem brayCurtis_self (x : List ℝ) : brayCurtis x x = 0 := by
  rw [brayCurtis_eq, bcNum_self]
  split_ifs <;> simp

/-- the code's convention for two all-zero vectors (denominator 0): the distance is 0. -/
theorem brayCurtis_zero_zero (n : ℕ) :
    brayCurtis (List.replicate n (0 : ℝ)) (List.replicate n 0) = 0 := brayCurtis_self _

/-- for entrywise non-negative vectors bray-curtis is at most 1. -/
theorem brayCurtis_le_one (x y : List ℝ) (hx : ∀ v ∈ x, 0 ≤ v) (hy : ∀ v ∈ y, 0 ≤ v) :
    brayCurtis x y ≤ 1 := by
  rw [brayCurtis_eq]
  split_ifs with h
  · rw [div_le_one h]
    unfold bcNum bcDen
    apply sumL_le_sumL_zip
    intro p hp
    have h1 := hx _ (List.of_mem_zip hp).1
    have h2 := hy _ (List.of_mem_zip hp).2
    rw [absV_eq_abs, absV_eq_abs, abs_of_nonneg (add_nonneg h1 h2), abs_le]
    constructor <;> linarith
  · exact zero_le_one

theorem brayCurtis_range (x y : List ℝ) (hx : ∀ v ∈ x, 0 ≤ v) (hy : ∀ v ∈ y, 0 ≤ v) :
    0 ≤ brayCurtis x y ∧ brayCurtis x y ≤ 1 :=
  ⟨brayCurtis_nonneg x y, brayCurtis_le_one x y hx hy⟩

/-- non-vacuity, and the bound 1 is attained on disjoint supports. -/
example : (∀ v ∈ ([1, 0] : List ℝ), 0 ≤ v) ∧ (∀ v ∈ ([0, 3] : List ℝ), 0 ≤ v)
    ∧ brayCurtis ([1, 0] : List ℝ) [0, 3] = 1 := by
  refine ⟨?_, ?_, ?_⟩
  · intro s hs; simp at hs; rcases hs with rfl | rfl <;> norm_num
  · intro s hs; simp at hs; rcases hs with rfl | rfl <;> norm_num
  · simp only [brayCurtis_eq, bcNum, bcDen, List.zip_cons_cons, List.zip_nil_right, List.map_cons,
      List.map_nil, sumL_cons, sumL_nil, absV_eq_abs]
    norm_num [abs_of_neg, abs_of_pos]

/-- without the sign condition the bound fails: `brayCurtis [1] [-2] = 3`. -/
example : brayCurtis ([1] : List ℝ) [-2] = 3 := by
  simp only [brayCurtis_eq, bcNum, bcDen, List.zip_cons_cons, List.zip_nil_right, List.map_cons,
    List.map_nil, sumL_cons, sumL_nil, absV_eq_abs]
  norm_num [abs_of_neg, abs_of_pos]

/-! ### 5a. cosine -/

theorem dot_symm (x y : List ℝ) : dot y x = dot x y := by
  unfold dot
  rw [map_zip_swap_congr x y _ (fun p => p.1 * p.2)]
  intro a b
  exact mul_comm b a

theorem dot_self_eq (x : List ℝ) : dot x x = sumL (x.map (fun a => a * a)) := by
  unfold dot
  rw [map_zip_self]

theorem dot_self_nonneg (x : List ℝ) : 0 ≤ dot x x := by
  rw [dot_self_eq]
  apply sumL_nonneg
  intro v hv
  obtain ⟨a, _, rfl⟩ := List.mem_map.mp hv
  exact mul_self_nonneg a

/-- `∑ x_i² = 0` exactly for the all-zero vector. -/
theorem dot_self_eq_zero_iff (x : List ℝ) : dot x x = 0 ↔ ∀ v ∈ x, v = 0 := by
  rw [dot_self_eq]
  constructor
  · intro h v hv
    have hz := forall_eq_zero_of_sumL_eq_zero (x.map (fun a => a * a))
      (by
        intro w hw
        obtain ⟨a, _, rfl⟩ := List.mem_map.mp hw
        exact mul_self_nonneg a) h
    exact mul_self_eq_zero.mp (hz (v * v) (List.mem_map.mpr ⟨v, hv, rfl⟩))
  · intro h
    apply sumL_eq_zero_of_forall
    intro w hw
    obtain ⟨a, ha, rfl⟩ := List.mem_map.mp hw
    rw [h a ha, mul_zero]

/-- Cauchy–Schwarz for a list of pairs. -/
theorem cauchy_schwarz_pairs (l : List (ℝ × ℝ)) :
    (sumL (l.map (fun p => p.1 * p.2))) ^ 2
      ≤ sumL (l.map (fun p => p.1 * p.1)) * sumL (l.map (fun p => p.2 * p.2)) := by
  rw [sumL_map_eq_finsum, sumL_map_eq_finsum, sumL_map_eq_finsum]
  have := Finset.sum_mul_sq_le_sq_mul_sq Finset.univ
    (fun i : Fin l.length => l[i.val].1) (fun i : Fin l.length => l[i.val].2)
  simp only [sq] at this ⊢
  exact this

/-- Cauchy–Schwarz: `(∑ x_i y_i)² ≤ (∑ x_i²)(∑ y_i²)`. -/
theorem dot_sq_le (x y : List ℝ) (h : x.length = y.length) :
    (dot x y) ^ 2 ≤ dot x x * dot y y := by
  rw [dot_self_eq x, dot_self_eq y, ← map_zip_fst x y h (fun a => a * a),
    ← map_zip_snd x y h (fun a => a * a)]
  exact cauchy_schwarz_pairs (x.zip y)

/-- the branches of `cosine`, with the float equality tests read as equalities. -/
theorem cosine_eq (x y : List ℝ) :
    cosine realT x y =
      if dot x x = 0 ∧ dot y y = 0 then 0
      else if dot x x = 0 ∨ dot y y = 0 then 1
      else 1 - dot x y / Real.sqrt (dot x x * dot y y) := by
  simp only [cosine, Bool.and_eq_true, Bool.or_eq_true, eqV_iff, realT]

theorem cosine_symm (x y : List ℝ) : cosine realT y x = cosine realT x y := by
  rw [cosine_eq, cosine_eq, dot_symm x y, mul_comm (dot y y)]
  have e1 : (dot y y = 0 ∧ dot x x = 0) ↔ (dot x x = 0 ∧ dot y y = 0) := and_comm
  have e2 : (dot y y = 0 ∨ dot x x = 0) ↔ (dot x x = 0 ∨ dot y y = 0) := or_comm
  simp only [e1, e2]

/-- convention: two all-zero vectors are at cosine distance 0. -/
theorem cosine_zero_zero (x y : List ℝ) (hx : ∀ v ∈ x, v = 0) (hy : ∀ v ∈ y, v = 0) :
    cosine realT x y = 0 := by
  rw [cosine_eq, if_pos ⟨(dot_self_eq_zero_iff x).mpr hx, (dot_self_eq_zero_iff y).mpr hy⟩]

/-- convention: an all-zero vector is at cosine distance 1 from every non-zero vector. -/
theorem cosine_zero_left (x y : List ℝ) (hx : ∀ v ∈ x, v = 0) (hy : ∃ v ∈ y, v ≠ 0) :
    cosine realT x y = 1 := by
  have h1 : dot x x = 0 := (dot_self_eq_zero_iff x).mpr hx
  have h2 : dot y y ≠ 0 := by
    intro h
    obtain ⟨v, hv, hne⟩ := hy
    exact hne ((dot_self_eq_zero_iff y).mp h v hv)
  rw [cosine_eq, if_neg (fun h => h2 h.2), if_pos (Or.inl h1)]

theorem cosine_zero_right (x y : List ℝ) (hx : ∃ v ∈ x, v ≠ 0) (hy : ∀ v ∈ y, v = 0) :
    cosine realT x y = 1 := by
  rw [← cosine_symm]; exact cosine_zero_left y x hy hx

/-- zero on identical arguments, zero vector or not. -/
theorem cosine_self (x : List ℝ) : cosine realT x x = 0 := by
  rw [cosine_eq]
  by_cases h : dot x x = 0
  · rw [if_pos ⟨h, h⟩]
  · rw [if_neg (fun hh => h hh.1), if_neg (fun hh => h (hh.elim id id)),
      Real.sqrt_mul_self (dot_self_nonneg x), div_self h, sub_self]

/-- `1 - r / √(a b)` lies in `[0, 2]` whenever `r² ≤ a b` and `a b > 0`. -/
theorem one_sub_div_sqrt_range {r ab : ℝ} (hab : 0 < ab) (hr : r ^ 2 ≤ ab) :
    0 ≤ 1 - r / Real.sqrt ab ∧ 1 - r / Real.sqrt ab ≤ 2 := by
  have hs : 0 < Real.sqrt ab := Real.sqrt_pos.mpr hab
  have habs : |r| ≤ Real.sqrt ab := Real.abs_le_sqrt hr
  obtain ⟨h1, h2⟩ := abs_le.mp habs
  have hle : r / Real.sqrt ab ≤ 1 := (div_le_one hs).mpr h2
  have hge : -1 ≤ r / Real.sqrt ab := by
    rw [le_div_iff₀ hs]; linarith
  constructor <;> linarith

/-- the cosine distance lies in `[0, 2]` (Cauchy–Schwarz): `2` is its supremum, the default
    disconnection distance. -/
theorem cosine_range (x y : List ℝ) (h : x.length = y.length) :
    0 ≤ cosine realT x y ∧ cosine realT x y ≤ 2 := by
  rw [cosine_eq]
  split_ifs with h1 h2
  · exact ⟨le_refl _, by norm_num⟩
  · exact ⟨zero_le_one, by norm_num⟩
  · have hx : 0 < dot x x :=
      lt_of_le_of_ne (dot_self_nonneg x) (fun e => h2 (Or.inl e.symm))
    have hy : 0 < dot y y :=
      lt_of_le_of_ne (dot_self_nonneg y) (fun e => h2 (Or.inr e.symm))
    exact one_sub_div_sqrt_range (mul_pos hx hy) (dot_sq_le x y h)

/-- non-vacuity and attainment of the supremum: opposite vectors are at distance 2. -/
example : ([1, 2] : List ℝ).length = ([-1, -2] : List ℝ).length
    ∧ cosine realT ([1, 2] : List ℝ) [-1, -2] = 2 := by
  refine ⟨rfl, ?_⟩
  rw [cosine_eq]
  simp only [dot, List.zip_cons_cons, List.zip_nil_right, List.map_cons, List.map_nil,
    sumL_cons, sumL_nil]
  norm_num

/-! ### 5b. correlation -/

/-- the vector centred the way `correlation` does it: the mean is taken over `n` entries. -/
noncomputable def cen (n : ℕ) (x : List ℝ) : List ℝ := x.map (· - sumL x / (n : ℝ))

theorem cen_length (n : ℕ) (x : List ℝ) : (cen n x).length = x.length := by
  unfold cen; exact List.length_map _

/-- the branches of `correlation`. -/
theorem correlation_eq (x y : List ℝ) :
    correlation realT x y =
      if dot (cen x.length x) (cen x.length x) = 0 ∧ dot (cen x.length y) (cen x.length y) = 0
      then 0
      else if dot (cen x.length x) (cen x.length y) = 0 then 1
      else 1 - dot (cen x.length x) (cen x.length y)
        / Real.sqrt (dot (cen x.length x) (cen x.length x) * dot (cen x.length y) (cen x.length y)) := by
  simp only [correlation, mean, Bool.and_eq_true, eqV_iff, realT]
  rfl

theorem correlation_symm (x y : List ℝ) (h : x.length = y.length) :
    correlation realT y x = correlation realT x y := by
  rw [correlation_eq, correlation_eq, ← h, dot_symm (cen x.length x) (cen x.length y),
    mul_comm (dot (cen x.length y) (cen x.length y))]
  have e1 : (dot (cen x.length y) (cen x.length y) = 0 ∧ dot (cen x.length x) (cen x.length x) = 0)
      ↔ (dot (cen x.length x) (cen x.length x) = 0 ∧ dot (cen x.length y) (cen x.length y) = 0) :=
    and_comm
  simp only [e1]

/-- zero on identical arguments, constant vector or not. -/
theorem correlation_self (x : List ℝ) : correlation realT x x = 0 := by
  rw [correlation_eq]
  by_cases h : dot (cen x.length x) (cen x.length x) = 0
  · rw [if_pos ⟨h, h⟩]
  · rw [if_neg (fun hh => h hh.1), if_neg h,
      Real.sqrt_mul_self (dot_self_nonneg _), div_self h, sub_self]

/-- the correlation distance lies in `[0, 2]` (Cauchy–Schwarz on the centred vectors): `2` is its
    supremum, the default disconnection distance. -/
theorem correlation_range (x y : List ℝ) (h : x.length = y.length) :
    0 ≤ correlation realT x y ∧ correlation realT x y ≤ 2 := by
  rw [correlation_eq]
  split_ifs with h1 h2
  · exact ⟨le_refl _, by norm_num⟩
  · exact ⟨zero_le_one, by norm_num⟩
  · have hcs := dot_sq_le (cen x.length x) (cen x.length y)
      (by rw [cen_length, cen_length, h])
    have hpos : 0 < dot (cen x.length x) (cen x.length y) ^ 2 := by positivity
    exact one_sub_div_sqrt_range (lt_of_lt_of_le hpos hcs) hcs

theorem sumL_replicate (n : ℕ) (a : ℝ) : sumL (List.replicate n a) = n * a := by
  rw [sumL_eq_sum, List.sum_replicate, nsmul_eq_mul]

/-- centring a constant vector gives the zero vector. -/
theorem cen_const (x : List ℝ) (a : ℝ) (hx : ∀ v ∈ x, v = a) :
    ∀ v ∈ cen x.length x, v = 0 := by
  have e : x = List.replicate x.length a := List.eq_replicate_iff.mpr ⟨rfl, hx⟩
  intro v hv
  unfold cen at hv
  obtain ⟨w, hw, rfl⟩ := List.mem_map.mp hv
  have hne : x ≠ [] := List.ne_nil_of_mem hw
  have hlen : (x.length : ℝ) ≠ 0 := by
    have : x.length ≠ 0 := fun h0 => hne (List.length_eq_zero_iff.mp h0)
    exact_mod_cast this
  have hs : sumL x = x.length * a := by
    conv_lhs => rw [e]
    rw [sumL_replicate]
  rw [hx w hw]
  show a - sumL x / (x.length : ℝ) = 0
  rw [hs]
  field_simp
  ring

/-- convention: two constant vectors are at correlation distance 0. -/
theorem correlation_const_const (x y : List ℝ) (h : x.length = y.length) (a b : ℝ)
    (hx : ∀ v ∈ x, v = a) (hy : ∀ v ∈ y, v = b) : correlation realT x y = 0 := by
  rw [correlation_eq, if_pos]
  refine ⟨(dot_self_eq_zero_iff _).mpr (cen_const x a hx), (dot_self_eq_zero_iff _).mpr ?_⟩
  rw [h]; exact cen_const y b hy

/-- a zero vector has zero inner product with every vector. -/
theorem dot_zero_left (x y : List ℝ) (hx : ∀ v ∈ x, v = 0) : dot x y = 0 := by
  unfold dot
  apply sumL_eq_zero_of_forall
  intro v hv
  obtain ⟨p, hp, rfl⟩ := List.mem_map.mp hv
  rw [hx _ (List.of_mem_zip hp).1, zero_mul]

/-- convention: a constant vector is at correlation distance 1 from every non-constant vector. -/
theorem correlation_const_left (x y : List ℝ) (a : ℝ)
    (hx : ∀ v ∈ x, v = a) (hy : ¬ ∃ c, ∀ v ∈ y, v = c) : correlation realT x y = 1 := by
  have h2 : dot (cen x.length y) (cen x.length y) ≠ 0 := by
    intro h0
    apply hy
    refine ⟨sumL y / (x.length : ℝ), ?_⟩
    intro v hv
    have := (dot_self_eq_zero_iff _).mp h0 (v - sumL y / (x.length : ℝ))
      (by unfold cen; exact List.mem_map.mpr ⟨v, hv, rfl⟩)
    linarith
  rw [correlation_eq, if_neg (fun hh => h2 hh.2), if_pos (dot_zero_left _ _ (cen_const x a hx))]

theorem correlation_const_right (x y : List ℝ) (h : x.length = y.length) (b : ℝ)
    (hx : ¬ ∃ c, ∀ v ∈ x, v = c) (hy : ∀ v ∈ y, v = b) : correlation realT x y = 1 := by
  rw [correlation_symm y x h.symm]; exact correlation_const_left y x b hy hx

/-- non-vacuity and attainment of the supremum: anti-correlated vectors are at distance 2. -/
example : ([1, 2] : List ℝ).length = ([2, 1] : List ℝ).length
    ∧ correlation realT ([1, 2] : List ℝ) [2, 1] = 2 := by
  refine ⟨rfl, ?_⟩
  rw [correlation_eq]
  simp only [cen, dot, List.length_cons, List.length_nil, List.zip_cons_cons, List.zip_nil_right,
    List.map_cons, List.map_nil, sumL_cons, sumL_nil]
  norm_num

/-! ### 5c. hellinger -/

/-- the Bhattacharyya sum `∑ √(x_i y_i)`. -/
noncomputable def hellR (x y : List ℝ) : ℝ :=
  sumL ((x.zip y).map (fun p => Real.sqrt (p.1 * p.2)))

/-- the branches of `hellinger` (the radicand clamp `max 0 ·` of the code is invisible over ℝ:
    `sqrt_maxV_zero`). -/
theorem hellinger_eq (x y : List ℝ) :
    hellinger realT x y =
      if sumL x = 0 ∧ sumL y = 0 then 0
      else if sumL x = 0 ∨ sumL y = 0 then 1
      else Real.sqrt (1 - hellR x y / Real.sqrt (sumL x * sumL y)) := by
  simp only [hellinger, Bool.and_eq_true, Bool.or_eq_true, eqV_iff, realT, sqrt_maxV_zero]
  rfl

theorem hellR_symm (x y : List ℝ) : hellR y x = hellR x y := by
  unfold hellR
  rw [map_zip_swap_congr x y _ (fun p => Real.sqrt (p.1 * p.2))]
  intro a b
  rw [mul_comm]

theorem hellR_nonneg (x y : List ℝ) : 0 ≤ hellR x y := by
  unfold hellR
  apply sumL_nonneg
  intro v hv
  obtain ⟨p, _, rfl⟩ := List.mem_map.mp hv
  exact Real.sqrt_nonneg _

theorem hellinger_symm (x y : List ℝ) : hellinger realT y x = hellinger realT x y := by
  rw [hellinger_eq, hellinger_eq, hellR_symm x y, mul_comm (sumL y)]
  have e1 : (sumL y = 0 ∧ sumL x = 0) ↔ (sumL x = 0 ∧ sumL y = 0) := and_comm
  have e2 : (sumL y = 0 ∨ sumL x = 0) ↔ (sumL x = 0 ∨ sumL y = 0) := or_comm
  simp only [e1, e2]

/-- convention: two all-zero vectors are at hellinger distance 0. -/
theorem hellinger_zero_zero (x y : List ℝ) (hx : ∀ v ∈ x, v = 0) (hy : ∀ v ∈ y, v = 0) :
    hellinger realT x y = 0 := by
  rw [hellinger_eq, if_pos ⟨sumL_eq_zero_of_forall x hx, sumL_eq_zero_of_forall y hy⟩]

/-- convention: an all-zero vector is at hellinger distance 1 from every vector of non-zero
    mass. -/
theorem hellinger_zero_left (x y : List ℝ) (hx : ∀ v ∈ x, v = 0) (hy : sumL y ≠ 0) :
    hellinger realT x y = 1 := by
  rw [hellinger_eq, if_neg (fun h => hy h.2), if_pos (Or.inl (sumL_eq_zero_of_forall x hx))]

theorem hellinger_zero_right (x y : List ℝ) (hx : sumL x ≠ 0) (hy : ∀ v ∈ y, v = 0) :
    hellinger realT x y = 1 := by
  rw [← hellinger_symm]; exact hellinger_zero_left y x hy hx

/-- `0 ≤ hellinger ≤ 1` — for all real inputs (`Real.sqrt` of a negative radicand is 0);
    `hellinger_radicand_nonneg` below shows that for non-negative inputs the radicand is
    itself in `[0, 1]`, so that the float code takes no root of a negative number.  `1` is the
    supremum, the default disconnection distance. -/
theorem hellinger_range (x y : List ℝ) :
    0 ≤ hellinger realT x y ∧ hellinger realT x y ≤ 1 := by
  rw [hellinger_eq]
  split_ifs with h1 h2
  · exact ⟨le_refl _, zero_le_one⟩
  · exact ⟨zero_le_one, le_refl _⟩
  · have : 0 ≤ hellR x y / Real.sqrt (sumL x * sumL y) :=
      div_nonneg (hellR_nonneg x y) (Real.sqrt_nonneg _)
    exact ⟨Real.sqrt_nonneg _, Real.sqrt_le_one.mpr (by linarith)⟩

/-- Cauchy–Schwarz: `(∑ √(x_i y_i))² ≤ (∑ x_i)(∑ y_i)` for entrywise non-negative vectors. -/
theorem hellR_sq_le (x y : List ℝ) (h : x.length = y.length)
    (hx : ∀ v ∈ x, 0 ≤ v) (hy : ∀ v ∈ y, 0 ≤ v) :
    (hellR x y) ^ 2 ≤ sumL x * sumL y := by
  have ex : sumL x = sumL ((x.zip y).map (fun p => p.1)) := by
    rw [map_zip_fst x y h (fun a => a), List.map_id']
  have ey : sumL y = sumL ((x.zip y).map (fun p => p.2)) := by
    rw [map_zip_snd x y h (fun a => a), List.map_id']
  rw [ex, ey]
  unfold hellR
  rw [sumL_map_eq_finsum, sumL_map_eq_finsum, sumL_map_eq_finsum]
  have hmem : ∀ i : Fin (x.zip y).length, 0 ≤ (x.zip y)[i.val].1 ∧ 0 ≤ (x.zip y)[i.val].2 := by
    intro i
    have hm : (x.zip y)[i.val] ∈ x.zip y := List.getElem_mem i.isLt
    exact ⟨hx _ (List.of_mem_zip hm).1, hy _ (List.of_mem_zip hm).2⟩
  apply Finset.sum_sq_le_sum_mul_sum_of_sq_le_mul
  · intro i _; exact (hmem i).1
  · intro i _; exact (hmem i).2
  · intro i _
    rw [Real.sq_sqrt (mul_nonneg (hmem i).1 (hmem i).2)]

/-- for non-negative inputs the quotient `∑ √(x_i y_i) / √(∑ x_i ∑ y_i)` is in `[0, 1]`: the
    radicand `1 - …` of hellinger is in `[0, 1]`. -/
theorem hellinger_radicand_range (x y : List ℝ) (h : x.length = y.length)
    (hx : ∀ v ∈ x, 0 ≤ v) (hy : ∀ v ∈ y, 0 ≤ v) :
    0 ≤ 1 - hellR x y / Real.sqrt (sumL x * sumL y)
      ∧ 1 - hellR x y / Real.sqrt (sumL x * sumL y) ≤ 1 := by
  have h1 : hellR x y ≤ Real.sqrt (sumL x * sumL y) :=
    Real.le_sqrt_of_sq_le (hellR_sq_le x y h hx hy)
  have h2 : hellR x y / Real.sqrt (sumL x * sumL y) ≤ 1 :=
    div_le_one_of_le₀ h1 (Real.sqrt_nonneg _)
  have h3 : 0 ≤ hellR x y / Real.sqrt (sumL x * sumL y) :=
    div_nonneg (hellR_nonneg x y) (Real.sqrt_nonneg _)
  constructor <;> linarith

theorem hellR_self (x : List ℝ) (hx : ∀ v ∈ x, 0 ≤ v) : hellR x x = sumL x := by
  unfold hellR
  rw [map_zip_self]
  congr 1
  conv_rhs => rw [← List.map_id' x]
  apply List.map_congr_left
  intro a ha
  exact Real.sqrt_mul_self (hx a ha)

/-- zero on identical non-negative arguments, zero vector or not. -/
theorem hellinger_self (x : List ℝ) (hx : ∀ v ∈ x, 0 ≤ v) : hellinger realT x x = 0 := by
  rw [hellinger_eq]
  by_cases h : sumL x = 0
  · rw [if_pos ⟨h, h⟩]
  · rw [if_neg (fun hh => h hh.1), if_neg (fun hh => h (hh.elim id id)), hellR_self x hx,
      Real.sqrt_mul_self (sumL_nonneg x hx), div_self h, sub_self, Real.sqrt_zero]

/-- non-vacuity, and the supremum 1 is attained on disjoint supports. -/
example : ([1, 0] : List ℝ).length = ([0, 3] : List ℝ).length
    ∧ (∀ v ∈ ([1, 0] : List ℝ), 0 ≤ v) ∧ (∀ v ∈ ([0, 3] : List ℝ), 0 ≤ v)
    ∧ hellinger realT ([1, 0] : List ℝ) [0, 3] = 1 := by
  refine ⟨rfl, ?_, ?_, ?_⟩
  · intro s hs; simp at hs; rcases hs with rfl | rfl <;> norm_num
  · intro s hs; simp at hs; rcases hs with rfl | rfl <;> norm_num
  · rw [hellinger_eq]
    simp only [hellR, List.zip_cons_cons, List.zip_nil_right, List.map_cons, List.map_nil,
      sumL_cons, sumL_nil]
    norm_num

/-! ### 5d. haversine -/

theorem haversine_cons (x0 x1 y0 y1 : ℝ) :
    haversine realT [x0, x1] [y0, y1] =
      some (2 * Real.arcsin (Real.sqrt
        (Real.sin (1 / 2 * (x0 - y0)) * Real.sin (1 / 2 * (x0 - y0))
          + Real.cos x0 * Real.cos y0
            * (Real.sin (1 / 2 * (x1 - y1)) * Real.sin (1 / 2 * (x1 - y1)))))) := by
  simp only [haversine, two, realT, Nat.cast_ofNat]

/-- haversine is defined exactly on pairs of 2-d points. -/
theorem haversine_isSome_iff (x y : List ℝ) :
    (haversine realT x y).isSome ↔ x.length = 2 ∧ y.length = 2 := by
  rcases x with _ | ⟨x0, _ | ⟨x1, _ | ⟨x2, xs⟩⟩⟩ <;>
    rcases y with _ | ⟨y0, _ | ⟨y1, _ | ⟨y2, ys⟩⟩⟩ <;>
    simp [haversine]

/-- haversine is symmetric (also in being undefined). -/
theorem haversine_symm (x y : List ℝ) : haversine realT y x = haversine realT x y := by
  rcases x with _ | ⟨x0, _ | ⟨x1, _ | ⟨x2, xs⟩⟩⟩ <;>
    rcases y with _ | ⟨y0, _ | ⟨y1, _ | ⟨y2, ys⟩⟩⟩ <;>
    try rfl
  rw [haversine_cons, haversine_cons]
  have e0 : Real.sin (1 / 2 * (y0 - x0)) = - Real.sin (1 / 2 * (x0 - y0)) := by
    rw [← Real.sin_neg]; congr 1; ring
  have e1 : Real.sin (1 / 2 * (y1 - x1)) = - Real.sin (1 / 2 * (x1 - y1)) := by
    rw [← Real.sin_neg]; congr 1; ring
  rw [e0, e1, neg_mul_neg, neg_mul_neg, mul_comm (Real.cos y0)]

/-- whenever defined, the haversine distance lies in `[0, π]`. -/
theorem haversine_range (x y : List ℝ) (d : ℝ) (h : haversine realT x y = some d) :
    0 ≤ d ∧ d ≤ Real.pi := by
  rcases x with _ | ⟨x0, _ | ⟨x1, _ | ⟨x2, xs⟩⟩⟩ <;>
    rcases y with _ | ⟨y0, _ | ⟨y1, _ | ⟨y2, ys⟩⟩⟩ <;>
    try (simp [haversine] at h; done)
  rw [haversine_cons] at h
  have hd := Option.some.inj h
  rw [← hd]
  constructor
  · have := Real.arcsin_nonneg.mpr (Real.sqrt_nonneg
      (Real.sin (1 / 2 * (x0 - y0)) * Real.sin (1 / 2 * (x0 - y0))
          + Real.cos x0 * Real.cos y0
            * (Real.sin (1 / 2 * (x1 - y1)) * Real.sin (1 / 2 * (x1 - y1)))))
    linarith
  · have := Real.arcsin_le_pi_div_two (Real.sqrt
      (Real.sin (1 / 2 * (x0 - y0)) * Real.sin (1 / 2 * (x0 - y0))
          + Real.cos x0 * Real.cos y0
            * (Real.sin (1 / 2 * (x1 - y1)) * Real.sin (1 / 2 * (x1 - y1)))))
    linarith

/-- zero on identical points. -/
theorem haversine_self (a b : ℝ) : haversine realT [a, b] [a, b] = some 0 := by
  rw [haversine_cons]
  simp

/-- non-vacuity: the distance between two concrete points is defined. -/
example : ∃ d, haversine realT [0, 0] [1, 2] = some d := ⟨_, haversine_cons 0 0 1 2⟩

/-! ### 6. the default disconnection distances are the proved suprema -/

/-- The live table `umap.umap_.DISCONNECTION_DISTANCES` (regenerated into
    `Generated.disconnectionDistances`) assigns to each bounded metric the supremum proved above:
    * `"cosine"` ↦ 2 — `cosine_range`;
    * `"correlation"` ↦ 2 — `correlation_range`;
    * `"hellinger"` ↦ 1 — `hellinger_range`;
    * `"jaccard"`, `"dice"` ↦ 1 — `binary_unit_range` (in `UmapProps.C12`). -/
theorem disconnection_suprema :
    Generated.disconnectionDistances.lookup "cosine" = some 2
    ∧ Generated.disconnectionDistances.lookup "correlation" = some 2
    ∧ Generated.disconnectionDistances.lookup "hellinger" = some 1
    ∧ Generated.disconnectionDistances.lookup "jaccard" = some 1
    ∧ Generated.disconnectionDistances.lookup "dice" = some 1 := by
  decide +kernel

/-- the table values, as reals, bound the corresponding metrics. -/
theorem disconnection_bounds (x y : List ℝ) (h : x.length = y.length) :
    (∀ q, Generated.disconnectionDistances.lookup "cosine" = some q →
        cosine realT x y ≤ (q : ℝ))
    ∧ (∀ q, Generated.disconnectionDistances.lookup "correlation" = some q →
        correlation realT x y ≤ (q : ℝ))
    ∧ (∀ q, Generated.disconnectionDistances.lookup "hellinger" = some q →
        hellinger realT x y ≤ (q : ℝ)) := by
  obtain ⟨h1, h2, h3, _, _⟩ := disconnection_suprema
  refine ⟨?_, ?_, ?_⟩
  · intro q hq
    rw [h1] at hq
    rw [← Option.some.inj hq]
    exact_mod_cast (cosine_range x y h).2
  · intro q hq
    rw [h2] at hq
    rw [← Option.some.inj hq]
    exact_mod_cast (correlation_range x y h).2
  · intro q hq
    rw [h3] at hq
    rw [← Option.some.inj hq]
    exact_mod_cast (hellinger_range x y).2

/-! ### further non-vacuity instances for the implication theorems above -/

example : euclidean realT [1, 2] [1, 2] = 0 ∧ ([1, 2] : List ℝ).length = ([1, 2] : List ℝ).length :=
  ⟨euclidean_self _, rfl⟩

example : minkowski realT 3 [1, 2] [1, 2] = 0 := minkowski_self 3 (by norm_num) _

example : cosine realT [0, 0] [0, 3] = 1 :=
  cosine_zero_left _ _ (by intro v hv; simp at hv; exact hv) ⟨3, by simp, by norm_num⟩

example : correlation realT [1, 1] [1, 2] = 1 := by
  apply correlation_const_left _ _ 1
  · intro v hv; simp at hv; exact hv
  · rintro ⟨c, hc⟩
    have h1 := hc 1 (by simp)
    have h2 := hc 2 (by simp)
    linarith

example : correlation realT [1, 1] [5, 5] = 0 :=
  correlation_const_const _ _ rfl 1 5 (by intro v hv; simp at hv; exact hv)
    (by intro v hv; simp at hv; exact hv)

example : hellinger realT [0, 0] [1, 2] = 1 := by
  apply hellinger_zero_left
  · intro v hv; simp at hv; exact hv
  · simp only [sumL_cons, sumL_nil]; norm_num

example : hellinger realT [1, 2] [1, 2] = 0 :=
  hellinger_self _ (by intro v hv; simp at hv; rcases hv with rfl | rfl <;> norm_num)

end C12
end Umap
