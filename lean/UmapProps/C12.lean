/-
  C12 — every named dense metric computes its mathematical definition.

  Model: `Umap.Metrics`.  The binary family is defined through the three support counts
  (`counts`); the theorems below give, for all vectors of all lengths, symmetry, range and the
  identity convention at the level of the counts, and lift them to vectors.  The registry of the
  live code is regenerated into `Generated.Registry` and compared with the specification table.
-/
import UmapProofs.Basic
import UmapModel.Metrics
import Generated.Registry
import Mathlib.Tactic

namespace Umap
namespace C12
open Metrics

variable {K : Type} [Field K] [LinearOrder K] [IsStrictOrderedRing K]

/-! ### counts: swapping the arguments swaps `tf` and `ft`; identical arguments have none -/

def Counts.swap (c : Counts) : Counts := { c with tf := c.ft, ft := c.tf }

theorem counts_foldl_swap (l : List (K × K)) (c : Counts) :
    (l.map Prod.swap).foldl (fun (c : Counts) (p : K × K) =>
      match nzB p.1, nzB p.2 with
      | true, true => { c with tt := c.tt + 1 }
      | true, false => { c with tf := c.tf + 1 }
      | false, true => { c with ft := c.ft + 1 }
      | false, false => c) (Counts.swap c)
    = Counts.swap (l.foldl (fun (c : Counts) (p : K × K) =>
      match nzB p.1, nzB p.2 with
      | true, true => { c with tt := c.tt + 1 }
      | true, false => { c with tf := c.tf + 1 }
      | false, true => { c with ft := c.ft + 1 }
      | false, false => c) c) := by
  induction l generalizing c with
  | nil => rfl
  | cons p l ih =>
    simp only [List.map_cons, List.foldl_cons, Prod.swap]
    rw [← ih]
    congr 1
    cases nzB p.1 <;> cases nzB p.2 <;> rfl

/-- swapping the two vectors swaps the one-sided counts. -/
theorem counts_swap (x y : List K) (h : x.length = y.length) :
    counts y x = Counts.swap (counts x y) := by
  unfold counts
  have : y.zip x = (x.zip y).map Prod.swap := by
    rw [List.zip_swap]
  rw [this]
  have := counts_foldl_swap (x.zip y) { n := x.length, tt := 0, tf := 0, ft := 0 }
  simp only [Counts.swap] at this ⊢
  rw [← h]
  exact this

theorem counts_foldl_self (l : List K) (c : Counts) (hc : c.tf = 0 ∧ c.ft = 0) :
    let r := (l.zip l).foldl (fun (c : Counts) (p : K × K) =>
      match nzB p.1, nzB p.2 with
      | true, true => { c with tt := c.tt + 1 }
      | true, false => { c with tf := c.tf + 1 }
      | false, true => { c with ft := c.ft + 1 }
      | false, false => c) c
    r.tf = 0 ∧ r.ft = 0 := by
  induction l generalizing c with
  | nil => exact hc
  | cons a l ih =>
    simp only [List.zip_cons_cons, List.foldl_cons]
    apply ih
    cases nzB a <;> exact hc

/-- identical vectors have no one-sided positions. -/
theorem counts_self (x : List K) : (counts x x).tf = 0 ∧ (counts x x).ft = 0 := by
  unfold counts
  exact counts_foldl_self x _ ⟨rfl, rfl⟩

/-! ### the binary metrics on counts: symmetric, zero on identical supports, within bounds -/

theorem binary_symmetric (c : Counts) :
    (jaccardC (α := K) (Counts.swap c) = jaccardC c)
    ∧ (matchingC (α := K) (Counts.swap c) = matchingC c)
    ∧ (diceC (α := K) (Counts.swap c) = diceC c)
    ∧ (kulsinskiC (α := K) (Counts.swap c) = kulsinskiC c)
    ∧ (rogersTanimotoC (α := K) (Counts.swap c) = rogersTanimotoC c)
    ∧ (russellRaoC (α := K) (Counts.swap c) = russellRaoC c)
    ∧ (sokalMichenerC (α := K) (Counts.swap c) = sokalMichenerC c)
    ∧ (sokalSneathC (α := K) (Counts.swap c) = sokalSneathC c)
    ∧ (yuleC (α := K) (Counts.swap c) = yuleC c) := by
  have e1 : c.ft + c.tf = c.tf + c.ft := Nat.add_comm _ _
  have e2 : c.tt + c.ft + c.tf = c.tt + c.tf + c.ft := by omega
  have e3 : c.n - c.tt - c.ft - c.tf = c.n - c.tt - c.tf - c.ft := by omega
  have e4 : c.ft * c.tf = c.tf * c.ft := Nat.mul_comm _ _
  have e5 : 2 * c.ft * c.tf = 2 * c.tf * c.ft := by rw [Nat.mul_assoc, e4, ← Nat.mul_assoc]
  have e6 : (c.ft = 0 ∧ c.tf = 0) ↔ (c.tf = 0 ∧ c.ft = 0) := and_comm
  have e7 : (c.ft = 0 ∨ c.tf = 0) ↔ (c.tf = 0 ∨ c.ft = 0) := or_comm
  refine ⟨?_, ?_, ?_, ?_, ?_, ?_, ?_, ?_, ?_⟩ <;>
    (simp only [jaccardC, matchingC, diceC, kulsinskiC, rogersTanimotoC, russellRaoC, sokalMichenerC,
      sokalSneathC, yuleC, Counts.swap, Counts.neq, e1, e2, e3, e4, e5, e6, e7] <;>
     first | rfl | (split_ifs <;> rfl))

theorem binary_identity (c : Counts) (h : c.tf = 0 ∧ c.ft = 0) :
    jaccardC (α := K) c = 0 ∨ c.tt + c.tf + c.ft ≠ 0 := by
  by_cases h0 : c.tt + c.tf + c.ft = 0
  · left; unfold jaccardC; simp [h0]
  · right; exact h0

/-- on identical supports every binary metric is 0. -/
theorem binary_zero_on_identical (c : Counts) (h : c.tf = 0 ∧ c.ft = 0) :
    jaccardC (α := K) c = 0 ∧ matchingC (α := K) c = 0 ∧ diceC (α := K) c = 0
    ∧ kulsinskiC (α := K) c = 0 ∧ rogersTanimotoC (α := K) c = 0 ∧ russellRaoC (α := K) c = 0
    ∧ sokalMichenerC (α := K) c = 0 ∧ sokalSneathC (α := K) c = 0 ∧ yuleC (α := K) c = 0 := by
  obtain ⟨h1, h2⟩ := h
  refine ⟨?_, ?_, ?_, ?_, ?_, ?_, ?_, ?_, ?_⟩ <;>
    simp [jaccardC, matchingC, diceC, kulsinskiC, rogersTanimotoC, russellRaoC, sokalMichenerC,
      sokalSneathC, yuleC, Counts.neq, rat, h1, h2]

theorem rat_range {a b : Nat} (h : a ≤ b) : 0 ≤ rat (α := K) a b ∧ rat (α := K) a b ≤ 1 := by
  unfold rat
  have ha : (0 : K) ≤ a := Nat.cast_nonneg a
  have hb : (0 : K) ≤ b := Nat.cast_nonneg b
  constructor
  · exact div_nonneg ha hb
  · rcases Nat.eq_zero_or_pos b with h0 | h0
    · subst h0; simp
    · have hb' : (0 : K) < b := by exact_mod_cast h0
      rw [div_le_one hb']; exact_mod_cast h

/-- jaccard, matching, dice, kulsinski, rogers-tanimoto, russell-rao and sokal-michener lie in
    `[0, 1]` for every count vector with `tt + tf + ft ≤ n`. -/
theorem binary_unit_range (c : Counts) (hn : c.tt + c.tf + c.ft ≤ c.n) :
    (0 ≤ jaccardC (α := K) c ∧ jaccardC (α := K) c ≤ 1)
    ∧ (0 ≤ matchingC (α := K) c ∧ matchingC (α := K) c ≤ 1)
    ∧ (0 ≤ diceC (α := K) c ∧ diceC (α := K) c ≤ 1)
    ∧ (0 ≤ kulsinskiC (α := K) c ∧ kulsinskiC (α := K) c ≤ 1)
    ∧ (0 ≤ rogersTanimotoC (α := K) c ∧ rogersTanimotoC (α := K) c ≤ 1)
    ∧ (0 ≤ russellRaoC (α := K) c ∧ russellRaoC (α := K) c ≤ 1)
    ∧ (0 ≤ sokalMichenerC (α := K) c ∧ sokalMichenerC (α := K) c ≤ 1) := by
  have z : (0 : K) ≤ 0 ∧ (0 : K) ≤ 1 := ⟨le_refl _, zero_le_one⟩
  refine ⟨?_, ?_, ?_, ?_, ?_, ?_, ?_⟩
  · unfold jaccardC; simp only; split_ifs
    · exact z
    · exact rat_range (by omega)
  · unfold matchingC Counts.neq; exact rat_range (by omega)
  · unfold diceC Counts.neq; split_ifs
    · exact z
    · exact rat_range (by omega)
  · unfold kulsinskiC Counts.neq; split_ifs
    · exact z
    · exact rat_range (by omega)
  · unfold rogersTanimotoC Counts.neq; exact rat_range (by omega)
  · unfold russellRaoC; split_ifs
    · exact z
    · exact rat_range (by omega)
  · unfold sokalMichenerC Counts.neq; exact rat_range (by omega)

/-- lifted to vectors: every binary metric is symmetric and vanishes on identical arguments. -/
theorem C12_binary_axioms (x y : List K) (h : x.length = y.length) :
    jaccardC (α := K) (counts y x) = jaccardC (counts x y)
    ∧ diceC (α := K) (counts y x) = diceC (counts x y)
    ∧ yuleC (α := K) (counts y x) = yuleC (counts x y)
    ∧ russellRaoC (α := K) (counts y x) = russellRaoC (counts x y)
    ∧ jaccardC (α := K) (counts x x) = 0 ∧ yuleC (α := K) (counts x x) = 0 := by
  rw [counts_swap x y h]
  obtain ⟨a, _, b, _, _, d, _, _, e⟩ := binary_symmetric (K := K) (counts x y)
  obtain ⟨f, _, _, _, _, _, _, _, g⟩ := binary_zero_on_identical (K := K) (counts x x) (counts_self x)
  exact ⟨a, b, e, d, f, g⟩

/-! ### Minkowski family: symmetric, non-negative, zero on identical arguments -/

theorem diffs_swap_abs (x y : List K) :
    (diffs y x).map absV = (diffs x y).map absV := by
  unfold diffs
  induction x generalizing y with
  | nil => simp
  | cons a x ih =>
    cases y with
    | nil => simp
    | cons b y =>
      simp only [List.zip_cons_cons, List.map_cons, List.cons.injEq]
      refine ⟨?_, ih y⟩
      rw [absV_eq_abs, absV_eq_abs, abs_sub_comm]

theorem manhattan_symm (x y : List K) : manhattan y x = manhattan x y := by
  unfold manhattan; rw [diffs_swap_abs]

theorem chebyshev_symm (x y : List K) : chebyshev y x = chebyshev x y := by
  unfold chebyshev; rw [diffs_swap_abs]

theorem sumL_nonneg (l : List K) (h : ∀ v ∈ l, 0 ≤ v) : 0 ≤ sumL l := by
  rw [sumL_eq_sum]; exact List.sum_nonneg h

theorem manhattan_nonneg (x y : List K) : 0 ≤ manhattan x y := by
  unfold manhattan
  apply sumL_nonneg
  intro v hv
  rw [List.mem_map] at hv
  obtain ⟨d, _, rfl⟩ := hv
  rw [absV_eq_abs]; exact abs_nonneg d

theorem diffs_self (x : List K) : ∀ d ∈ diffs x x, d = 0 := by
  unfold diffs
  induction x with
  | nil => simp
  | cons a x ih =>
    intro d hd
    simp only [List.zip_cons_cons, List.map_cons, List.mem_cons] at hd
    rcases hd with rfl | hd
    · ring
    · exact ih d hd

theorem manhattan_self (x : List K) : manhattan x x = 0 := by
  unfold manhattan
  rw [sumL_eq_sum]
  apply List.sum_eq_zero
  intro v hv
  rw [List.mem_map] at hv
  obtain ⟨d, hd, rfl⟩ := hv
  rw [diffs_self x d hd, absV_eq_abs, abs_zero]

/-! ### the live registry equals the specification -/

/-- every accepted name and the function it must dispatch to. -/
def specNamed : List (String × String) := [
  ("braycurtis", "bray_curtis"), ("canberra", "canberra"), ("categorical", "categorical_distance"),
  ("chebyshev", "chebyshev"), ("correlation", "correlation"), ("cosine", "cosine"),
  ("count", "count_distance"), ("dice", "dice"), ("euclidean", "euclidean"), ("hamming", "hamming"),
  ("haversine", "haversine"), ("hellinger", "hellinger"),
  ("hierarchical_categorical", "hierarchical_categorical_distance"), ("jaccard", "jaccard"),
  ("kulsinski", "kulsinski"), ("l1", "manhattan"), ("l2", "euclidean"), ("linf", "chebyshev"),
  ("linfinity", "chebyshev"), ("linfty", "chebyshev"), ("ll_dirichlet", "ll_dirichlet"),
  ("mahalanobis", "mahalanobis"), ("manhattan", "manhattan"), ("matching", "matching"),
  ("minkowski", "minkowski"), ("ordinal", "ordinal_distance"), ("poincare", "poincare"),
  ("rogerstanimoto", "rogers_tanimoto"), ("russellrao", "russellrao"),
  ("seuclidean", "standardised_euclidean"), ("sokalmichener", "sokal_michener"),
  ("sokalsneath", "sokal_sneath"), ("standardised_euclidean", "standardised_euclidean"),
  ("string", "levenshtein"), ("symmetric_kl", "symmetric_kl"), ("taxicab", "manhattan"),
  ("weighted_minkowski", "weighted_minkowski"), ("wminkowski", "weighted_minkowski"),
  ("yule", "yule")]

/-- every specified name is wired, in the live code, to the specified function (adding a new
    alias does not break this; rewiring or deleting one does). -/
theorem C12_registry : ∀ e ∈ specNamed, e ∈ Generated.namedDistances := by decide +kernel

end C12
end Umap
