/-
  C06 — a fixed random_state makes results bit-for-bit reproducible on any schedule.

  Partial by nature: real numba / pynndescent / BLAS thread interleavings cannot be exhibited by
  a model.  What is proved: (1) the `prange` loops on the seeded path are independent of the
  order in which iterations run (any permutation gives the same array); (2) a racy loop is *not*
  (why the parallel SGD kernel must not be selected); (3) the live selection logic, regenerated
  from /repo on every run, picks the sequential kernel and one job for every seeded model
  (including the falsy seed 0); (4) the random draws of the SGD are a pure function of the seed
  triple and the first coordinate (C07's `Rng`, no hidden entropy).
-/
import UmapModel.Par
import UmapModel.Rng
import Generated.Seeded
import Mathlib.Tactic

namespace Umap
namespace C06
open Par

/-- **schedule independence**: a disjoint-write loop gives the same result for every order of
    its iterations. -/
theorem prange_schedule_independent {β : Type} (body : Nat → β) (is js : List Nat)
    (h : is.Perm js) (init : Nat → β) : parFor body is init = parFor body js init := by
  unfold parFor
  apply List.Perm.foldl_eq' h
  intro x _ y _ z
  funext c
  by_cases h1 : c = x <;> by_cases h2 : c = y <;> simp [h1, h2]
  all_goals (intro hxy; subst hxy; first | rfl | exact absurd h2 h1)

/-- in particular every schedule agrees with the sequential one. -/
theorem prange_eq_sequential {β : Type} (body : Nat → β) (n : Nat) (js : List Nat)
    (h : js.Perm (List.range n)) (init : Nat → β) :
    parFor body js init = parFor body (List.range n) init :=
  prange_schedule_independent body js (List.range n) h init

/-- and the result is what one expects: cell `i` holds `body i` for every iteration `i`. -/
theorem parFor_spec {β : Type} (body : Nat → β) (is : List Nat) (init : Nat → β) (c : Nat) :
    parFor body is init c = if c ∈ is then body c else init c := by
  unfold parFor
  induction is generalizing init with
  | nil => simp
  | cons i is ih =>
    simp only [List.foldl_cons, List.mem_cons]
    rw [ih]
    by_cases h1 : c ∈ is
    · simp [h1]
    · by_cases h2 : c = i
      · subst h2; simp [h1]
      · simp [h1, h2]

/-- a racy loop is schedule dependent: two edges moving one shared coordinate (`x ↦ x/2 + i`)
    give different results in the two orders — why the parallel SGD kernel is not reproducible. -/
theorem racy_kernel_schedule_dependent :
    racyFor (fun i (v : ℚ) => v / 2 + i) [0, 1] 8 ≠ racyFor (fun i (v : ℚ) => v / 2 + i) [1, 0] 8 := by
  decide +kernel

/-- the model's selection logic. -/
theorem seeded_selects_sequential (nJobs : Int) :
    kernelChoice true = .sequential ∧ effectiveJobs true nJobs = 1 := by
  unfold kernelChoice effectiveJobs
  by_cases h : nJobs = 1 <;> simp [h]

/-- **the live code** (table regenerated from /repo on every run): for every seeded row — seed 0
    included — one job is in force and neither `fit` nor `transform` hands the parallel flag to
    the layout optimiser; and the model's selection agrees with every row. -/
theorem live_seeded_table :
    ∀ e ∈ Generated.seededTable,
      (e.2.1 = true → e.2.2.2.1 = 1 ∧ e.2.2.2.2.1 = false ∧ e.2.2.2.2.2 = false)
      ∧ effectiveJobs e.2.1 e.2.2.1 = e.2.2.2.1
      ∧ (kernelChoice e.2.1 = .parallel ↔ e.2.2.2.2.1 = true) := by
  decide +kernel

/-- the table is not vacuous: it contains seeded rows with a non-unit job request. -/
example : ∃ e ∈ Generated.seededTable, e.2.1 = true ∧ e.2.2.1 ≠ 1 := by decide +kernel

/-- the draws of the generator are a function of the state alone (no hidden entropy). -/
theorem tau_state_pure (s t : Rng.RState) (h : s = t) : Rng.tauRandInt s = Rng.tauRandInt t := by
  rw [h]

end C06
end Umap
