/-
  C12SrcB — the machine-generated binary metrics of `Generated/DistSrc.lean` (namespace `Umap.Src`,
  translated from the source text of umap/distances.py) equal the hand-written model of
  `UmapModel/Metrics.lean`, which defines them through the natural-number support counts
  `Metrics.counts x y`.  The source accumulates the counts in floats; over an ordered field the
  accumulators are the casts of the natural counts, and `num == 0.0` is `count = 0` (characteristic 0).
  `Src.sign = signPM` holds for the fully generic scalar.
-/
import UmapModel.Metrics
import Generated.DistSrc
import UmapProofs.SrcLemmas
import Mathlib.Tactic

set_option linter.unusedSectionVars false

namespace Umap
namespace C12SrcB
open SrcLemmas Metrics

section generic
variable {α : Type} [Add α] [Sub α] [Mul α] [Div α] [Neg α] [LT α] [LE α]
  [DecidableLT α] [DecidableLE α] [OfNat α 0] [OfNat α 1] [NatCast α]

/-- `umap.distances.sign` is the model's `signPM` (any scalar type, including `Float`). -/
theorem sign_src (a : α) : Src.sign a = signPM a := by
  unfold Src.sign signPM
  rfl

end generic

section field
variable {K : Type} [Field K] [LinearOrder K] [IsStrictOrderedRing K]

theorem eqV_iff (a b : K) : eqV a b = true ↔ a = b := by
  unfold eqV
  rw [Bool.and_eq_true, decide_eq_true_eq, decide_eq_true_eq]
  exact le_antisymm_iff.symm

/-- number of positions whose support pattern `(x[i] != 0, y[i] != 0)` satisfies `g` -/
def cnt (g : Bool → Bool → Bool) (l : List (K × K)) : Nat :=
  l.countP (fun p => g (nzB p.1) (nzB p.2))

theorem cnt_cons (g : Bool → Bool → Bool) (p : K × K) (l : List (K × K)) :
    cnt g (p :: l) = cnt g l + (if g (nzB p.1) (nzB p.2) then 1 else 0) := by
  simp [cnt, List.countP_cons]

/-- a float accumulator `acc += bool` is the cast of the count -/
theorem foldl_b2s (g : Bool → Bool → Bool) (l : List (K × K)) (s : K) :
    l.foldl (fun st p => st + Src.b2s (g (!(eqV p.1 0)) (!(eqV p.2 0)))) s = s + (cnt g l : K) := by
  induction l generalizing s with
  | nil => simp [cnt]
  | cons p l ih =>
    rw [List.foldl_cons, ih, cnt_cons]
    unfold nzB Src.b2s
    split <;> simp ; ring

theorem loop1 (x y : List K) (h : x.length = y.length) (g : Bool → Bool → Bool) :
    (List.range x.length).foldl (fun (st : K) i =>
        st + Src.b2s (g (!(eqV (x.getD i 0) 0)) (!(eqV (y.getD i 0) 0)))) 0
      = (cnt g (x.zip y) : K) := by
  rw [foldl_range_getD₂ x y 0 0 h (fun st a b => st + Src.b2s (g (!(eqV a 0)) (!(eqV b 0))))]
  rw [foldl_b2s]
  simp

theorem loop2 (x y : List K) (h : x.length = y.length) (g₁ g₂ : Bool → Bool → Bool) :
    (List.range x.length).foldl (fun (st : K × K) i =>
        (st.1 + Src.b2s (g₁ (!(eqV (x.getD i 0) 0)) (!(eqV (y.getD i 0) 0))),
         st.2 + Src.b2s (g₂ (!(eqV (x.getD i 0) 0)) (!(eqV (y.getD i 0) 0))))) (0, 0)
      = ((cnt g₁ (x.zip y) : K), (cnt g₂ (x.zip y) : K)) := by
  rw [foldl_range_getD₂ x y 0 0 h (fun (st : K × K) a b =>
        (st.1 + Src.b2s (g₁ (!(eqV a 0)) (!(eqV b 0))), st.2 + Src.b2s (g₂ (!(eqV a 0)) (!(eqV b 0)))))]
  rw [foldl_pair (x.zip y)
        (fun (s : K) p => s + Src.b2s (g₁ (!(eqV p.1 0)) (!(eqV p.2 0))))
        (fun (s : K) p => s + Src.b2s (g₂ (!(eqV p.1 0)) (!(eqV p.2 0))))]
  rw [foldl_b2s, foldl_b2s]
  simp

theorem loop3 (x y : List K) (h : x.length = y.length) (g₁ g₂ g₃ : Bool → Bool → Bool) :
    (List.range x.length).foldl (fun (st : K × K × K) i =>
        (st.1 + Src.b2s (g₁ (!(eqV (x.getD i 0) 0)) (!(eqV (y.getD i 0) 0))),
         st.2.1 + Src.b2s (g₂ (!(eqV (x.getD i 0) 0)) (!(eqV (y.getD i 0) 0))),
         st.2.2 + Src.b2s (g₃ (!(eqV (x.getD i 0) 0)) (!(eqV (y.getD i 0) 0))))) (0, 0, 0)
      = ((cnt g₁ (x.zip y) : K), (cnt g₂ (x.zip y) : K), (cnt g₃ (x.zip y) : K)) := by
  rw [foldl_range_getD₂ x y 0 0 h (fun (st : K × K × K) a b =>
        (st.1 + Src.b2s (g₁ (!(eqV a 0)) (!(eqV b 0))),
         st.2.1 + Src.b2s (g₂ (!(eqV a 0)) (!(eqV b 0))),
         st.2.2 + Src.b2s (g₃ (!(eqV a 0)) (!(eqV b 0)))))]
  rw [foldl_pair (x.zip y)
        (fun (s : K) p => s + Src.b2s (g₁ (!(eqV p.1 0)) (!(eqV p.2 0))))
        (fun (s : K × K) p => (s.1 + Src.b2s (g₂ (!(eqV p.1 0)) (!(eqV p.2 0))),
                               s.2 + Src.b2s (g₃ (!(eqV p.1 0)) (!(eqV p.2 0)))))]
  rw [foldl_pair (x.zip y)
        (fun (s : K) p => s + Src.b2s (g₂ (!(eqV p.1 0)) (!(eqV p.2 0))))
        (fun (s : K) p => s + Src.b2s (g₃ (!(eqV p.1 0)) (!(eqV p.2 0))))]
  rw [foldl_b2s, foldl_b2s, foldl_b2s]
  simp

/-! ### the model's `counts` are the same position counts -/

abbrev gTT : Bool → Bool → Bool := fun a b => a && b
abbrev gTF : Bool → Bool → Bool := fun a b => a && !b
abbrev gFT : Bool → Bool → Bool := fun a b => !a && b

theorem counts_foldl (l : List (K × K)) (c : Counts) :
    l.foldl (fun (c : Counts) (p : K × K) =>
      match nzB p.1, nzB p.2 with
      | true, true => { c with tt := c.tt + 1 }
      | true, false => { c with tf := c.tf + 1 }
      | false, true => { c with ft := c.ft + 1 }
      | false, false => c) c
    = { n := c.n, tt := c.tt + cnt gTT l, tf := c.tf + cnt gTF l, ft := c.ft + cnt gFT l } := by
  induction l generalizing c with
  | nil => simp [cnt]
  | cons p l ih =>
    rw [List.foldl_cons, ih, cnt_cons, cnt_cons, cnt_cons]
    cases nzB p.1 <;> cases nzB p.2 <;> simp <;> omega

theorem counts_eq (x y : List K) :
    counts x y = { n := x.length, tt := cnt gTT (x.zip y), tf := cnt gTF (x.zip y),
                   ft := cnt gFT (x.zip y) } := by
  unfold counts
  refine (counts_foldl (x.zip y) _).trans ?_
  simp

theorem cnt_rel (l : List (K × K)) :
    cnt (fun a b => a || b) l = cnt gTT l + cnt gTF l + cnt gFT l
    ∧ cnt xor l = cnt gTF l + cnt gFT l
    ∧ cnt gTT l + cnt gTF l + cnt gFT l ≤ l.length
    ∧ cnt (fun a _ => a) l = cnt gTT l + cnt gTF l
    ∧ cnt (fun _ b => b) l = cnt gTT l + cnt gFT l := by
  induction l with
  | nil => simp [cnt]
  | cons p l ih =>
    simp only [cnt_cons, List.length_cons]
    cases nzB p.1 <;> cases nzB p.2 <;> simp <;> omega

theorem countP_fst (x y : List K) (h : x.length = y.length) :
    x.countP (fun a => !(eqV a 0)) = cnt (fun a _ => a) (x.zip y) := by
  have hx : x = (x.zip y).map Prod.fst := by
    rw [List.map_fst_zip]; omega
  conv_lhs => rw [hx]
  rw [List.countP_map]
  rfl

theorem countP_snd (x y : List K) (h : x.length = y.length) :
    y.countP (fun a => !(eqV a 0)) = cnt (fun _ b => b) (x.zip y) := by
  have hy : y = (x.zip y).map Prod.snd := by
    rw [List.map_snd_zip]; omega
  conv_lhs => rw [hy]
  rw [List.countP_map]
  rfl

theorem zip_len (x y : List K) (h : x.length = y.length) : (x.zip y).length = x.length := by
  simp [h]

/-- congruence of `if`s whose conditions are equivalent (whatever the `Decidable` instances) -/
theorem ite_congr' {p q : Prop} [Decidable p] [Decidable q] {a b c d : K}
    (hpq : p ↔ q) (h₁ : a = c) (h₂ : ¬ q → b = d) :
    (if p then a else b) = (if q then c else d) := by
  by_cases hq : q
  · rw [if_pos (hpq.mpr hq), if_pos hq, h₁]
  · rw [if_neg (fun hp => hq (hpq.mp hp)), if_neg hq, h₂ hq]

/-! ### the nine binary metrics -/

theorem matching_src (x y : List K) (h : x.length = y.length) :
    Src.matching x y = matchingC (counts x y) := by
  unfold Src.matching
  simp only []
  rw [loop1 x y h xor, counts_eq]
  obtain ⟨-, hxor, -, -, -⟩ := cnt_rel (x.zip y)
  simp [matchingC, rat, Counts.neq, hxor]

theorem rogersTanimoto_src (x y : List K) (h : x.length = y.length) :
    Src.rogersTanimoto x y = rogersTanimotoC (counts x y) := by
  unfold Src.rogersTanimoto
  simp only []
  rw [loop1 x y h xor, counts_eq]
  obtain ⟨-, hxor, -, -, -⟩ := cnt_rel (x.zip y)
  simp [rogersTanimotoC, rat, Counts.neq, hxor]

theorem sokalMichener_src (x y : List K) (h : x.length = y.length) :
    Src.sokalMichener x y = sokalMichenerC (counts x y) := by
  unfold Src.sokalMichener
  simp only []
  rw [loop1 x y h xor, counts_eq]
  obtain ⟨-, hxor, -, -, -⟩ := cnt_rel (x.zip y)
  simp [sokalMichenerC, rat, Counts.neq, hxor]

theorem jaccard_src (x y : List K) (h : x.length = y.length) :
    Src.jaccard x y = jaccardC (counts x y) := by
  unfold Src.jaccard
  simp only []
  rw [loop2 x y h (fun a b => a || b) gTT, counts_eq]
  obtain ⟨hor, -, -, -, -⟩ := cnt_rel (x.zip y)
  simp only [jaccardC, rat]
  refine ite_congr' ?_ rfl (fun hq => ?_)
  · rw [eqV_iff, hor, Nat.cast_eq_zero]
  · -- closed by normalisation in the field, so that algebraically equal forms of the ratio
    -- (`1 - eq / nnz`, `(nnz - eq) / nnz`) are all accepted
    have hne : ((cnt gTT (x.zip y) + cnt gTF (x.zip y) + cnt gFT (x.zip y) : Nat) : K) ≠ 0 := by
      exact_mod_cast hq
    rw [hor, Nat.cast_sub (by omega)] <;>
    first
      | rfl
      | (push_cast at hne ⊢; field_simp)
      | (push_cast at hne ⊢; field_simp; ring)

theorem dice_src (x y : List K) (h : x.length = y.length) :
    Src.dice x y = diceC (counts x y) := by
  unfold Src.dice
  simp only []
  rw [loop2 x y h gTT xor, counts_eq]
  obtain ⟨-, hxor, -, -, -⟩ := cnt_rel (x.zip y)
  simp only [diceC, rat, Counts.neq]
  refine ite_congr' ?_ rfl (fun _ => ?_)
  · rw [eqV_iff, hxor, Nat.cast_eq_zero]
  · rw [hxor]; push_cast; rfl

theorem kulsinski_src (x y : List K) (h : x.length = y.length) :
    Src.kulsinski x y = kulsinskiC (counts x y) := by
  unfold Src.kulsinski
  simp only []
  rw [loop2 x y h gTT xor, counts_eq]
  obtain ⟨-, hxor, hle, -, -⟩ := cnt_rel (x.zip y)
  rw [zip_len x y h] at hle
  simp only [kulsinskiC, rat, Counts.neq]
  refine ite_congr' ?_ rfl (fun _ => ?_)
  · rw [eqV_iff, hxor, Nat.cast_eq_zero]
  · rw [hxor, Nat.cast_sub (by omega)]
    push_cast
    congr 1
    ring

theorem sokalSneath_src (x y : List K) (h : x.length = y.length) :
    Src.sokalSneath x y = sokalSneathC (counts x y) := by
  unfold Src.sokalSneath
  simp only []
  rw [loop2 x y h gTT xor, counts_eq]
  obtain ⟨-, hxor, -, -, -⟩ := cnt_rel (x.zip y)
  simp only [sokalSneathC, Metrics.two, Counts.neq]
  refine ite_congr' ?_ rfl (fun _ => ?_)
  · rw [eqV_iff, hxor, Nat.cast_eq_zero]
  · rw [hxor]

theorem russellrao_src (x y : List K) (h : x.length = y.length) :
    Src.russellrao x y = russellRaoC (counts x y) := by
  unfold Src.russellrao
  simp only []
  rw [loop1 x y h gTT, counts_eq, countP_fst x y h, countP_snd x y h]
  obtain ⟨-, -, hle, hfst, hsnd⟩ := cnt_rel (x.zip y)
  rw [zip_len x y h] at hle
  simp only [russellRaoC, rat]
  refine ite_congr' ?_ rfl (fun _ => ?_)
  · rw [Bool.and_eq_true, eqV_iff, eqV_iff, hfst, hsnd, Nat.cast_inj, Nat.cast_inj]
    omega
  · rw [Nat.cast_sub (by omega)]

theorem yule_src (x y : List K) (h : x.length = y.length) :
    Src.yule x y = yuleC (counts x y) := by
  unfold Src.yule
  simp only []
  rw [loop3 x y h gTT gTF gFT, counts_eq]
  obtain ⟨-, -, hle, -, -⟩ := cnt_rel (x.zip y)
  rw [zip_len x y h] at hle
  simp only [yuleC, rat]
  refine ite_congr' ?_ rfl (fun _ => ?_)
  · rw [Bool.or_eq_true, eqV_iff, eqV_iff, Nat.cast_eq_zero, Nat.cast_eq_zero]
  · rw [Nat.cast_add, Nat.cast_mul, Nat.cast_mul, Nat.cast_mul, Nat.cast_mul,
      Nat.cast_sub (by omega), Nat.cast_sub (by omega), Nat.cast_sub (by omega)]

end field
end C12SrcB
end Umap
