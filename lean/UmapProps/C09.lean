/-
  C08 — the fitted graph does not depend on layout-stage hyperparameters.
  C09 — read-only operations leave fitted models and caller arrays untouched.

  Model: `Umap.Heap` — each API operation as a data-flow program over buffers; the theorems
  quantify over **every** alias resolution of the may-share conversion sites (a finite table,
  decided by the kernel).
-/
import UmapModel.Heap

namespace Umap
namespace C09
open Heap

/-- the layout stage never writes a protected buffer, whatever the conversions share. -/
theorem layout_frame_safe : safeForAll nProt 1 (layoutStage 0 6) = true := by decide +kernel

/-- the pinned layout stage does, when `tocoo()` shares (this SciPy): it writes buffer 1 = `graph_`. -/
theorem layout_pinned_writes_graph :
    frameSafe nProt (run (fun _ => true) (layoutStagePinned 0 6) (init nProt)) = false := by
  decide +kernel

theorem transform_frame_safe : safeForAll nProt 1 transformProg = true := by decide +kernel
theorem inverse_frame_safe : safeForAll nProt 1 inverseProg = true := by decide +kernel
theorem sub_frame_safe : safeForAll nProt 3 subProg = true := by decide +kernel
theorem addmul_frame_safe : safeForAll nProt 4 addMulProg = true := by decide +kernel
theorem update_frame_safe : safeForAll nProt 1 updateProg = true := by decide +kernel

/-- `fit` writes `graph_` / `embedding_` / `_raw_data` of *its own* model only by rebinding them
    to fresh buffers; no caller array (variables 4–8) is written under any resolution. -/
theorem fit_frame_safe : safeForAll nProt 4 fitProg = true := by decide +kernel

/-- the pinned `A - B` wrote the left operand's graph when `tocoo()` shares. -/
theorem sub_pinned_writes_left :
    frameSafe nProt (run (fun _ => true) subProgPinned (init nProt)) = false := by decide +kernel

/-- `safeForAll` really quantifies over all resolutions: for every `ρ` (as a function on the
    first `k` sites) the run is frame-safe. -/
theorem safeForAll_spec (n k : Nat) (prog : List Step) (h : safeForAll n k prog = true)
    (m : Nat) (hm : m < 2 ^ k) :
    frameSafe n (run (fun site => (m >>> site) % 2 == 1) prog (init n)) = true := by
  unfold safeForAll resolutions at h
  rw [List.all_eq_true] at h
  apply h
  exact List.mem_map.2 ⟨m, List.mem_range.2 hm, rfl⟩

/-- **C09.** every modelled operation is frame-safe for every alias resolution. -/
theorem C09_all_operations :
    safeForAll nProt 1 transformProg = true ∧ safeForAll nProt 1 inverseProg = true
    ∧ safeForAll nProt 3 subProg = true ∧ safeForAll nProt 4 addMulProg = true
    ∧ safeForAll nProt 4 fitProg = true ∧ safeForAll nProt 1 updateProg = true :=
  ⟨transform_frame_safe, inverse_frame_safe, sub_frame_safe, addmul_frame_safe, fit_frame_safe,
   update_frame_safe⟩

end C09

namespace C08
open Heap

/-- **C08.** The fitted graph is produced by the graph stage (a function of the data, the metric
    and the graph-stage parameters — layout parameters are not among its arguments) and the
    layout stage, which receives the layout parameters, writes no buffer of `graph_` under any
    alias resolution: so `graph_` is the same for all layout-stage hyperparameters. -/
theorem graph_untouched_by_layout : safeForAll nProt 1 (layoutStage 0 6) = true :=
  C09.layout_frame_safe

/-- structure of `fit`: `graph (fit g l x) = stage g x` does not mention `l`. -/
structure Cfg (G L : Type) where
  graphParams : G
  layoutParams : L

def fitGraph {G L X Gr : Type} (stage : G → X → Gr) (c : Cfg G L) (x : X) : Gr := stage c.graphParams x

theorem graph_indep_layout_params {G L X Gr : Type} (stage : G → X → Gr) (c c' : Cfg G L) (x : X)
    (h : c.graphParams = c'.graphParams) : fitGraph stage c x = fitGraph stage c' x := by
  unfold fitGraph; rw [h]

end C08
end Umap
