/-
  C04 — disconnection: no edge of the fitted graph joins two samples that are not neighbours in
  either direction, and a sample is isolated exactly when all its blended strengths vanish.

  Model: `Umap.Graph.symmetrize r A` (umap_.py `fuzzy_simplicial_set`).  `near i j` stands for
  "the distance between samples `i` and `j` is below the disconnection distance" (a symmetric
  relation); the directed matrix `A` only carries non-zero strength between near samples
  (entries at or beyond `disconnection_distance` are removed before the membership strengths are
  computed).  Everything holds over every linear ordered field.
-/
import UmapProofs.GraphLemmas
import UmapProps.C02
import Mathlib.Tactic

namespace Umap
namespace C04
open Graph

variable {K : Type} [Field K] [LinearOrder K] [IsStrictOrderedRing K]

/-- **no_far_edge**: if the directed matrix is supported on a symmetric relation `near`, so is
    the symmetrised graph (for every mix ratio `r`, no hypothesis on the values). -/
theorem no_far_edge (near : Nat → Nat → Prop) (hsymm : ∀ i j, near i j → near j i)
    (r : K) (A : Coo K) (hA : ∀ i j, lookup A i j ≠ 0 → near i j)
    (i j : Nat) (v : K) (h : (i, j, v) ∈ symmetrize r A) : near i j := by
  obtain ⟨hv, hne⟩ := C02.entry_formula r A i j v h
  rcases C02.mix_support (hv ▸ hne) with h1 | h1
  · exact hA i j h1
  · exact hsymm j i (hA j i h1)

/-- the same with the hypothesis on the stored triples of `A`. -/
theorem no_far_edge_of_stored (near : Nat → Nat → Prop) (hsymm : ∀ i j, near i j → near j i)
    (r : K) (A : Coo K) (hA : ∀ t ∈ A, near t.1 t.2.1)
    (i j : Nat) (v : K) (h : (i, j, v) ∈ symmetrize r A) : near i j := by
  apply no_far_edge near hsymm r A _ i j v h
  intro a b hab
  obtain ⟨w, hw⟩ := lookup_ne_zero_mem A a b hab
  exact hA _ hw

/-- contrapositive: two samples at or beyond the disconnection distance are never joined. -/
theorem far_not_joined (near : Nat → Nat → Prop) (hsymm : ∀ i j, near i j → near j i)
    (r : K) (A : Coo K) (hA : ∀ i j, lookup A i j ≠ 0 → near i j)
    (i j : Nat) (hfar : ¬ near i j) (v : K) : (i, j, v) ∉ symmetrize r A :=
  fun h => hfar (no_far_edge near hsymm r A hA i j v h)

/-! ### when is an edge stored? -/

/-- the stored value at a position, if any, is the blend; an edge is stored iff the blend is
    non-zero and one of the directed strengths is (the latter is implied by the former). -/
theorem edge_iff_mix_ne_zero (r : K) (A : Coo K) (i j : Nat) :
    (∃ v, (i, j, v) ∈ symmetrize r A) ↔ mix r (lookup A i j) (lookup A j i) ≠ 0 := by
  constructor
  · rintro ⟨v, h⟩
    obtain ⟨hv, hne⟩ := C02.entry_formula r A i j v h
    exact hv ▸ hne
  · intro h
    exact ⟨_, mem_symmetrize_of_ne r A i j (C02.mix_support h) h⟩

/-- for `0 < r ≤ 1` and strengths in `[0, 1]` the blend vanishes only when both strengths do. -/
theorem mix_pos_of_pos {r a b : K} (hr0 : 0 < r) (hr1 : r ≤ 1) (ha0 : 0 ≤ a) (ha1 : a ≤ 1)
    (hb0 : 0 ≤ b) (hb1 : b ≤ 1) (h : a ≠ 0 ∨ b ≠ 0) : 0 < mix r a b := by
  unfold mix
  have hab : 0 ≤ a * b := mul_nonneg ha0 hb0
  have h1 : 0 ≤ (1 - r) * (a * b) := mul_nonneg (by linarith) hab
  have h2 : 0 < a + b - a * b := by
    rcases h with h | h
    · have : 0 < a := lt_of_le_of_ne ha0 (Ne.symm h)
      nlinarith
    · have : 0 < b := lt_of_le_of_ne hb0 (Ne.symm h)
      nlinarith
  have h3 : 0 < r * (a + b - a * b) := mul_pos hr0 h2
  linarith

/-- **edge_iff (union part present, `0 < r ≤ 1`)**: an edge is stored iff either directed
    strength is non-zero. -/
theorem edge_iff_of_pos (r : K) (hr0 : 0 < r) (hr1 : r ≤ 1) (A : Coo K) (hA : C02.UnitValued A)
    (i j : Nat) :
    (∃ v, (i, j, v) ∈ symmetrize r A) ↔ (lookup A i j ≠ 0 ∨ lookup A j i ≠ 0) := by
  rw [edge_iff_mix_ne_zero]
  constructor
  · exact C02.mix_support
  · intro h
    exact ne_of_gt (mix_pos_of_pos hr0 hr1 (hA i j).1 (hA i j).2 (hA j i).1 (hA j i).2 h)

/-- **edge_iff (pure intersection, `r = 0`)**: an edge is stored iff both directed strengths are
    non-zero (no hypothesis on the values). -/
theorem edge_iff_of_zero (A : Coo K) (i j : Nat) :
    (∃ v, (i, j, v) ∈ symmetrize (0:K) A) ↔ (lookup A i j ≠ 0 ∧ lookup A j i ≠ 0) := by
  rw [edge_iff_mix_ne_zero]
  have : mix (0:K) (lookup A i j) (lookup A j i) = lookup A i j * lookup A j i := by
    unfold mix; ring
  rw [this, mul_ne_zero_iff]

/-- **isolated_iff (`0 < r ≤ 1`)**: row `i` of the fitted graph is empty iff sample `i` has no
    non-zero directed strength to or from any sample. -/
theorem isolated_iff (r : K) (hr0 : 0 < r) (hr1 : r ≤ 1) (A : Coo K) (hA : C02.UnitValued A)
    (i : Nat) :
    (∀ j v, (i, j, v) ∉ symmetrize r A) ↔ ∀ j, lookup A i j = 0 ∧ lookup A j i = 0 := by
  constructor
  · intro h j
    by_contra hc
    have : lookup A i j ≠ 0 ∨ lookup A j i ≠ 0 := by
      by_contra hn; push Not at hn; exact hc hn
    obtain ⟨v, hv⟩ := (edge_iff_of_pos r hr0 hr1 A hA i j).2 this
    exact h j v hv
  · intro h j v hv
    rcases (edge_iff_of_pos r hr0 hr1 A hA i j).1 ⟨v, hv⟩ with h1 | h1
    · exact h1 (h j).1
    · exact h1 (h j).2

/-- **isolated_iff (`r = 0`)**: with a pure intersection the row is empty iff no neighbour
    relation of `i` is reciprocated. -/
theorem isolated_iff_zero (A : Coo K) (i : Nat) :
    (∀ j v, (i, j, v) ∉ symmetrize (0:K) A) ↔ ∀ j, lookup A i j = 0 ∨ lookup A j i = 0 := by
  constructor
  · intro h j
    by_contra hc
    push Not at hc
    obtain ⟨v, hv⟩ := (edge_iff_of_zero A i j).2 hc
    exact h j v hv
  · intro h j v hv
    have := (edge_iff_of_zero A i j).1 ⟨v, hv⟩
    rcases h j with h1 | h1
    · exact this.1 h1
    · exact this.2 h1

/-- a sample all of whose neighbours are beyond the disconnection distance (its row of the
    directed matrix is zero and nobody points to it) is isolated, for every `r`. -/
theorem isolated_of_no_strength (r : K) (A : Coo K) (i : Nat)
    (h : ∀ j, lookup A i j = 0 ∧ lookup A j i = 0) (j : Nat) (v : K) :
    (i, j, v) ∉ symmetrize r A := by
  intro hv
  obtain ⟨hf, hne⟩ := C02.entry_formula r A i j v hv
  rcases C02.mix_support (hf ▸ hne) with h1 | h1
  · exact h1 (h j).1
  · exact h1 (h j).2

/-- a duplicate-free matrix whose stored values are in `[0, 1]` is `UnitValued`
    (so the hypothesis of `edge_iff_of_pos` / `isolated_iff` is checkable on the triples). -/
theorem unitValued_of_stored (A : Coo K) (hd : NoDup A) (h : ∀ t ∈ A, 0 ≤ t.2.2 ∧ t.2.2 ≤ 1) :
    C02.UnitValued A := by
  intro i j
  by_cases hz : lookup A i j = 0
  · rw [hz]; exact ⟨le_refl _, zero_le_one⟩
  · obtain ⟨v, hv⟩ := lookup_ne_zero_mem A i j hz
    rw [lookup_of_mem_nodup A hd i j v hv]
    exact h _ hv

/-- the hypothesis `≤ 1` in `edge_iff_of_pos` cannot be dropped: with non-negative but
    unbounded "strengths" `a = b = 2` the pure union `a + b - ab` cancels. -/
example : mix (1:ℚ) 2 2 = 0 := by unfold mix; norm_num

/-! ### non-vacuity over ℚ: sample 3 is disconnected -/

def exA : Coo ℚ := [(0, 1, 1), (0, 2, 1/2), (1, 0, 1/4), (2, 1, 1)]

/-- `near`: everything among samples 0,1,2. -/
def exNear (i j : Nat) : Prop := i ≤ 2 ∧ j ≤ 2

example : ∀ i j, exNear i j → exNear j i := fun _ _ h => ⟨h.2, h.1⟩

example : ∀ t ∈ exA, exNear t.1 t.2.1 := by unfold exNear; decide +kernel

example : C02.UnitValued exA :=
  unitValued_of_stored exA (by unfold NoDup; decide +kernel) (by decide +kernel)

example : (2, 0, (1/2:ℚ)) ∈ symmetrize (1:ℚ) exA := by decide +kernel
example : ∀ t ∈ symmetrize (1:ℚ) exA, t.1 ≠ 3 ∧ t.2.1 ≠ 3 := by decide +kernel
example : (2, 0, (1/2:ℚ)) ∉ symmetrize (0:ℚ) exA := by decide +kernel
example : symmetrize (0:ℚ) exA = [(0, 1, 1/4), (1, 0, 1/4)] := by decide +kernel

end C04
end Umap
