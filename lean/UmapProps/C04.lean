/-
  C04 — disconnection: no edge of the fitted graph joins two samples that are not neighbours in
  either direction, and a sample is isolated exactly when all its blended strengths vanish.

  Model: `Umap.Graph.symmetrize r A` (umap_.py `fuzzy_simplicial_set`).  `near i j` stands for
  "the distance between samples `i` and `j` is below the disconnection distance" (a symmetric
  relation); the directed matrix `A` only carries non-zero strength between near samples
  (entries at or beyond `disconnection_distance` are removed before the membership strengths are
  computed).  Everything holds over every linear ordered field.
-/
import UmapProofs.GraphLemmas
import UmapProps.C02
import Mathlib.Tactic

namespace Umap
namespace C04
open Graph

variable {K : Type} [Field K] [LinearOrder K] [IsStrictOrderedRing K]

/-- **no_far_edge**: if the directed matrix is supported on a symmetric relation `near`, so is
    the symmetrised graph (for every mix ratio `r`, no hypothesis on the values). -/
theorem no_far_edge (near : Nat → Nat → Prop) (hsymm : ∀ i j, near i j → near j i)
    (r : K) (A : Coo K) (hA : ∀ i j, lookup A i j ≠ 0 → near i j)
    (i j : Nat) (v : K) (h : (i, j, v) ∈ symmetrize r A) : near i j := by
  obtain ⟨hv, hne⟩ := C02.entry_formula r A i j v h
  rcases C02.mix_support (hv ▸ hne) with h1 | h1
  · exact hA i j h1
  · exact hsymm j i (hA j i h1)

/-- the same with the hypothesis on the stored triples of `A`. -/
theorem no_far_edge_of_stored (near : Nat → Nat → Prop) (hsymm : ∀ i j, near i j → near j i)
    (r : K) (A : Coo K) (hA : ∀ t ∈ A, near t.1 t.2.1)
    (i j : Nat) (v : K) (h : (i, j, v) ∈ symmetrize r A) : near i j := by
  apply no_far_edge near hsymm r A _ i j v h
  intro a b hab
  obtain ⟨w, hw⟩ := lookup_ne_zero_mem A a b hab
  exact hA _ hw

/-- contrapositive: two samples at or beyond the disconnection distance are never joined. -/
theorem far_not_joined (near : Nat → Nat → Prop) (hsymm : ∀ i j, near i j → near j i)
    (r : K) (A : Coo K) (hA : ∀ i j, lookup A i j ≠ 0 → near i j)
    (i j : Nat) (hfar : ¬ near i j) (v : K) : (i, j, v) ∉ symmetrize r A :=
  fun h => hfar (no_far_edge near hsymm r A hA i j v h)

/-! ### when is an edge stored? -/

/-- the stored value at a position, if any, is the blend; an edge is stored iff the blend is
    non-zero and one of the directed strengths is (the latter is implied by the former). -/
theorem edge_iff_mix_ne_zero (r : K) (A : Coo K) (i j : Nat) :
    (∃ v, (i, j, v) ∈ symmetrize r A) ↔ mix r (lookup A i j) (lookup A j i) ≠ 0 := by
  constructor
  · rintro ⟨v, h⟩
    obtain ⟨hv, hne⟩ := C02.entry_formula r A i j v h
    exact hv ▸ hne
  · intro h
    exact ⟨_, mem_symmetrize_of_ne r A i j (C02.mix_support h) h⟩

/-- for `0 < r ≤ 1` and strengths in `[0, 1]` the blend vanishes only when both strengths do. -/
theorem mix_pos_of_pos {r a b : K} (hr0 : 0 < r) (hr1 : r ≤ 1) (ha0 : 0 ≤ a) (ha1 : a ≤ 1)
    (hb0 : 0 ≤ b) (hb1 : b ≤ 1) (h : a ≠ 0 ∨ b ≠ 0) : 0 < mix r a b := by
  unfold mix
  have hab : 0 ≤ a * b := mul_nonneg ha0 hb0
  have h1 : 0 ≤ (1 - r) * (a * b) := mul_nonneg (by linarith) hab
  have h2 : 0 < a + b - a * b := by
    rcases h with h | h
    · have : 0 < a := lt_of_le_of_ne ha0 (Ne.symm h)
      nlinarith
    · have : 0 < b := lt_of_le_of_ne hb0 (Ne.symm h)
      nlinarith
  have h3 : 0 < r * (a + b - a * b) := mul_pos hr0 h2
  linarith

/-- **edge_iff (union part present, `0 < r ≤ 1`)**: an edge is stored iff either directed
    strength is non-zero. -/
theorem edge_iff_of_pos (r : K) (hr0 : 0 < r) (hr1 : r ≤ 1) (A : Coo K) (hA : C02.UnitValued A)
    (i j : Nat) :
    (∃ v, (i, j, v) ∈ symmetrize r A) ↔ (lookup A i j ≠ 0 ∨ lookup A j i ≠ 0) := by
  rw [edge_iff_mix_ne_zero]
  constructor
  · exact C02.mix_support
  · intro h
    exact ne_of_gt (mix_pos_of_pos hr0 hr1 (hA i j).1 (hA i j).2 (hA j i).1 (hA j i).2 h)

/-- **edge_iff (pure intersection, `r = 0`)**: an edge is stored iff both directed strengths are
    non-zero (no hypothesis on the values). -/
theorem edge_iff_of_zero (A : Coo K) (i j : Nat) :
    (∃ v, (i, j, v) ∈ symmetrize (0:K) A) ↔ (lookup A i j ≠ 0 ∧ lookup A j i ≠ 0) := by
  rw [edge_iff_mix_ne_zero]
  have : mix (0:K) (lookup A i j) (lookup A j i) = lookup A i j * lookup A j i := by
    unfold mix; ring
  rw [this, mul_ne_zero_iff]

/-- **isolated_iff (`0 < r ≤ 1`)**: row `i` of the fitted graph is empty iff sample `i` has no
    non-zero directed strength to or from any sample. -/
theorem isolated_iff (r : K) (hr0 : 0 < r) (hr1 : r ≤ 1) (A : Coo K) (hA : C02.UnitValued A)
    (i : Nat) :
    (∀ j v, (i, j, v) ∉ symmetrize r A) ↔ ∀ j, lookup A i j = 0 ∧ lookup A j i = 0 := by
  constructor
  · intro h j
    by_contra hc
    have : lookup A i j ≠ 0 ∨ lookup A j i ≠ 0 := by
      by_contra hn; push Not at hn; exact hc hn
    obtain ⟨v, hv⟩ := (edge_iff_of_pos r hr0 hr1 A hA i j).2 this
    exact h j v hv
  · intro h j v hv
    rcases (edge_iff_of_pos r hr0 hr1 A hA i j).1 ⟨v, hv⟩ with h1 | h1
    · exact h1 (h j).1
    · exact h1 (h j).2

/-- **isolated_iff (`r = 0`)**: with a pure intersection the row is empty iff no neighbour
    relation of `i` is reciprocated. -/
theorem isolated_iff_zero (A : Coo K) (i : Nat) :
    (∀ j v, (i, j, v) ∉ symmetrize (0:K) A) ↔ ∀ j, lookup A i j = 0 ∨ lookup A j i = 0 := by
  constructor
  · intro h j
    by_contra hc
    push Not at hc
    obtain ⟨v, hv⟩ := (edge_iff_of_zero A i j).2 hc
    exact h j v hv
  · intro h j v hv
    have := (edge_iff_of_zero A i j).1 ⟨v, hv⟩
    rcases h j with h1 | h1
    · exact this.1 h1
    · exact this.2 h1

/-- a sample all of whose neighbours are beyond the disconnection distance (its row of the
    directed matrix is zero and nobody points to it) is isolated, for every `r`. -/
theorem isolated_of_no_strength (r : K) (A : Coo K) (i : Nat)
    (h : ∀ j, lookup A i j = 0 ∧ lookup A j i = 0) (j : Nat) (v : K) :
    (i, j, v) ∉ symmetrize r A := by
  intro hv
  obtain ⟨hf, hne⟩ := C02.entry_formula r A i j v hv
  rcases C02.mix_support (hf ▸ hne) with h1 | h1
  · exact h1 (h j).1
  · exact h1 (h j).2

/-- a duplicate-free matrix whose stored values are in `[0, 1]` is `UnitValued`
    (so the hypothesis of `edge_iff_of_pos` / `isolated_iff` is checkable on the triples). -/
theorem unitValued_of_stored (A : Coo K) (hd : NoDup A) (h : ∀ t ∈ A, 0 ≤ t.2.2 ∧ t.2.2 ≤ 1) :
    C02.UnitValued A := by
  intro i j
  by_cases hz : lookup A i j = 0
  · rw [hz]; exact ⟨le_refl _, zero_le_one⟩
  · obtain ⟨v, hv⟩ := lookup_ne_zero_mem A i j hz
    rw [lookup_of_mem_nodup A hd i j v hv]
    exact h _ hv

/-- the hypothesis `≤ 1` in `edge_iff_of_pos` cannot be dropped: with non-negative but
    unbounded "strengths" `a = b = 2` the pure union `a + b - ab` cancels. -/
example : mix (1:ℚ) 2 2 = 0 := by unfold mix; norm_num

/-! ### non-vacuity over ℚ: sample 3 is disconnected -/

def exA : Coo ℚ := [(0, 1, 1), (0, 2, 1/2), (1, 0, 1/4), (2, 1, 1)]

/-- `near`: everything among samples 0,1,2. -/
def exNear (i j : Nat) : Prop := i ≤ 2 ∧ j ≤ 2

example : ∀ i j, exNear i j → exNear j i := fun _ _ h => ⟨h.2, h.1⟩

example : ∀ t ∈ exA, exNear t.1 t.2.1 := by unfold exNear; decide +kernel

example : C02.UnitValued exA :=
  unitValued_of_stored exA (by unfold NoDup; decide +kernel) (by decide +kernel)

example : (2, 0, (1/2:ℚ)) ∈ symmetrize (1:ℚ) exA := by decide +kernel
example : ∀ t ∈ symmetrize (1:ℚ) exA, t.1 ≠ 3 ∧ t.2.1 ≠ 3 := by decide +kernel
example : (2, 0, (1/2:ℚ)) ∉ symmetrize (0:ℚ) exA := by decide +kernel
example : symmetrize (0:ℚ) exA = [(0, 1, 1/4), (1, 0, 1/4)] := by decide +kernel

/-! ### `init_graph_transform`: where a new point starts (umap_.py `init_graph_transform`)

  `row` is the new point's row of the bipartite graph, as `(training index, strength)` pairs;
  `emb i` is the position of training point `i`. -/

/-- **init_nan_iff**: a new point gets the all-NaN initialisation exactly when its graph row is
    empty, i.e. when it has no neighbour within the disconnection distance. -/
theorem init_nan_iff (row : List (Nat × K)) (emb : Nat → List K) (dim : Nat) :
    initGraphTransformRow row emb dim = none ↔ row = [] := by
  unfold initGraphTransformRow
  constructor
  · intro h
    by_cases hl : row.length = 0
    · exact List.length_eq_zero_iff.1 hl
    · rw [if_neg hl] at h
      cases hf : row.find? (fun p => eqV p.2 1) <;> rw [hf] at h <;> simp at h
  · rintro rfl; simp

/-- **init_copy**: if the row has an entry of strength exactly 1, the result is the position of a
    training point with strength exactly 1 (the first one in the row). -/
theorem init_copy (row : List (Nat × K)) (emb : Nat → List K) (dim : Nat)
    (p : Nat × K) (hp : p ∈ row) (h1 : p.2 = 1) :
    ∃ q ∈ row, q.2 = 1 ∧ initGraphTransformRow row emb dim = some (emb q.1) := by
  unfold initGraphTransformRow
  have hl : ¬ row.length = 0 := by
    intro h; rw [List.length_eq_zero_iff] at h; subst h; simp at hp
  rw [if_neg hl]
  cases hf : row.find? (fun p => eqV p.2 1) with
  | none =>
    rw [List.find?_eq_none] at hf
    exact absurd ((eqV_iff _ _).2 h1) (hf p hp)
  | some q =>
    have hq := List.find?_some hf
    exact ⟨q, List.mem_of_find?_eq_some hf, (eqV_iff _ _).1 hq, rfl⟩

/-- when the unit-strength entry is unique, the new point starts exactly at that training point. -/
theorem init_copy_unique (row : List (Nat × K)) (emb : Nat → List K) (dim : Nat)
    (p : Nat × K) (hp : p ∈ row) (h1 : p.2 = 1) (hu : ∀ q ∈ row, q.2 = 1 → q.1 = p.1) :
    initGraphTransformRow row emb dim = some (emb p.1) := by
  obtain ⟨q, hq, hq1, h⟩ := init_copy row emb dim p hp h1
  rw [h, hu q hq hq1]

private theorem weighted_sum_bounds (s lo hi : K) (hs : 0 < s) (x : Nat → K) (row : List (Nat × K))
    (hw : ∀ p ∈ row, 0 < p.2) (hx : ∀ p ∈ row, lo ≤ x p.1 ∧ x p.1 ≤ hi) :
    sumL (row.map (·.2)) / s * lo ≤ sumL (row.map (fun p => p.2 / s * x p.1))
    ∧ sumL (row.map (fun p => p.2 / s * x p.1)) ≤ sumL (row.map (·.2)) / s * hi := by
  induction row with
  | nil => simp
  | cons p row ih =>
    simp only [List.map_cons, sumL_cons]
    obtain ⟨ih1, ih2⟩ := ih (fun q hq => hw q (List.mem_cons_of_mem _ hq))
      (fun q hq => hx q (List.mem_cons_of_mem _ hq))
    have hp : 0 < p.2 / s := div_pos (hw p List.mem_cons_self) hs
    obtain ⟨hlo, hhi⟩ := hx p List.mem_cons_self
    have e1 : (p.2 + sumL (row.map (·.2))) / s * lo = p.2 / s * lo + sumL (row.map (·.2)) / s * lo := by
      ring
    have e2 : (p.2 + sumL (row.map (·.2))) / s * hi = p.2 / s * hi + sumL (row.map (·.2)) / s * hi := by
      ring
    rw [e1, e2]
    constructor
    · have := mul_le_mul_of_nonneg_left hlo (le_of_lt hp); linarith
    · have := mul_le_mul_of_nonneg_left hhi (le_of_lt hp); linarith

private theorem sum_weights_pos (row : List (Nat × K)) (hne : row ≠ [])
    (hw : ∀ p ∈ row, 0 < p.2) : 0 < sumL (row.map (·.2)) := by
  have hnn : ∀ l : List (Nat × K), (∀ p ∈ l, 0 < p.2) → 0 ≤ sumL (l.map (·.2)) := by
    intro l hl
    induction l with
    | nil => simp
    | cons p l ih =>
      simp only [List.map_cons, sumL_cons]
      have := hl p List.mem_cons_self
      have := ih (fun q hq => hl q (List.mem_cons_of_mem _ hq))
      linarith
  cases row with
  | nil => exact absurd rfl hne
  | cons p row =>
    simp only [List.map_cons, sumL_cons]
    have := hw p List.mem_cons_self
    have := hnn row (fun q hq => hw q (List.mem_cons_of_mem _ hq))
    linarith

/--
  **init_convex** (weighted mean).  For a non-empty row with positive strengths and no entry of
  strength exactly 1, the result is a `dim`-vector each of whose coordinates lies between any
  lower and upper bound of the neighbours' coordinates — in particular between their minimum and
  their maximum (`init_convex_min_max`).
-/
theorem init_convex (row : List (Nat × K)) (emb : Nat → List K) (dim : Nat) (hne : row ≠ [])
    (hw : ∀ p ∈ row, 0 < p.2) (hno : ∀ p ∈ row, p.2 ≠ 1) :
    ∃ out, initGraphTransformRow row emb dim = some out ∧ out.length = dim ∧
      ∀ d (hd : d < out.length) (lo hi : K),
        (∀ p ∈ row, lo ≤ (emb p.1).getD d 0 ∧ (emb p.1).getD d 0 ≤ hi) →
        lo ≤ out[d] ∧ out[d] ≤ hi := by
  unfold initGraphTransformRow
  have hl : ¬ row.length = 0 := by
    intro h; exact hne (List.length_eq_zero_iff.1 h)
  rw [if_neg hl]
  have hf : row.find? (fun p => eqV p.2 1) = none := by
    rw [List.find?_eq_none]
    intro p hp h; exact hno p hp ((eqV_iff _ _).1 h)
  rw [hf]
  refine ⟨_, rfl, by simp, ?_⟩
  intro d hd lo hi hb
  have hs := sum_weights_pos row hne hw
  obtain ⟨b1, b2⟩ := weighted_sum_bounds (sumL (row.map (·.2))) lo hi hs
    (fun i => (emb i).getD d 0) row hw hb
  rw [div_self (ne_of_gt hs), one_mul] at b1 b2
  simp only [List.length_map, List.length_range] at hd
  simp only [List.getElem_map, List.getElem_range]
  exact ⟨b1, b2⟩

/-- the same with the explicit running minimum and maximum of the neighbours' `d`-th coordinates. -/
theorem init_convex_min_max (row : List (Nat × K)) (emb : Nat → List K) (dim : Nat) (hne : row ≠ [])
    (hw : ∀ p ∈ row, 0 < p.2) (hno : ∀ p ∈ row, p.2 ≠ 1) :
    ∃ out, initGraphTransformRow row emb dim = some out ∧ out.length = dim ∧
      ∀ d (hd : d < out.length),
        let cs := row.map (fun p => (emb p.1).getD d 0)
        minL (cs.headD 0) cs ≤ out[d] ∧ out[d] ≤ maxL (cs.headD 0) cs := by
  obtain ⟨out, h1, h2, h3⟩ := init_convex row emb dim hne hw hno
  refine ⟨out, h1, h2, ?_⟩
  intro d hd cs
  apply h3 d hd
  intro p hp
  have hm : (emb p.1).getD d 0 ∈ cs := List.mem_map.2 ⟨p, hp, rfl⟩
  refine ⟨?_, le_maxL _ _ _ hm⟩
  -- the running minimum is below every element
  have minL_le : ∀ (init : K) (xs : List K) (x : K), x ∈ xs → minL init xs ≤ x := by
    intro init xs
    induction xs generalizing init with
    | nil => intro x hx; simp at hx
    | cons y xs ih =>
      intro x hx
      rw [minL_cons]
      have hle : ∀ (i : K) (l : List K), minL i l ≤ i := by
        intro i l
        induction l generalizing i with
        | nil => exact le_refl _
        | cons z l ih2 =>
          rw [minL_cons]
          refine le_trans (ih2 _) ?_
          split_ifs with h
          · exact le_of_lt h
          · exact le_refl _
      rcases List.mem_cons.1 hx with rfl | h
      · refine le_trans (hle _ _) ?_
        split_ifs with h
        · exact le_refl _
        · exact not_lt.1 h
      · exact ih _ x h
  exact minL_le _ _ _ hm

/-! non-vacuity over ℚ: two neighbours with strengths 1/2 and 1/4 in the plane. -/

def exEmb : Nat → List ℚ := fun i => if i = 0 then [0, 3] else if i = 1 then [3, 0] else [9, 9]

example : initGraphTransformRow [(0, (1/2:ℚ)), (1, 1/4)] exEmb 2 = some [1, 2] := by decide +kernel
example : initGraphTransformRow [(0, (1/2:ℚ)), (2, 1), (1, 1/4)] exEmb 2 = some [9, 9] := by
  decide +kernel
example : initGraphTransformRow ([] : List (Nat × ℚ)) exEmb 2 = none := by decide +kernel
example : ([(0, (1/2:ℚ)), (1, 1/4)] : List (Nat × ℚ)) ≠ [] ∧
    (∀ p ∈ ([(0, (1/2:ℚ)), (1, 1/4)] : List (Nat × ℚ)), 0 < p.2) ∧
    (∀ p ∈ ([(0, (1/2:ℚ)), (1, 1/4)] : List (Nat × ℚ)), p.2 ≠ 1) := by decide +kernel

end C04
end Umap
