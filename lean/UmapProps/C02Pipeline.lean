/-
  C02 (pipeline) — the graph stage end to end: from a kNN table to the fitted graph.

  Model: `Umap.Graph.graphOfKnn` = `smooth_knn_dist` + `compute_membership_strengths`
  (`Graph.memberRows`) → COO assembly with NaN check and `eliminate_zeros` (`Graph.assemble`) →
  fuzzy union / intersection blend (`Graph.symmetrize`), instantiated at ℝ with `realT`.

  For every *valid* kNN table (what umap's kNN stage produces: per row distinct neighbour
  indices, index `-1` exactly where the distance is `inf`) and every parameter setting for which
  no rho is NaN (always the case for an integral `local_connectivity ≥ 1`, in particular the
  default 1.0 — `rho_ne_nan_integral`):
    * the directed matrix is assembled (no NaN strength), has no duplicate position, and its
      value at `(i, j)` is the single membership strength of neighbour `j` in row `i` (or 0);
    * every stored entry `(i, j, v)` of the fitted graph has `0 < v ≤ 1`, its mirror `(j, i, v)`
      is stored, `i ≠ j`, and `j` is one of the listed neighbours of `i` or `i` one of `j`'s.
-/
import UmapProofs.AssembleLemmas
import UmapProofs.RealT
import UmapProps.C01
import UmapProps.C02
import UmapProps.C04
import UmapProps.C20
import Mathlib.Tactic

namespace Umap
namespace C02
open Graph Knn

/-! ### valid kNN tables -/

/--
  A well-formed kNN table `(knn_indices, knn_dists)`; `none` encodes index `-1` / distance `inf`.
  Every clause holds for the tables umap builds (nearest-neighbour descent or the precomputed
  path, followed by the disconnection step
  `knn_indices[knn_dists >= disconnection_distance] = -1; knn_dists[...] = inf`):
   * the two tables have the same number of rows and all rows have the same number `k` of columns;
   * within a row the non-skipped neighbour indices are pairwise distinct;
   * at every position the index is skipped (`-1`) iff the distance is `inf`
     (`ix.zip d` pairs the entries of row `i` position by position).
-/
structure ValidTable (idx : List (List (Option Nat))) (ds : List (List (Option ℝ))) : Prop where
  rows_eq : idx.length = ds.length
  cols_eq : ∃ k, (∀ ix ∈ idx, ix.length = k) ∧ (∀ d ∈ ds, d.length = k)
  distinct : ∀ ix ∈ idx, (ix.filterMap id).Nodup
  skip_iff : ∀ (i : Nat) (ix : List (Option Nat)) (d : List (Option ℝ)),
    idx[i]? = some ix → ds[i]? = some d →
    ∀ p ∈ ix.zip d, (p.1 = none ↔ p.2 = none)

/-- no row's rho is NaN (`inf - inf` in the interpolation, or `0 * inf`). -/
def NoNanRho (tol : ℝ) (lcIdx : Nat) (lcFrac : ℝ) (ds : List (List (Option ℝ))) : Prop :=
  ∀ d ∈ ds, rho tol lcIdx lcFrac d ≠ .nan

/-- for an integral `local_connectivity ≥ 1` (the default is `1.0`) rho is never NaN, whatever
    the row (sorted or not, with or without `inf` entries). -/
theorem rho_ne_nan_integral (tol : ℝ) (htol : 0 ≤ tol) (lcIdx : Nat) (hlc : 0 < lcIdx)
    (row : List (Option ℝ)) : rho tol lcIdx 0 row ≠ .nan := by
  unfold rho
  simp only [hlc, if_true, not_lt.2 htol, if_false]
  split_ifs
  · cases h : (nzDists row)[lcIdx - 1]? with
    | none => simp
    | some a => cases a <;> simp [ofOpt]
  · unfold maxExt; split_ifs <;> simp
  · simp

theorem noNanRho_integral (tol : ℝ) (htol : 0 ≤ tol) (lcIdx : Nat) (hlc : 0 < lcIdx)
    (ds : List (List (Option ℝ))) : NoNanRho tol lcIdx 0 ds :=
  fun d _ => rho_ne_nan_integral tol htol lcIdx hlc d

/-- likewise for `local_connectivity` in `(0, 1)` (`lcIdx = 0`, `0 < lcFrac`). -/
theorem rho_ne_nan_fractional (tol lcFrac : ℝ) (hf : 0 < lcFrac) (row : List (Option ℝ)) :
    rho tol 0 lcFrac row ≠ .nan := by
  unfold rho
  simp only [lt_irrefl, if_false, hf, if_true]
  split_ifs
  · cases h : (nzDists row)[0]? with
    | none => simp
    | some a => cases a <;> simp
  · unfold maxExt; split_ifs <;> simp
  · simp

/-! ### the directed strengths -/

section
variable (tol minScale target : ℝ) (lcIdx : Nat) (lcFrac : ℝ) (nIter : Nat)

/-- bandwidth and rho of the distance row `d` of the table `ds` (`smooth_knn_dist`). -/
noncomputable def sigmaRho (ds : List (List (Option ℝ))) (d : List (Option ℝ)) : ℝ × Ext ℝ :=
  smoothKnnRow realT tol minScale target lcIdx lcFrac nIter (finiteMean ds.flatten) d

/-- membership strength of a neighbour at finite distance `x`, for bandwidth `σ` and a non-NaN
    rho (`rho = inf`: `x - inf ≤ 0`, strength 1). -/
noncomputable def strengthOf (σ : ℝ) (ρ : Ext ℝ) (x : ℝ) : ℝ :=
  match ρ with
  | .fin r => member realT x r σ
  | _ => 1

/-- the directed membership strength of `j` in the fuzzy neighbourhood of `i`: `0` on the
    diagonal and when `j` is not listed in row `i`, else the strength of the (unique) column of
    row `i` that holds `j`. -/
noncomputable def dirStrength (idx : List (List (Option Nat))) (ds : List (List (Option ℝ)))
    (i j : Nat) : ℝ :=
  if i = j then 0 else
  match idx[i]?, ds[i]? with
  | some ix, some d =>
    match (ix.zip d).find? (fun p => p.1 == some j) with
    | some (_, some x) =>
        strengthOf (sigmaRho tol minScale target lcIdx lcFrac nIter ds d).1
          (sigmaRho tol minScale target lcIdx lcFrac nIter ds d).2 x
    | _ => 0
  | _, _ => 0

theorem sigma_pos (ds : List (List (Option ℝ))) (d : List (Option ℝ)) :
    0 < (sigmaRho tol minScale target lcIdx lcFrac nIter ds d).1 :=
  (C01.C01_sigma_pos_floor tol minScale target lcIdx lcFrac nIter (finiteMean ds.flatten) d).1

theorem strengthOf_range {σ : ℝ} (hσ : 0 < σ) (ρ : Ext ℝ) (x : ℝ) :
    0 < strengthOf σ ρ x ∧ strengthOf σ ρ x ≤ 1 := by
  cases ρ with
  | fin r => exact C01.member_range hσ
  | inf => exact ⟨one_pos, le_refl _⟩
  | nan => exact ⟨one_pos, le_refl _⟩

theorem memberExt_eq_strengthOf (σ : ℝ) (ρ : Ext ℝ) (x : ℝ) (hρ : ρ ≠ .nan) :
    memberExt realT x ρ σ = some (strengthOf σ ρ x) := by
  cases ρ with
  | fin r => rfl
  | inf => rfl
  | nan => exact absurd rfl hρ

/-- the entries of one row: under the validity conditions each is skipped, the self entry with
    strength 0, or a listed neighbour with its strength. -/
theorem memberEntry_valid (self : Nat) (σ : ℝ) (ρ : Ext ℝ) (hρ : ρ ≠ .nan)
    (p : Option Nat × Option ℝ) (hp : p.1 = none ↔ p.2 = none) :
    memberEntry realT self σ ρ p =
      match p with
      | (some c, some x) => if c = self then some (c, some 0) else some (c, some (strengthOf σ ρ x))
      | _ => none := by
  obtain ⟨c, x⟩ := p
  cases c with
  | none => rfl
  | some c =>
    cases x with
    | none => simp at hp
    | some x =>
      unfold memberEntry
      simp only
      split_ifs
      · rfl
      · rw [memberExt_eq_strengthOf σ ρ x hρ]

/-- **the stored triples of the directed matrix**: `(i, j, v)` is stored iff `i ≠ j`, `j` is
    listed in row `i` at a position with finite distance `x`, and `v` is the strength of `x`. -/
theorem mem_assembled_memberRows (idx : List (List (Option Nat))) (ds : List (List (Option ℝ)))
    (hv : ValidTable idx ds) (hn : NoNanRho tol lcIdx lcFrac ds) (i j : Nat) (v : ℝ) :
    (i, j, v) ∈ assembled (memberRows realT tol minScale target lcIdx lcFrac nIter idx ds) ↔
      i ≠ j ∧ ∃ ix d x, idx[i]? = some ix ∧ ds[i]? = some d ∧ (some j, some x) ∈ ix.zip d ∧
        v = strengthOf (sigmaRho tol minScale target lcIdx lcFrac nIter ds d).1
              (sigmaRho tol minScale target lcIdx lcFrac nIter ds d).2 x := by
  rw [mem_assembled]
  unfold sigmaRho
  have hnan : ∀ d ∈ ds, (smoothKnnRow realT tol minScale target lcIdx lcFrac nIter
      (finiteMean ds.flatten) d).2 ≠ .nan := hn
  constructor
  · rintro ⟨hne, row, hrow, hmem⟩
    obtain ⟨ix, d, hix, hd, rfl⟩ :=
      (memberRows_getElem? realT tol minScale target lcIdx lcFrac nIter idx ds i row).1 hrow
    rw [memberRow_eq, List.mem_map] at hmem
    obtain ⟨p, hp, he⟩ := hmem
    have hρ := hnan d (List.mem_of_getElem? hd)
    rw [memberEntry_valid i _ _ hρ p (hv.skip_iff i ix d hix hd p hp)] at he
    obtain ⟨c, x⟩ := p
    cases c with
    | none => simp at he
    | some c =>
      cases x with
      | none => simp at he
      | some x =>
        simp only at he
        split_ifs at he with hc
        · simp only [Option.some.injEq, Prod.mk.injEq] at he
          exact absurd he.2.symm hne
        · simp only [Option.some.injEq, Prod.mk.injEq] at he
          obtain ⟨rfl, rfl⟩ := he
          exact ⟨fun h => hc h.symm, ix, d, x, hix, hd, hp, rfl⟩
  · rintro ⟨hij, ix, d, x, hix, hd, hp, rfl⟩
    have hρ := hnan d (List.mem_of_getElem? hd)
    refine ⟨ne_of_gt (strengthOf_range (sigma_pos tol minScale target lcIdx lcFrac nIter ds d) _ x).1,
      _, (memberRows_getElem? realT tol minScale target lcIdx lcFrac nIter idx ds i _).2
        ⟨ix, d, hix, hd, rfl⟩, ?_⟩
    rw [memberRow_eq, List.mem_map]
    refine ⟨(some j, some x), hp, ?_⟩
    rw [memberEntry_valid i _ _ hρ _ (by simp)]
    simp only
    rw [if_neg (fun h => hij h.symm)]

/-- no strength of a valid table is NaN. -/
theorem noNan_memberRows (idx : List (List (Option Nat))) (ds : List (List (Option ℝ)))
    (hv : ValidTable idx ds) (hn : NoNanRho tol lcIdx lcFrac ds) :
    NoNan (memberRows realT tol minScale target lcIdx lcFrac nIter idx ds) := by
  intro row hrow c hc
  obtain ⟨i, hi⟩ := List.getElem?_of_mem hrow
  obtain ⟨ix, d, hix, hd, rfl⟩ :=
    (memberRows_getElem? realT tol minScale target lcIdx lcFrac nIter idx ds i row).1 hi
  rw [memberRow_eq, List.mem_map] at hc
  obtain ⟨p, hp, he⟩ := hc
  have hρ : (smoothKnnRow realT tol minScale target lcIdx lcFrac nIter
      (finiteMean ds.flatten) d).2 ≠ .nan := hn d (List.mem_of_getElem? hd)
  rw [memberEntry_valid i _ _ hρ p (hv.skip_iff i ix d hix hd p hp)] at he
  obtain ⟨a, x⟩ := p
  cases a with
  | none => simp at he
  | some a =>
    cases x with
    | none => simp at he
    | some x =>
      simp only at he
      split_ifs at he <;> simp at he

/-- no position of the directed matrix is stored twice. -/
theorem nodup_memberRows (idx : List (List (Option Nat))) (ds : List (List (Option ℝ)))
    (hv : ValidTable idx ds) :
    NoDup (assembled (memberRows realT tol minScale target lcIdx lcFrac nIter idx ds)) := by
  apply nodup_assembled
  intro row hrow
  obtain ⟨i, hi⟩ := List.getElem?_of_mem hrow
  obtain ⟨ix, d, hix, hd, rfl⟩ :=
    (memberRows_getElem? realT tol minScale target lcIdx lcFrac nIter idx ds i row).1 hi
  exact rowDistinct_memberRow realT i _ _ ix d (hv.distinct ix (List.mem_of_getElem? hix))

theorem dirStrength_range (idx : List (List (Option Nat))) (ds : List (List (Option ℝ)))
    (i j : Nat) :
    0 ≤ dirStrength tol minScale target lcIdx lcFrac nIter idx ds i j
    ∧ dirStrength tol minScale target lcIdx lcFrac nIter idx ds i j ≤ 1 := by
  unfold dirStrength
  split_ifs
  · exact ⟨le_refl _, zero_le_one⟩
  · split
    · split
      · have := strengthOf_range (sigma_pos tol minScale target lcIdx lcFrac nIter ds ‹_›)
          (sigmaRho tol minScale target lcIdx lcFrac nIter ds ‹_›).2 ‹ℝ›
        exact ⟨le_of_lt this.1, this.2⟩
      · exact ⟨le_refl _, zero_le_one⟩
    · exact ⟨le_refl _, zero_le_one⟩

/-- the matrix value at `(i, j)` is the directed strength of `j` in row `i`. -/
theorem lookup_assembled_memberRows (idx : List (List (Option Nat))) (ds : List (List (Option ℝ)))
    (hv : ValidTable idx ds) (hn : NoNanRho tol lcIdx lcFrac ds) (i j : Nat) :
    lookup (assembled (memberRows realT tol minScale target lcIdx lcFrac nIter idx ds)) i j
      = dirStrength tol minScale target lcIdx lcFrac nIter idx ds i j := by
  have hmem := mem_assembled_memberRows tol minScale target lcIdx lcFrac nIter idx ds hv hn i j
  have hnd := nodup_memberRows tol minScale target lcIdx lcFrac nIter idx ds hv
  unfold dirStrength
  by_cases hij : i = j
  · rw [if_pos hij]
    apply lookup_eq_zero_of_not_mem
    intro v hv'
    exact ((hmem v).1 hv').1 hij
  · rw [if_neg hij]
    cases hix : idx[i]? with
    | none =>
      simp only
      apply lookup_eq_zero_of_not_mem
      intro v hv'
      obtain ⟨_, ix, d, x, h1, _⟩ := (hmem v).1 hv'
      rw [hix] at h1; simp at h1
    | some ix =>
      cases hd : ds[i]? with
      | none =>
        simp only
        apply lookup_eq_zero_of_not_mem
        intro v hv'
        obtain ⟨_, ix', d, x, _, h2, _⟩ := (hmem v).1 hv'
        rw [hd] at h2; simp at h2
      | some d =>
        simp only
        cases hf : (ix.zip d).find? (fun p => p.1 == some j) with
        | none =>
          simp only
          apply lookup_eq_zero_of_not_mem
          intro v hv'
          obtain ⟨_, ix', d', x, h1, h2, h3, _⟩ := (hmem v).1 hv'
          rw [hix] at h1; rw [hd] at h2
          simp only [Option.some.injEq] at h1 h2
          subst h1; subst h2
          rw [List.find?_eq_none] at hf
          exact hf _ h3 (by simp)
        | some p =>
          obtain ⟨c, x⟩ := p
          have hc : c = some j := by
            have := List.find?_some hf
            simpa using this
          subst hc
          have hp := List.mem_of_find?_eq_some hf
          cases x with
          | none =>
            have := (hv.skip_iff i ix d hix hd _ hp).2 rfl
            simp at this
          | some x =>
            simp only
            apply lookup_of_mem_nodup _ hnd
            exact (hmem _).2 ⟨hij, ix, d, x, hix, hd, hp, rfl⟩

/--
  **assemble_lookup.**  For a valid table (and no NaN rho) the directed matrix is assembled — no
  strength is NaN —, stores no position twice, its value at `(i, j)` is the directed strength
  of `j` in row `i`, and hence it is `UnitValued`: every value lies in `[0, 1]`.
-/
theorem assemble_lookup (idx : List (List (Option Nat))) (ds : List (List (Option ℝ)))
    (hv : ValidTable idx ds) (hn : NoNanRho tol lcIdx lcFrac ds) :
    ∃ A, assemble (memberRows realT tol minScale target lcIdx lcFrac nIter idx ds) = some A
      ∧ NoDup A
      ∧ (∀ i j, lookup A i j = dirStrength tol minScale target lcIdx lcFrac nIter idx ds i j)
      ∧ UnitValued A := by
  refine ⟨_, assemble_of_noNan _ (noNan_memberRows tol minScale target lcIdx lcFrac nIter idx ds hv hn),
    nodup_memberRows tol minScale target lcIdx lcFrac nIter idx ds hv,
    lookup_assembled_memberRows tol minScale target lcIdx lcFrac nIter idx ds hv hn, ?_⟩
  intro i j
  rw [lookup_assembled_memberRows tol minScale target lcIdx lcFrac nIter idx ds hv hn]
  exact dirStrength_range tol minScale target lcIdx lcFrac nIter idx ds i j

/-! ### the fitted graph -/

/-- a non-zero directed strength at `(i, j)` means `j ≠ i` is listed among the neighbours of `i`. -/
theorem listed_of_lookup_ne_zero (idx : List (List (Option Nat))) (ds : List (List (Option ℝ)))
    (hv : ValidTable idx ds) (hn : NoNanRho tol lcIdx lcFrac ds) (i j : Nat)
    (h : lookup (assembled (memberRows realT tol minScale target lcIdx lcFrac nIter idx ds)) i j ≠ 0) :
    i ≠ j ∧ some j ∈ (idx[i]?).getD [] := by
  obtain ⟨w, hw⟩ := lookup_ne_zero_mem _ i j h
  obtain ⟨hij, ix, d, x, hix, _, hp, _⟩ :=
    (mem_assembled_memberRows tol minScale target lcIdx lcFrac nIter idx ds hv hn i j w).1 hw
  refine ⟨hij, ?_⟩
  rw [hix]
  exact (List.of_mem_zip hp).1

/-- for a valid table the graph stage succeeds (no NaN strength) and returns the blend of the
    assembled directed matrix with its transpose. -/
theorem graphOfKnn_eq_some (r : ℝ) (idx : List (List (Option Nat))) (ds : List (List (Option ℝ)))
    (hv : ValidTable idx ds) (hn : NoNanRho tol lcIdx lcFrac ds) :
    graphOfKnn realT tol minScale target lcIdx lcFrac nIter r idx ds
      = some (symmetrize r
          (assembled (memberRows realT tol minScale target lcIdx lcFrac nIter idx ds))) := by
  unfold graphOfKnn
  rw [assemble_of_noNan _ (noNan_memberRows tol minScale target lcIdx lcFrac nIter idx ds hv hn)]
  rfl

/--
  **C02_pipeline.**  For every valid kNN table, every parameter setting with no NaN rho, and every
  mix ratio `r ∈ [0, 1]`: every stored entry `(i, j, v)` of the fitted graph has `0 < v ≤ 1`,
  the mirrored entry `(j, i, v)` is stored, `i ≠ j` (the sample's own column gets strength 0, so
  the diagonal is empty), `j` is listed among the k nearest neighbours of `i` or `i` among those
  of `j`, and `v` is the blend of the two directed strengths.
-/
theorem C02_pipeline (r : ℝ) (hr0 : 0 ≤ r) (hr1 : r ≤ 1)
    (idx : List (List (Option Nat))) (ds : List (List (Option ℝ)))
    (hv : ValidTable idx ds) (hn : NoNanRho tol lcIdx lcFrac ds) (G : Coo ℝ)
    (hG : graphOfKnn realT tol minScale target lcIdx lcFrac nIter r idx ds = some G)
    (i j : Nat) (v : ℝ) (h : (i, j, v) ∈ G) :
    0 < v ∧ v ≤ 1
    ∧ (j, i, v) ∈ G
    ∧ i ≠ j
    ∧ (some j ∈ (idx[i]?).getD [] ∨ some i ∈ (idx[j]?).getD [])
    ∧ v = mix r (dirStrength tol minScale target lcIdx lcFrac nIter idx ds i j)
                (dirStrength tol minScale target lcIdx lcFrac nIter idx ds j i) := by
  rw [graphOfKnn_eq_some tol minScale target lcIdx lcFrac nIter r idx ds hv hn] at hG
  simp only [Option.some.injEq] at hG
  subst hG
  obtain ⟨A, hA, _, hlook, hunit⟩ :=
    assemble_lookup tol minScale target lcIdx lcFrac nIter idx ds hv hn
  rw [assemble_of_noNan _ (noNan_memberRows tol minScale target lcIdx lcFrac nIter idx ds hv hn)] at hA
  simp only [Option.some.injEq] at hA
  subst hA
  obtain ⟨hform, hpos, hle, hsym, hsupp⟩ := C02_graph_wellformed r hr0 hr1 _ hunit i j v h
  have hsupp' : i ≠ j ∧ (some j ∈ (idx[i]?).getD [] ∨ some i ∈ (idx[j]?).getD []) := by
    rcases hsupp with h1 | h1
    · have := listed_of_lookup_ne_zero tol minScale target lcIdx lcFrac nIter idx ds hv hn i j h1
      exact ⟨this.1, Or.inl this.2⟩
    · have := listed_of_lookup_ne_zero tol minScale target lcIdx lcFrac nIter idx ds hv hn j i h1
      exact ⟨fun e => this.1 e.symm, Or.inr this.2⟩
  refine ⟨hpos, hle, hsym, hsupp'.1, hsupp'.2, ?_⟩
  rw [hform, hlook, hlook]

/-- conversely (union part present, `0 < r ≤ 1`): every listed neighbour `j ≠ i` of `i` is joined
    to `i` in the fitted graph — no listed neighbour is lost. -/
theorem edge_of_listed (r : ℝ) (hr0 : 0 < r) (hr1 : r ≤ 1)
    (idx : List (List (Option Nat))) (ds : List (List (Option ℝ)))
    (hv : ValidTable idx ds) (hn : NoNanRho tol lcIdx lcFrac ds) (G : Coo ℝ)
    (hG : graphOfKnn realT tol minScale target lcIdx lcFrac nIter r idx ds = some G)
    (i j : Nat) (hij : i ≠ j) (hl : some j ∈ (idx[i]?).getD []) :
    ∃ v, (i, j, v) ∈ G ∧ (j, i, v) ∈ G := by
  rw [graphOfKnn_eq_some tol minScale target lcIdx lcFrac nIter r idx ds hv hn] at hG
  simp only [Option.some.injEq] at hG
  subst hG
  obtain ⟨A, hA, _, hlook, hunit⟩ :=
    assemble_lookup tol minScale target lcIdx lcFrac nIter idx ds hv hn
  rw [assemble_of_noNan _ (noNan_memberRows tol minScale target lcIdx lcFrac nIter idx ds hv hn)] at hA
  simp only [Option.some.injEq] at hA
  subst hA
  -- row `i` of both tables, and the position of `j`
  cases hix : idx[i]? with
  | none => rw [hix] at hl; simp at hl
  | some ix =>
    rw [hix] at hl
    simp only [Option.getD_some] at hl
    have hi : i < idx.length := by
      by_contra hc
      rw [List.getElem?_eq_none (by omega)] at hix
      simp at hix
    have hi' : i < ds.length := hv.rows_eq ▸ hi
    have hd : ds[i]? = some ds[i] := List.getElem?_eq_getElem hi'
    obtain ⟨k, hk1, hk2⟩ := hv.cols_eq
    have hlen : ix.length = (ds[i]).length := by
      rw [hk1 ix (List.mem_of_getElem? hix), hk2 _ (List.getElem_mem hi')]
    obtain ⟨n, hn', hjn⟩ := List.mem_iff_getElem.1 hl
    have hn'' : n < (ds[i]).length := hlen ▸ hn'
    have hp : (some j, (ds[i])[n]) ∈ ix.zip ds[i] := by
      rw [List.mem_iff_getElem]
      refine ⟨n, by simp [List.length_zip]; omega, ?_⟩
      rw [List.getElem_zip, hjn]
    cases hx : (ds[i])[n] with
    | none =>
      rw [hx] at hp
      have := (hv.skip_iff i ix _ hix hd _ hp).2 rfl
      simp at this
    | some x =>
      rw [hx] at hp
      have hmem := (mem_assembled_memberRows tol minScale target lcIdx lcFrac nIter idx ds hv hn i j _).2
        ⟨hij, ix, _, x, hix, hd, hp, rfl⟩
      have hne : lookup (assembled (memberRows realT tol minScale target lcIdx lcFrac nIter idx ds)) i j
          ≠ 0 := by
        rw [lookup_of_mem_nodup _ (nodup_memberRows tol minScale target lcIdx lcFrac nIter idx ds hv)
          i j _ hmem]
        exact ne_of_gt (strengthOf_range (sigma_pos tol minScale target lcIdx lcFrac nIter ds _) _ x).1
      obtain ⟨v, hv'⟩ := (C04.edge_iff_of_pos r hr0 hr1 _ hunit i j).2 (Or.inl hne)
      exact ⟨v, hv', symmetric r _ i j v hv'⟩

end

/-! ### corollaries: the default `local_connectivity`, pruned tables, necessity of `NoNanRho` -/

section
variable (tol minScale target : ℝ) (lcIdx : Nat) (lcFrac : ℝ) (nIter : Nat)

/-- **C02_pipeline for an integral `local_connectivity ≥ 1`** (the default is 1.0): no hypothesis
    on rho is needed. -/
theorem C02_pipeline_integral (htol : 0 ≤ tol) (hlc : 0 < lcIdx) (r : ℝ) (hr0 : 0 ≤ r) (hr1 : r ≤ 1)
    (idx : List (List (Option Nat))) (ds : List (List (Option ℝ)))
    (hv : ValidTable idx ds) (G : Coo ℝ)
    (hG : graphOfKnn realT tol minScale target lcIdx 0 nIter r idx ds = some G)
    (i j : Nat) (v : ℝ) (h : (i, j, v) ∈ G) :
    0 < v ∧ v ≤ 1 ∧ (j, i, v) ∈ G ∧ i ≠ j
    ∧ (some j ∈ (idx[i]?).getD [] ∨ some i ∈ (idx[j]?).getD []) :=
  have := C02_pipeline tol minScale target lcIdx 0 nIter r hr0 hr1 idx ds hv
    (noNanRho_integral tol htol lcIdx hlc ds) G hG i j v h
  ⟨this.1, this.2.1, this.2.2.1, this.2.2.2.1, this.2.2.2.2.1⟩

/-- pruning a valid table to its first `k` columns (`knn_indices[:, :n_neighbors]`) keeps it valid. -/
theorem validTable_takeCols (k : Nat) (idx : List (List (Option Nat))) (ds : List (List (Option ℝ)))
    (hv : ValidTable idx ds) : ValidTable (takeCols k idx) (takeCols k ds) where
  rows_eq := by simp [takeCols, hv.rows_eq]
  cols_eq := by
    obtain ⟨c, h1, h2⟩ := hv.cols_eq
    refine ⟨min k c, ?_, ?_⟩
    · intro ix hix
      simp only [takeCols, List.mem_map] at hix
      obtain ⟨ix', hix', rfl⟩ := hix
      rw [List.length_take, h1 ix' hix']
    · intro d hd
      simp only [takeCols, List.mem_map] at hd
      obtain ⟨d', hd', rfl⟩ := hd
      rw [List.length_take, h2 d' hd']
  distinct := by
    intro ix hix
    simp only [takeCols, List.mem_map] at hix
    obtain ⟨ix', hix', rfl⟩ := hix
    exact ((List.take_sublist k ix').filterMap id).nodup (hv.distinct ix' hix')
  skip_iff := by
    intro i ix d hix hd p hp
    simp only [takeCols, List.getElem?_map, Option.map_eq_some_iff] at hix hd
    obtain ⟨ix', hix', rfl⟩ := hix
    obtain ⟨d', hd', rfl⟩ := hd
    apply hv.skip_iff i ix' d' hix' hd' p
    rw [List.zip_eq_zipWith, ← List.take_zipWith] at hp
    rw [List.zip_eq_zipWith]
    exact List.mem_of_mem_take hp

/-- **end to end with a supplied `precomputed_knn`**: for a valid `cols`-column table with
    `n_neighbors = k ≤ cols` and the right number of rows, the graph computed from the table
    that `_validate_parameters` selects satisfies the C02 clauses, the neighbour clause being
    about the first `k` columns only. -/
theorem C02_pipeline_precomputed (r : ℝ) (hr0 : 0 ≤ r) (hr1 : r ≤ 1)
    (cols k rows n : Nat) (force : Bool) (hk : k ≤ cols) (hrows : rows = n)
    (idx : List (List (Option Nat))) (ds : List (List (Option ℝ)))
    (hv : ValidTable idx ds) (hn : NoNanRho tol lcIdx lcFrac (takeCols k ds)) (G : Coo ℝ)
    (hG : graphOfKnn realT tol minScale target lcIdx lcFrac nIter r
        (C20.usedTable (Api.validatePrecomputedKnn false cols k rows n force) idx)
        (C20.usedTable (Api.validatePrecomputedKnn false cols k rows n force) ds) = some G)
    (i j : Nat) (v : ℝ) (h : (i, j, v) ∈ G) :
    0 < v ∧ v ≤ 1 ∧ (j, i, v) ∈ G ∧ i ≠ j
    ∧ (some j ∈ ((idx[i]?).getD []).take k ∨ some i ∈ ((idx[j]?).getD []).take k) := by
  rw [C20.graph_depends_on_prefix realT tol minScale target lcIdx lcFrac nIter r cols k rows n force
    hk hrows] at hG
  have := C02_pipeline tol minScale target lcIdx lcFrac nIter r hr0 hr1 _ _
    (validTable_takeCols k idx ds hv) hn G hG i j v h
  refine ⟨this.1, this.2.1, this.2.2.1, this.2.2.2.1, ?_⟩
  have hget : ∀ a : Nat, ((takeCols k idx)[a]?).getD [] = ((idx[a]?).getD []).take k := by
    intro a
    simp only [takeCols, List.getElem?_map]
    cases idx[a]? <;> simp
  rw [← hget i, ← hget j]
  exact this.2.2.2.2.1

/-- the hypothesis `NoNanRho` cannot be dropped: if some row's rho is NaN and that row lists a
    neighbour other than the sample itself at a finite distance, that strength is NaN and the
    graph stage fails (the live code returns a graph with a NaN entry). -/
theorem graphOfKnn_none_of_nan_rho (r : ℝ) (idx : List (List (Option Nat)))
    (ds : List (List (Option ℝ))) (i j : Nat) (ix : List (Option Nat)) (d : List (Option ℝ)) (x : ℝ)
    (hix : idx[i]? = some ix) (hd : ds[i]? = some d) (hp : (some j, some x) ∈ ix.zip d)
    (hij : i ≠ j) (hnan : rho tol lcIdx lcFrac d = .nan) :
    graphOfKnn realT tol minScale target lcIdx lcFrac nIter r idx ds = none := by
  unfold graphOfKnn
  cases hA : assemble (memberRows realT tol minScale target lcIdx lcFrac nIter idx ds) with
  | none => rfl
  | some A =>
    exfalso
    obtain ⟨hno, _⟩ := (assemble_eq_some_iff _ A).1 hA
    have hrow := (memberRows_getElem? realT tol minScale target lcIdx lcFrac nIter idx ds i _).2
      ⟨ix, d, hix, hd, rfl⟩
    apply hno _ (List.mem_of_getElem? hrow) j
    rw [memberRow_eq, List.mem_map]
    refine ⟨(some j, some x), hp, ?_⟩
    have hσ := sigma_pos tol minScale target lcIdx lcFrac nIter ds d
    have hρ : (smoothKnnRow realT tol minScale target lcIdx lcFrac nIter (finiteMean ds.flatten) d).2
        = .nan := hnan
    unfold memberEntry
    simp only
    rw [if_neg (fun h => hij h.symm), hρ]
    unfold memberExt
    simp only
    rw [if_neg]
    intro hc
    unfold sigmaRho at hσ
    linarith [hc.1]

end

/-! ### non-vacuity: a concrete 3-point table

  Three points on a line at 0, 1, 3 with `n_neighbors = 3` and disconnection distance 2.5:
  the pair (1, 2) (distance 2) stays, the pair (0, 2) (distance 3) is disconnected. -/

def exIdx : List (List (Option Nat)) :=
  [[some 0, some 1, none], [some 1, some 0, some 2], [some 2, some 1, none]]

noncomputable def exDs : List (List (Option ℝ)) :=
  [[some 0, some 1, none], [some 0, some 1, some 2], [some 0, some 2, none]]

theorem exValid : ValidTable exIdx exDs where
  rows_eq := by simp [exIdx, exDs]
  cols_eq := ⟨3, by simp [exIdx], by simp [exDs]⟩
  distinct := by
    intro ix hix
    simp only [exIdx, List.mem_cons, List.not_mem_nil, or_false] at hix
    rcases hix with rfl | rfl | rfl <;> decide
  skip_iff := by
    intro i ix d hix hd p hp
    rcases i with _ | _ | _ | i
    · simp only [exIdx, List.getElem?_cons_zero, Option.some.injEq] at hix
      simp only [exDs, List.getElem?_cons_zero, Option.some.injEq] at hd
      subst hix; subst hd
      simp only [List.zip_cons_cons, List.zip_nil_right, List.mem_cons, List.not_mem_nil,
        or_false] at hp
      rcases hp with rfl | rfl | rfl <;> simp
    · simp only [exIdx, List.getElem?_cons_succ, List.getElem?_cons_zero, Option.some.injEq] at hix
      simp only [exDs, List.getElem?_cons_succ, List.getElem?_cons_zero, Option.some.injEq] at hd
      subst hix; subst hd
      simp only [List.zip_cons_cons, List.zip_nil_right, List.mem_cons, List.not_mem_nil,
        or_false] at hp
      rcases hp with rfl | rfl | rfl <;> simp
    · simp only [exIdx, List.getElem?_cons_succ, List.getElem?_cons_zero, Option.some.injEq] at hix
      simp only [exDs, List.getElem?_cons_succ, List.getElem?_cons_zero, Option.some.injEq] at hd
      subst hix; subst hd
      simp only [List.zip_cons_cons, List.zip_nil_right, List.mem_cons, List.not_mem_nil,
        or_false] at hp
      rcases hp with rfl | rfl | rfl <;> simp
    · simp [exIdx] at hix

/-- the hypotheses of `C02_pipeline` hold for the example table with the default
    `local_connectivity = 1.0` (`lcIdx = 1`, `lcFrac = 0`), any tolerance `≥ 0`, any floor, target,
    iteration count and any `r ∈ (0, 1]`; the graph stage succeeds and the graph contains the
    edges 0–1 and 1–2 in both directions. -/
example (tol minScale target : ℝ) (htol : 0 ≤ tol) (nIter : Nat) (r : ℝ) (hr0 : 0 < r) (hr1 : r ≤ 1) :
    ValidTable exIdx exDs ∧ NoNanRho tol 1 0 exDs ∧
    ∃ G, graphOfKnn realT tol minScale target 1 0 nIter r exIdx exDs = some G ∧
      (∃ v, (0, 1, v) ∈ G ∧ (1, 0, v) ∈ G) ∧ (∃ v, (1, 2, v) ∈ G ∧ (2, 1, v) ∈ G)
      ∧ ∀ v, (0, 2, v) ∉ G := by
  have hn := noNanRho_integral tol htol 1 Nat.one_pos exDs
  refine ⟨exValid, hn, _, graphOfKnn_eq_some tol minScale target 1 0 nIter r exIdx exDs exValid hn, ?_, ?_, ?_⟩
  · exact edge_of_listed tol minScale target 1 0 nIter r hr0 hr1 exIdx exDs exValid hn _
      (graphOfKnn_eq_some tol minScale target 1 0 nIter r exIdx exDs exValid hn) 0 1 (by decide)
      (by decide)
  · exact edge_of_listed tol minScale target 1 0 nIter r hr0 hr1 exIdx exDs exValid hn _
      (graphOfKnn_eq_some tol minScale target 1 0 nIter r exIdx exDs exValid hn) 1 2 (by decide)
      (by decide)
  · intro v hv
    have := C02_pipeline tol minScale target 1 0 nIter r (le_of_lt hr0) hr1 exIdx exDs exValid hn _
      (graphOfKnn_eq_some tol minScale target 1 0 nIter r exIdx exDs exValid hn) 0 2 v hv
    obtain ⟨_, _, _, _, hl, _⟩ := this
    revert hl
    decide

/-- a table on which rho *is* NaN: `local_connectivity = 1.5`, a duplicate point (distance 0) and
    two disconnected neighbours — the interpolation computes `inf + 0.5 * (inf - inf)`.  The table
    is valid, so `NoNanRho` is a genuine extra hypothesis for fractional `local_connectivity`. -/
example : rho (1/100000 : ℝ) 1 (1/2) [some 0, some 0, none, none] = .nan := by
  unfold rho nzDists
  norm_num [interp]

/-- and on the corresponding two-point table (two identical points, two disconnected columns) the
    graph stage does fail with a NaN strength: the hypotheses of `graphOfKnn_none_of_nan_rho` are
    satisfiable. -/
example (minScale target : ℝ) (nIter : Nat) (r : ℝ) :
    graphOfKnn realT (1/100000) minScale target 1 (1/2) nIter r
      [[some 0, some 1, none, none], [some 1, some 0, none, none]]
      [[some 0, some 0, none, none], [some 0, some 0, none, none]] = none := by
  apply graphOfKnn_none_of_nan_rho (1/100000) minScale target 1 (1/2) nIter r _ _ 0 1
    [some 0, some 1, none, none] [some 0, some 0, none, none] 0 rfl rfl (by simp) (by decide)
  unfold rho nzDists
  norm_num [interp]

end C02
end Umap
