/-
  C17 — densMAP reduces to UMAP at zero weight and reports the defined local radii.
-/
import UmapProofs.Basic
import UmapProofs.RealT
import UmapModel.Sgd
import UmapModel.Radii
import Mathlib.Tactic

namespace Umap
namespace C17
open Sgd Radii

section Flag
variable {K : Type} [Field K] [LinearOrder K] [IsStrictOrderedRing K]

/-- with `dens_lambda = 0` or `dens_frac = 0` the density term is off in **every** epoch. -/
theorem flag_false_of_zero (densmap : Bool) (lambda frac : K) (N n : Nat) (hn : n < N)
    (h : lambda = 0 ∨ frac = 0) : densmapFlag densmap lambda frac n N = false := by
  unfold densmapFlag
  rcases h with h | h
  · subst h; simp
  · subst h
    have hN : (0 : K) < N := by exact_mod_cast (by omega : 0 < N)
    have : ¬ ((1 : K) - 0 < ((n + 1 : Nat) : K) / (N : K)) := by
      rw [sub_zero, not_lt, div_le_one hN]
      exact_mod_cast hn
    rw [decide_eq_false this]
    simp

/-- also when densMAP is switched off altogether. -/
theorem flag_false_of_off (lambda frac : K) (N n : Nat) : densmapFlag false lambda frac n N = false := by
  unfold densmapFlag; simp

end Flag

section Reduce
variable {K : Type} [Field K] [LinearOrder K] [IsStrictOrderedRing K] [Inhabited K]

theorem foldl_congr_range {σ : Type} (f g : σ → Nat → σ) (N : Nat)
    (h : ∀ s n, n < N → f s n = g s n) (s : σ) :
    (List.range N).foldl f s = (List.range N).foldl g s := by
  induction N generalizing s with
  | zero => rfl
  | succ N ih =>
    rw [List.range_succ, List.foldl_append, List.foldl_append]
    rw [ih (fun s n hn => h s n (by omega))]
    simp only [List.foldl_cons, List.foldl_nil]
    exact h _ N (by omega)

/--
  **C17 (reduction).** For every graph, initial layout, seed state, parameter set and epoch
  count: the densMAP epoch loop with `dens_lambda = 0` or `dens_frac = 0` is *the same function*
  as the plain UMAP epoch loop (same moves, same clocks, same random draws), whatever the
  density-term computation `corf` is.
-/
theorem run_densmap_zero_eq_plain (T : Transc K) (rnd : K → K) (P : Params K) (hd tl : Array Nat)
    (eps epns : Array K) (alpha0 : K) (N : Nat) (densmap : Bool) (lambda frac : K)
    (corf : Nat → State K → Nat → K → K) (h : lambda = 0 ∨ frac = 0) (s : State K) :
    runEpochsDens T rnd P hd tl eps epns alpha0 N densmap lambda frac corf s
      = runEpochs T rnd P hd tl eps epns alpha0 N s := by
  unfold runEpochsDens runEpochs
  apply foldl_congr_range
  intro s n hn
  rw [flag_false_of_zero densmap lambda frac N n hn h]
  simp

end Reduce

/-! ### radii -/

section Radius
variable {K : Type} [Field K] [LinearOrder K] [IsStrictOrderedRing K]

theorem accNum_eq (es : List (Edge K)) (i : Nat) : accNum es i = rowNum es i + colNum es i := by
  unfold accNum rowNum colNum
  induction es with
  | nil => simp
  | cons e es ih => simp only [List.map_cons, sumL_cons, ih]; ring

theorem accDen_eq (es : List (Edge K)) (i : Nat) : accDen es i = rowDen es i + colDen es i := by
  unfold accDen rowDen colDen
  induction es with
  | nil => simp
  | cons e es ih => simp only [List.map_cons, sumL_cons, ih]; ring

/--
  **C17 (radius).** On a symmetric edge list (each undirected edge listed in both directions, so
  column sums equal row sums) accumulating at both endpoints counts everything twice and the
  ratio is unchanged: the reported radius is `log(ε + Σ_k μ_ik d_ik² / Σ_k μ_ik)`, the logarithm
  of the membership-weighted mean squared distance to the sample's graph neighbours.
-/
theorem radius_double_count (T : Transc K) (eps : K) (es : List (Edge K)) (i : Nat)
    (hn : colNum es i = rowNum es i) (hd : colDen es i = rowDen es i) :
    radius T eps es i = T.log (eps + rowNum es i / rowDen es i) := by
  unfold radius
  rw [accNum_eq, accDen_eq, hn, hd]
  congr 2
  by_cases h : rowDen es i = 0
  · rw [h]; simp
  · field_simp

end Radius

/-! ### non-vacuity -/
example : densmapFlag true (2 : ℚ) (3/10) 8 10 = true := by decide +kernel
example : densmapFlag true (0 : ℚ) (3/10) 8 10 = false := by decide +kernel
example : densmapFlag true (2 : ℚ) 0 9 10 = false := by decide +kernel

end C17
end Umap
