/-
  C14 (continued) — haversine, spherical and diagonal Gaussian energy gradients.

  Model: `Umap.Grad.haversineGrad`, `sphericalGaussianEnergyGrad`, `diagonalGaussianEnergyGrad`
  (Python: `haversine_grad`, `spherical_gaussian_energy_grad`, `diagonal_gaussian_energy_grad` in
  `umap/distances.py`), at `ℝ` with `Umap.realT` and `pi := Real.pi`.  For each:

  * `…Grad_eq`: closed form of everything the function returns; `…Grad_fst`, `…Grad_length`;
  * `…_grad_hasDerivAt_<coord>`: the gradient entry is the derivative, in that coordinate of `x`,
    of the distance the gradient function itself returns (explicit-list form);
  * `…_grad_hasDerivAt`: the same for all coordinates at once in the `Function.update` style of
    `UmapProps/C14.lean`;
  * observations: the distance returned by `haversine_grad` is the haversine distance of the
    latitude-shifted points, not `haversine(x, y)`; the `det == 0` branch of
    `diagonal_gaussian_energy_grad` (a `TODO` in the source) does not return a derivative.
-/
import UmapProps.C14
import Mathlib.Analysis.SpecialFunctions.Trigonometric.Deriv
import Mathlib.Analysis.SpecialFunctions.Trigonometric.InverseDeriv

namespace Umap
namespace C14
open Metrics

/-! ### `minV`, `maxV` over ℝ -/

theorem maxV_eq_max (a b : ℝ) : maxV a b = max a b := by
  unfold maxV; split_ifs with h
  · exact (max_eq_right h.le).symm
  · exact (max_eq_left (not_lt.mp h)).symm

theorem minV_eq_min (a b : ℝ) : minV a b = min a b := by
  unfold minV; split_ifs with h
  · exact (min_eq_right h.le).symm
  · exact (min_eq_left (not_lt.mp h)).symm

/-! ### short lists -/

theorem ofFn2 (z : Fin 2 → ℝ) : List.ofFn z = [z 0, z 1] := by
  simp [List.ofFn_succ]

theorem ofFn3 (z : Fin 3 → ℝ) : List.ofFn z = [z 0, z 1, z 2] := by
  simp [List.ofFn_succ]

theorem ofFn4 (z : Fin 4 → ℝ) : List.ofFn z = [z 0, z 1, z 2, z 3] := by
  simp [List.ofFn_succ]

/-! ### haversine -/

/-- the quantity `a_1` of `haversine_grad` (with its `+ π/2` latitude shift). -/
noncomputable def havA (x0 x1 y0 y1 : ℝ) : ℝ :=
  Real.cos (x0 + Real.pi / 2) * Real.cos (y0 + Real.pi / 2)
      * (Real.sin (1 / 2 * (x1 - y1)) * Real.sin (1 / 2 * (x1 - y1)))
    + Real.sin (1 / 2 * (x0 - y0)) * Real.sin (1 / 2 * (x0 - y0))

/-- closed form of everything `haversine_grad` returns. -/
theorem haversineGrad_eq (eps x0 x1 y0 y1 : ℝ) :
    Grad.haversineGrad realT Real.pi eps [x0, x1] [y0, y1]
      = some (2 * Real.arcsin (Real.sqrt (min (max |havA x0 x1 y0 y1| 0) 1)),
          [ (Real.sin (1 / 2 * (x0 - y0)) * Real.cos (1 / 2 * (x0 - y0))
              - Real.sin (x0 + Real.pi / 2) * Real.cos (y0 + Real.pi / 2)
                * (Real.sin (1 / 2 * (x1 - y1)) * Real.sin (1 / 2 * (x1 - y1))))
              / (Real.sqrt |havA x0 x1 y0 y1 - 1| * Real.sqrt |havA x0 x1 y0 y1| + eps),
            (Real.cos (x0 + Real.pi / 2) * Real.cos (y0 + Real.pi / 2)
                * Real.sin (1 / 2 * (x1 - y1)) * Real.cos (1 / 2 * (x1 - y1)))
              / (Real.sqrt |havA x0 x1 y0 y1 - 1| * Real.sqrt |havA x0 x1 y0 y1| + eps) ]) := by
  simp only [Grad.haversineGrad, realT, two, Nat.cast_ofNat, absV_eq_abs, havA, maxV_eq_max,
    minV_eq_min]

/-- the returned distance. -/
theorem haversineGrad_fst (eps x0 x1 y0 y1 : ℝ) :
    (Grad.haversineGrad realT Real.pi eps [x0, x1] [y0, y1]).get!.1
      = 2 * Real.arcsin (Real.sqrt (min (max |havA x0 x1 y0 y1| 0) 1)) := by
  rw [haversineGrad_eq]; rfl

theorem haversineGrad_length (eps x0 x1 y0 y1 : ℝ) :
    (Grad.haversineGrad realT Real.pi eps [x0, x1] [y0, y1]).get!.2.length = 2 := by
  rw [haversineGrad_eq]; rfl

/-- `2·arcsin √(clamp |A t|)` along a differentiable `A` with `0 < A < 1`. -/
theorem hasDerivAt_hav_of {A : ℝ → ℝ} {A' t0 : ℝ} (hA : HasDerivAt A A' t0)
    (h0 : 0 < A t0) (h1 : A t0 < 1) :
    HasDerivAt (fun t => 2 * Real.arcsin (Real.sqrt (min (max |A t| 0) 1)))
      (A' / (Real.sqrt |A t0 - 1| * Real.sqrt |A t0| + 0)) t0 := by
  have hev : (fun t => 2 * Real.arcsin (Real.sqrt (min (max |A t| 0) 1)))
      =ᶠ[nhds t0] (fun t => 2 * Real.arcsin (Real.sqrt (A t))) := by
    have e1 : ∀ᶠ t in nhds t0, 0 < A t := hA.continuousAt.eventually (lt_mem_nhds h0)
    have e2 : ∀ᶠ t in nhds t0, A t < 1 := hA.continuousAt.eventually (gt_mem_nhds h1)
    filter_upwards [e1, e2] with t ht0 ht1
    rw [abs_of_pos ht0, max_eq_left ht0.le, min_eq_left ht1.le]
  refine HasDerivAt.congr_of_eventuallyEq ?_ hev
  have hs : HasDerivAt (fun t => Real.sqrt (A t)) (A' / (2 * Real.sqrt (A t0))) t0 :=
    hA.sqrt h0.ne'
  have hsq : Real.sqrt (A t0) ^ 2 = A t0 := Real.sq_sqrt h0.le
  have hsp : 0 < Real.sqrt (A t0) := Real.sqrt_pos.2 h0
  have hlt : Real.sqrt (A t0) < 1 := by
    rw [← Real.sqrt_one]; exact Real.sqrt_lt_sqrt h0.le h1
  have ha := (Real.hasDerivAt_arcsin (x := Real.sqrt (A t0)) (by linarith) hlt.ne).comp t0 hs
  have h2 : HasDerivAt (fun t => 2 * Real.arcsin (Real.sqrt (A t)))
      (2 * (1 / Real.sqrt (1 - Real.sqrt (A t0) ^ 2) * (A' / (2 * Real.sqrt (A t0))))) t0 :=
    ha.const_mul 2
  have hp : 0 < Real.sqrt (1 - A t0) := Real.sqrt_pos.2 (by linarith)
  refine h2.congr_deriv ?_
  rw [hsq, abs_of_neg (by linarith : A t0 - 1 < 0), abs_of_pos h0, neg_sub, add_zero]
  field_simp

theorem hasDerivAt_havA_lat (x0 x1 y0 y1 : ℝ) :
    HasDerivAt (fun t => havA t x1 y0 y1)
      (Real.sin (1 / 2 * (x0 - y0)) * Real.cos (1 / 2 * (x0 - y0))
        - Real.sin (x0 + Real.pi / 2) * Real.cos (y0 + Real.pi / 2)
          * (Real.sin (1 / 2 * (x1 - y1)) * Real.sin (1 / 2 * (x1 - y1)))) x0 := by
  unfold havA
  have hc : HasDerivAt (fun t : ℝ => Real.cos (t + Real.pi / 2))
      (-Real.sin (x0 + Real.pi / 2) * 1) x0 := ((hasDerivAt_id' x0).add_const _).cos
  have hs : HasDerivAt (fun t : ℝ => Real.sin (1 / 2 * (t - y0)))
      (Real.cos (1 / 2 * (x0 - y0)) * (1 / 2 * 1)) x0 :=
    (((hasDerivAt_id' x0).sub_const y0).const_mul (1 / 2)).sin
  have h := ((hc.mul_const (Real.cos (y0 + Real.pi / 2))).mul_const
    (Real.sin (1 / 2 * (x1 - y1)) * Real.sin (1 / 2 * (x1 - y1)))).fun_add (hs.fun_mul hs)
  exact h.congr_deriv (by ring)

theorem hasDerivAt_havA_long (x0 x1 y0 y1 : ℝ) :
    HasDerivAt (fun t => havA x0 t y0 y1)
      (Real.cos (x0 + Real.pi / 2) * Real.cos (y0 + Real.pi / 2)
        * Real.sin (1 / 2 * (x1 - y1)) * Real.cos (1 / 2 * (x1 - y1))) x1 := by
  unfold havA
  have hs : HasDerivAt (fun t : ℝ => Real.sin (1 / 2 * (t - y1)))
      (Real.cos (1 / 2 * (x1 - y1)) * (1 / 2 * 1)) x1 :=
    (((hasDerivAt_id' x1).sub_const y1).const_mul (1 / 2)).sin
  have h := ((hs.fun_mul hs).const_mul
    (Real.cos (x0 + Real.pi / 2) * Real.cos (y0 + Real.pi / 2))).add_const
    (Real.sin (1 / 2 * (x0 - y0)) * Real.sin (1 / 2 * (x0 - y0)))
  exact h.congr_deriv (by ring)

/-- C14, haversine, latitude: with `eps = 0` and `0 < a_1 < 1`, the first gradient entry is the
    derivative in `x0` of the distance that `haversine_grad` itself returns. -/
theorem haversine_grad_hasDerivAt_lat (x0 x1 y0 y1 : ℝ)
    (h0 : 0 < havA x0 x1 y0 y1) (h1 : havA x0 x1 y0 y1 < 1) :
    HasDerivAt
      (fun t => (Grad.haversineGrad realT Real.pi 0 [t, x1] [y0, y1]).get!.1)
      ((Grad.haversineGrad realT Real.pi 0 [x0, x1] [y0, y1]).get!.2.getD 0 0) x0 := by
  simp_rw [haversineGrad_fst]
  rw [haversineGrad_eq]
  exact hasDerivAt_hav_of (hasDerivAt_havA_lat x0 x1 y0 y1) h0 h1

/-- C14, haversine, longitude. -/
theorem haversine_grad_hasDerivAt_long (x0 x1 y0 y1 : ℝ)
    (h0 : 0 < havA x0 x1 y0 y1) (h1 : havA x0 x1 y0 y1 < 1) :
    HasDerivAt
      (fun t => (Grad.haversineGrad realT Real.pi 0 [x0, t] [y0, y1]).get!.1)
      ((Grad.haversineGrad realT Real.pi 0 [x0, x1] [y0, y1]).get!.2.getD 1 0) x1 := by
  simp_rw [haversineGrad_fst]
  rw [haversineGrad_eq]
  exact hasDerivAt_hav_of (hasDerivAt_havA_long x0 x1 y0 y1) h0 h1

/-- C14, haversine, both coordinates at once, in the style of the other C14 theorems. -/
theorem haversine_grad_hasDerivAt (x y : Fin 2 → ℝ) (i : Fin 2)
    (h0 : 0 < havA (x 0) (x 1) (y 0) (y 1)) (h1 : havA (x 0) (x 1) (y 0) (y 1) < 1) :
    HasDerivAt
      (fun t => (Grad.haversineGrad realT Real.pi 0 (List.ofFn (Function.update x i t))
        (List.ofFn y)).get!.1)
      ((Grad.haversineGrad realT Real.pi 0 (List.ofFn x) (List.ofFn y)).get!.2.getD i.val 0)
      (x i) := by
  simp only [ofFn2]
  fin_cases i
  · simpa using haversine_grad_hasDerivAt_lat (x 0) (x 1) (y 0) (y 1) h0 h1
  · simpa using haversine_grad_hasDerivAt_long (x 0) (x 1) (y 0) (y 1) h0 h1

/-- `a_1` is a convex combination of two squared sines, hence always in `[0, 1]`: the `abs`,
    `max … 0` and `min … 1` of the code are no-ops, and `0 < a_1 < 1` fails only at `a_1 = 0`
    (`d = 0`) and `a_1 = 1` (`d = π`, antipodal), where `d` is not differentiable. -/
theorem havA_eq (x0 x1 y0 y1 : ℝ) :
    havA x0 x1 y0 y1
      = (1 - Real.sin (1 / 2 * (x1 - y1)) ^ 2) * Real.sin (1 / 2 * (x0 - y0)) ^ 2
        + Real.sin (1 / 2 * (x1 - y1)) ^ 2 * Real.sin (1 / 2 * (x0 + y0)) ^ 2 := by
  unfold havA
  rw [Real.cos_add_pi_div_two, Real.cos_add_pi_div_two]
  have hx : Real.sin x0 = Real.sin (1 / 2 * (x0 + y0)) * Real.cos (1 / 2 * (x0 - y0))
      + Real.cos (1 / 2 * (x0 + y0)) * Real.sin (1 / 2 * (x0 - y0)) := by
    rw [← Real.sin_add]; congr 1; ring
  have hy : Real.sin y0 = Real.sin (1 / 2 * (x0 + y0)) * Real.cos (1 / 2 * (x0 - y0))
      - Real.cos (1 / 2 * (x0 + y0)) * Real.sin (1 / 2 * (x0 - y0)) := by
    rw [← Real.sin_sub]; congr 1; ring
  rw [hx, hy]
  have hA := Real.sin_sq_add_cos_sq (1 / 2 * (x0 - y0))
  have hB := Real.sin_sq_add_cos_sq (1 / 2 * (x0 + y0))
  linear_combination
    (Real.sin (1 / 2 * (x1 - y1)) ^ 2 * Real.sin (1 / 2 * (x0 + y0)) ^ 2) * hA
    - (Real.sin (1 / 2 * (x1 - y1)) ^ 2 * Real.sin (1 / 2 * (x0 - y0)) ^ 2) * hB

theorem havA_nonneg (x0 x1 y0 y1 : ℝ) : 0 ≤ havA x0 x1 y0 y1 := by
  rw [havA_eq]
  have := Real.sin_sq_le_one (1 / 2 * (x1 - y1))
  exact add_nonneg (mul_nonneg (by linarith) (sq_nonneg _)) (mul_nonneg (sq_nonneg _) (sq_nonneg _))

theorem havA_le_one (x0 x1 y0 y1 : ℝ) : havA x0 x1 y0 y1 ≤ 1 := by
  rw [havA_eq]
  have hs := Real.sin_sq_le_one (1 / 2 * (x1 - y1))
  have ha := Real.sin_sq_le_one (1 / 2 * (x0 - y0))
  have hb := Real.sin_sq_le_one (1 / 2 * (x0 + y0))
  have hs0 := sq_nonneg (Real.sin (1 / 2 * (x1 - y1)))
  nlinarith [mul_nonneg (sub_nonneg.2 hs) (sub_nonneg.2 ha), mul_nonneg hs0 (sub_nonneg.2 hb)]

theorem havA_val1 : havA (Real.pi / 2) 0 0 0 = 1 / 2 := by
  rw [havA_eq]
  have e1 : (1 / 2 * (Real.pi / 2 - 0) : ℝ) = Real.pi / 4 := by ring
  have e2 : (1 / 2 * (Real.pi / 2 + 0) : ℝ) = Real.pi / 4 := by ring
  have e3 : (1 / 2 * ((0 : ℝ) - 0)) = 0 := by ring
  rw [e1, e2, e3, Real.sin_zero, Real.sin_pi_div_four]
  have := Real.sq_sqrt (show (0 : ℝ) ≤ 2 by norm_num)
  nlinarith

theorem havA_val2 : havA (Real.pi / 2) (Real.pi / 2) (Real.pi / 2) 0 = 1 / 2 := by
  rw [havA_eq]
  have e1 : (1 / 2 * (Real.pi / 2 - 0) : ℝ) = Real.pi / 4 := by ring
  have e2 : (1 / 2 * (Real.pi / 2 + Real.pi / 2) : ℝ) = Real.pi / 2 := by ring
  have e3 : (1 / 2 * (Real.pi / 2 - Real.pi / 2) : ℝ) = 0 := by ring
  rw [e1, e2, e3, Real.sin_zero, Real.sin_pi_div_four, Real.sin_pi_div_two]
  have := Real.sq_sqrt (show (0 : ℝ) ≤ 2 by norm_num)
  nlinarith


/-- C14, haversine: the hypotheses `0 < a_1 < 1` are exactly `a_1 ≠ 0`, `a_1 ≠ 1`. -/
theorem haversine_grad_hasDerivAt' (x y : Fin 2 → ℝ) (i : Fin 2)
    (h0 : havA (x 0) (x 1) (y 0) (y 1) ≠ 0) (h1 : havA (x 0) (x 1) (y 0) (y 1) ≠ 1) :
    HasDerivAt
      (fun t => (Grad.haversineGrad realT Real.pi 0 (List.ofFn (Function.update x i t))
        (List.ofFn y)).get!.1)
      ((Grad.haversineGrad realT Real.pi 0 (List.ofFn x) (List.ofFn y)).get!.2.getD i.val 0)
      (x i) :=
  haversine_grad_hasDerivAt x y i (lt_of_le_of_ne (havA_nonneg _ _ _ _) (Ne.symm h0))
    (lt_of_le_of_ne (havA_le_one _ _ _ _) h1)

/-- non-vacuity, latitude: `x = (π/2, 0)`, `y = (0, 0)` has `a_1 = 1/2`. -/
example : HasDerivAt
    (fun t => (Grad.haversineGrad realT Real.pi 0 [t, 0] [0, 0]).get!.1)
    ((Grad.haversineGrad realT Real.pi 0 [Real.pi / 2, 0] [0, 0]).get!.2.getD 0 0)
    (Real.pi / 2) :=
  haversine_grad_hasDerivAt_lat (Real.pi / 2) 0 0 0 (by rw [havA_val1]; norm_num)
    (by rw [havA_val1]; norm_num)

/-- non-vacuity, longitude: `x = (π/2, π/2)`, `y = (π/2, 0)` has `a_1 = 1/2`. -/
example : HasDerivAt
    (fun t => (Grad.haversineGrad realT Real.pi 0 [Real.pi / 2, t] [Real.pi / 2, 0]).get!.1)
    ((Grad.haversineGrad realT Real.pi 0 [Real.pi / 2, Real.pi / 2]
      [Real.pi / 2, 0]).get!.2.getD 1 0)
    (Real.pi / 2) :=
  haversine_grad_hasDerivAt_long (Real.pi / 2) (Real.pi / 2) (Real.pi / 2) 0
    (by rw [havA_val2]; norm_num) (by rw [havA_val2]; norm_num)

theorem eps_alg (g D eps : ℝ) (hD : D ≠ 0) : g / (D + eps) = g / (D + 0) * (D / (D + eps)) := by
  rw [add_zero, div_mul_div_comm, mul_comm g D, mul_div_mul_left _ _ hD]

/-- the regularised (`eps ≠ 0`) gradient is the true one shrunk by `denom / (denom + eps)`. -/
theorem haversine_grad_eps (eps x0 x1 y0 y1 : ℝ) (i : Fin 2)
    (h0 : 0 < havA x0 x1 y0 y1) (h1 : havA x0 x1 y0 y1 < 1) :
    (Grad.haversineGrad realT Real.pi eps [x0, x1] [y0, y1]).get!.2.getD i.val 0
      = (Grad.haversineGrad realT Real.pi 0 [x0, x1] [y0, y1]).get!.2.getD i.val 0
        * (Real.sqrt |havA x0 x1 y0 y1 - 1| * Real.sqrt |havA x0 x1 y0 y1|
            / (Real.sqrt |havA x0 x1 y0 y1 - 1| * Real.sqrt |havA x0 x1 y0 y1| + eps)) := by
  have hD : Real.sqrt |havA x0 x1 y0 y1 - 1| * Real.sqrt |havA x0 x1 y0 y1| ≠ 0 := by
    apply mul_ne_zero
    · exact (Real.sqrt_pos.2 (abs_pos.2 (by linarith))).ne'
    · exact (Real.sqrt_pos.2 (abs_pos.2 h0.ne')).ne'
  rw [haversineGrad_eq, haversineGrad_eq]
  fin_cases i
  · exact eps_alg _ _ _ hD
  · exact eps_alg _ _ _ hD

/-! ### an observation: the distance `haversine_grad` returns is not `haversine(x, y)`

  Because of the `+ π/2` latitude shift inside `haversine_grad`, the distance it returns (and whose
  derivative its gradient is, by the theorems above) is the haversine distance of the two points
  with both latitudes shifted by `π/2`, which is a different function of `(x, y)`. -/

theorem haversineGrad_fst_eq_metric_shift (eps x0 x1 y0 y1 : ℝ) :
    (Grad.haversineGrad realT Real.pi eps [x0, x1] [y0, y1]).get!.1
      = (haversine realT [x0 + Real.pi / 2, x1] [y0 + Real.pi / 2, y1]).get! := by
  rw [haversineGrad_fst, abs_of_nonneg (havA_nonneg _ _ _ _), max_eq_left (havA_nonneg _ _ _ _),
    min_eq_left (havA_le_one _ _ _ _)]
  simp only [haversine, realT, two, Nat.cast_ofNat]
  have e : x0 + Real.pi / 2 - (y0 + Real.pi / 2) = x0 - y0 := by ring
  rw [e]
  unfold havA
  rw [add_comm]
  rfl

/-- at `x = (0, π)`, `y = (0, 0)` `haversine_grad` returns the distance `0` … -/
theorem haversineGrad_fst_example (eps : ℝ) :
    (Grad.haversineGrad realT Real.pi eps [0, Real.pi] [0, 0]).get!.1 = 0 := by
  rw [haversineGrad_fst]
  have h : havA 0 Real.pi 0 0 = 0 := by
    unfold havA
    simp
  rw [h]
  simp

/-- … while `haversine` of the same pair is `π`. -/
theorem haversine_example : (haversine realT [0, Real.pi] [0, 0]).get! = Real.pi := by
  simp only [haversine, realT, two, Nat.cast_ofNat]
  show 2 * Real.arcsin _ = Real.pi
  have e : (1 / 2 * (Real.pi - 0) : ℝ) = Real.pi / 2 := by ring
  rw [e]
  simp
  ring

theorem haversineGrad_fst_ne_metric :
    (Grad.haversineGrad realT Real.pi 0 [0, Real.pi] [0, 0]).get!.1
      ≠ (haversine realT [0, Real.pi] [0, 0]).get! := by
  rw [haversineGrad_fst_example, haversine_example]
  exact Real.pi_pos.ne

/-! ### spherical Gaussian energy -/

/-- closed form of everything `spherical_gaussian_energy_grad` returns. -/
theorem sphericalGaussianEnergyGrad_eq (x0 x1 x2 y0 y1 y2 : ℝ) :
    Grad.sphericalGaussianEnergyGrad realT Real.pi [x0, x1, x2] [y0, y1, y2]
      = some (((x0 - y0) * (x0 - y0) + (x1 - y1) * (x1 - y1)) / (2 * (|x2| + |y2|))
                + Real.log (|x2| + |y2|) + Real.log (2 * Real.pi),
          [ (x0 - y0) / (|x2| + |y2|), (x1 - y1) / (|x2| + |y2|),
            signV x2 * (1 / (|x2| + |y2|)
              - ((x0 - y0) * (x0 - y0) + (x1 - y1) * (x1 - y1))
                / (2 * ((|x2| + |y2|) * (|x2| + |y2|)))) ]) := by
  simp only [Grad.sphericalGaussianEnergyGrad, realT, two, Nat.cast_ofNat, absV_eq_abs]

theorem sphericalGaussianEnergyGrad_fst (x0 x1 x2 y0 y1 y2 : ℝ) :
    (Grad.sphericalGaussianEnergyGrad realT Real.pi [x0, x1, x2] [y0, y1, y2]).get!.1
      = ((x0 - y0) * (x0 - y0) + (x1 - y1) * (x1 - y1)) / (2 * (|x2| + |y2|))
          + Real.log (|x2| + |y2|) + Real.log (2 * Real.pi) := by
  rw [sphericalGaussianEnergyGrad_eq]; rfl

theorem sphericalGaussianEnergyGrad_length (x0 x1 x2 y0 y1 y2 : ℝ) :
    (Grad.sphericalGaussianEnergyGrad realT Real.pi [x0, x1, x2] [y0, y1, y2]).get!.2.length
      = 3 := by
  rw [sphericalGaussianEnergyGrad_eq]; rfl

/-- C14, spherical Gaussian energy, first mean coordinate. -/
theorem spherical_gaussian_energy_grad_hasDerivAt_x0 (x0 x1 x2 y0 y1 y2 : ℝ) :
    HasDerivAt
      (fun t => (Grad.sphericalGaussianEnergyGrad realT Real.pi [t, x1, x2] [y0, y1, y2]).get!.1)
      ((Grad.sphericalGaussianEnergyGrad realT Real.pi [x0, x1, x2] [y0, y1, y2]).get!.2.getD 0 0)
      x0 := by
  simp_rw [sphericalGaussianEnergyGrad_fst]
  rw [sphericalGaussianEnergyGrad_eq]
  have h : HasDerivAt (fun s : ℝ => s - y0) 1 x0 := (hasDerivAt_id' x0).sub_const y0
  have h2 := ((((h.fun_mul h).add_const ((x1 - y1) * (x1 - y1))).div_const
    (2 * (|x2| + |y2|))).add_const (Real.log (|x2| + |y2|))).add_const (Real.log (2 * Real.pi))
  refine h2.congr_deriv ?_
  show _ = (x0 - y0) / (|x2| + |y2|)
  rw [← two_mul_div_two_mul (x0 - y0) (|x2| + |y2|)]
  ring

/-- C14, spherical Gaussian energy, second mean coordinate. -/
theorem spherical_gaussian_energy_grad_hasDerivAt_x1 (x0 x1 x2 y0 y1 y2 : ℝ) :
    HasDerivAt
      (fun t => (Grad.sphericalGaussianEnergyGrad realT Real.pi [x0, t, x2] [y0, y1, y2]).get!.1)
      ((Grad.sphericalGaussianEnergyGrad realT Real.pi [x0, x1, x2] [y0, y1, y2]).get!.2.getD 1 0)
      x1 := by
  simp_rw [sphericalGaussianEnergyGrad_fst]
  rw [sphericalGaussianEnergyGrad_eq]
  have h : HasDerivAt (fun s : ℝ => s - y1) 1 x1 := (hasDerivAt_id' x1).sub_const y1
  have h2 := ((((h.fun_mul h).const_add ((x0 - y0) * (x0 - y0))).div_const
    (2 * (|x2| + |y2|))).add_const (Real.log (|x2| + |y2|))).add_const (Real.log (2 * Real.pi))
  refine h2.congr_deriv ?_
  show _ = (x1 - y1) / (|x2| + |y2|)
  rw [← two_mul_div_two_mul (x1 - y1) (|x2| + |y2|)]
  ring

/-- C14, spherical Gaussian energy, width coordinate (`x2 ≠ 0`, where `|·|` is
    differentiable; then `|x2| + |y2| > 0` automatically). -/
theorem spherical_gaussian_energy_grad_hasDerivAt_x2 (x0 x1 x2 y0 y1 y2 : ℝ) (hx2 : x2 ≠ 0) :
    HasDerivAt
      (fun t => (Grad.sphericalGaussianEnergyGrad realT Real.pi [x0, x1, t] [y0, y1, y2]).get!.1)
      ((Grad.sphericalGaussianEnergyGrad realT Real.pi [x0, x1, x2] [y0, y1, y2]).get!.2.getD 2 0)
      x2 := by
  simp_rw [sphericalGaussianEnergyGrad_fst]
  rw [sphericalGaussianEnergyGrad_eq]
  have hsg : 0 < |x2| + |y2| := add_pos_of_pos_of_nonneg (abs_pos.2 hx2) (abs_nonneg _)
  have hS : HasDerivAt (fun t : ℝ => |t| + |y2|) (signV x2) x2 :=
    (hasDerivAt_abs_signV hx2).add_const _
  have hq := (hasDerivAt_const x2 ((x0 - y0) * (x0 - y0) + (x1 - y1) * (x1 - y1))).fun_div
    (hS.const_mul 2) (by positivity)
  have h2 := (hq.fun_add (hS.log hsg.ne')).add_const (Real.log (2 * Real.pi))
  refine h2.congr_deriv ?_
  show _ = signV x2 * (1 / (|x2| + |y2|)
    - ((x0 - y0) * (x0 - y0) + (x1 - y1) * (x1 - y1)) / (2 * ((|x2| + |y2|) * (|x2| + |y2|))))
  field_simp
  ring

/-- C14, spherical Gaussian energy, all three coordinates at once (the width coordinate needs
    `x 2 ≠ 0`).  For the two mean coordinates no hypothesis is needed in Lean because `a / 0 = 0`
    there; the statement is meaningful for the Python code where `|x 2| + |y 2| > 0`. -/
theorem spherical_gaussian_energy_grad_hasDerivAt (x y : Fin 3 → ℝ) (i : Fin 3)
    (hw : i = 2 → x 2 ≠ 0) :
    HasDerivAt
      (fun t => (Grad.sphericalGaussianEnergyGrad realT Real.pi
        (List.ofFn (Function.update x i t)) (List.ofFn y)).get!.1)
      ((Grad.sphericalGaussianEnergyGrad realT Real.pi (List.ofFn x)
        (List.ofFn y)).get!.2.getD i.val 0) (x i) := by
  simp only [ofFn3]
  fin_cases i
  · simpa using spherical_gaussian_energy_grad_hasDerivAt_x0 (x 0) (x 1) (x 2) (y 0) (y 1) (y 2)
  · simpa using spherical_gaussian_energy_grad_hasDerivAt_x1 (x 0) (x 1) (x 2) (y 0) (y 1) (y 2)
  · simpa using spherical_gaussian_energy_grad_hasDerivAt_x2 (x 0) (x 1) (x 2) (y 0) (y 1) (y 2)
      (hw rfl)

/-- non-vacuity: every coordinate of `x = (1, 2, -3)` against `y = (0, 1, 2)`. -/
example (i : Fin 3) : HasDerivAt
    (fun t => (Grad.sphericalGaussianEnergyGrad realT Real.pi
      (List.ofFn (Function.update ![1, 2, -3] i t)) (List.ofFn ![0, 1, 2])).get!.1)
    ((Grad.sphericalGaussianEnergyGrad realT Real.pi (List.ofFn ![1, 2, -3])
      (List.ofFn ![0, 1, 2])).get!.2.getD i.val 0) ((![1, 2, -3] : Fin 3 → ℝ) i) :=
  spherical_gaussian_energy_grad_hasDerivAt ![1, 2, -3] ![0, 1, 2] i (fun _ => by simp)

example : HasDerivAt
    (fun t => (Grad.sphericalGaussianEnergyGrad realT Real.pi [1, 2, t] [0, 1, 2]).get!.1)
    ((Grad.sphericalGaussianEnergyGrad realT Real.pi [1, 2, -3] [0, 1, 2]).get!.2.getD 2 0)
    (-3) :=
  spherical_gaussian_energy_grad_hasDerivAt_x2 1 2 (-3) 0 1 2 (by norm_num)

/-! ### diagonal Gaussian energy -/

/-- the distance `diagonal_gaussian_energy_grad` returns when `det ≠ 0`, with the redundant
    absolute values (`|σ₁₁|`, `|σ₂₂|`, `|det|` of non-negative quantities) removed. -/
noncomputable def dgeDist (x0 x1 x2 x3 y0 y1 y2 y3 : ℝ) : ℝ :=
  (((|x3| + |y3|) * ((x0 - y0) * (x0 - y0)) + (|x2| + |y2|) * ((x1 - y1) * (x1 - y1)))
      / ((|x2| + |y2|) * (|x3| + |y3|))
    + Real.log ((|x2| + |y2|) * (|x3| + |y3|))) / 2 + Real.log (2 * Real.pi)

theorem abs_abs_add_abs (a b : ℝ) : |(|a| + |b|)| = |a| + |b| :=
  abs_of_nonneg (add_nonneg (abs_nonneg a) (abs_nonneg b))

/-- closed form of everything `diagonal_gaussian_energy_grad` returns when `det ≠ 0`. -/
theorem diagonalGaussianEnergyGrad_eq (x0 x1 x2 x3 y0 y1 y2 y3 : ℝ)
    (hdet : (|x2| + |y2|) * (|x3| + |y3|) ≠ 0) :
    Grad.diagonalGaussianEnergyGrad realT Real.pi [x0, x1, x2, x3] [y0, y1, y2, y3]
      = some (dgeDist x0 x1 x2 x3 y0 y1 y2 y3,
          [ 2 * (|x3| + |y3|) * (x0 - y0) / (2 * ((|x2| + |y2|) * (|x3| + |y3|))),
            2 * (|x2| + |y2|) * (x1 - y1) / (2 * ((|x2| + |y2|) * (|x3| + |y3|))),
            signV x2 * ((|x3| + |y3|) * ((|x2| + |y2|) * (|x3| + |y3|)
                  - ((|x3| + |y3|) * ((x0 - y0) * (x0 - y0))
                      + (|x2| + |y2|) * ((x1 - y1) * (x1 - y1))))
                + (|x2| + |y2|) * (|x3| + |y3|) * ((x1 - y1) * (x1 - y1)))
              / (2 * ((|x2| + |y2|) * (|x3| + |y3|) * ((|x2| + |y2|) * (|x3| + |y3|)))),
            signV x3 * ((|x2| + |y2|) * ((|x2| + |y2|) * (|x3| + |y3|)
                  - ((|x3| + |y3|) * ((x0 - y0) * (x0 - y0))
                      + (|x2| + |y2|) * ((x1 - y1) * (x1 - y1))))
                + (|x2| + |y2|) * (|x3| + |y3|) * ((x0 - y0) * (x0 - y0)))
              / (2 * ((|x2| + |y2|) * (|x3| + |y3|) * ((|x2| + |y2|) * (|x3| + |y3|)))) ]) := by
  simp only [Grad.diagonalGaussianEnergyGrad, realT, two, Nat.cast_ofNat, absV_eq_abs, eqV_iff,
    if_neg hdet, abs_abs_add_abs, abs_mul, dgeDist]

/-- the `det == 0` branch. -/
theorem diagonalGaussianEnergyGrad_eq_of_det_zero (x0 x1 x2 x3 y0 y1 y2 y3 : ℝ)
    (hdet : (|x2| + |y2|) * (|x3| + |y3|) = 0) :
    Grad.diagonalGaussianEnergyGrad realT Real.pi [x0, x1, x2, x3] [y0, y1, y2, y3]
      = some ((x0 - y0) * (x0 - y0) + (x1 - y1) * (x1 - y1), [0, 0, 1, 1]) := by
  simp only [Grad.diagonalGaussianEnergyGrad, absV_eq_abs, eqV_iff, if_pos hdet]

theorem diagonalGaussianEnergyGrad_fst (x0 x1 x2 x3 y0 y1 y2 y3 : ℝ)
    (hdet : (|x2| + |y2|) * (|x3| + |y3|) ≠ 0) :
    (Grad.diagonalGaussianEnergyGrad realT Real.pi [x0, x1, x2, x3] [y0, y1, y2, y3]).get!.1
      = dgeDist x0 x1 x2 x3 y0 y1 y2 y3 := by
  rw [diagonalGaussianEnergyGrad_eq _ _ _ _ _ _ _ _ hdet]; rfl

theorem diagonalGaussianEnergyGrad_length (x0 x1 x2 x3 y0 y1 y2 y3 : ℝ) :
    (Grad.diagonalGaussianEnergyGrad realT Real.pi [x0, x1, x2, x3] [y0, y1, y2, y3]).get!.2.length
      = 4 := by
  by_cases hdet : (|x2| + |y2|) * (|x3| + |y3|) = 0
  · rw [diagonalGaussianEnergyGrad_eq_of_det_zero _ _ _ _ _ _ _ _ hdet]; rfl
  · rw [diagonalGaussianEnergyGrad_eq _ _ _ _ _ _ _ _ hdet]; rfl

/-- C14, diagonal Gaussian energy, first mean coordinate (`det ≠ 0`). -/
theorem diagonal_gaussian_energy_grad_hasDerivAt_x0 (x0 x1 x2 x3 y0 y1 y2 y3 : ℝ)
    (hdet : (|x2| + |y2|) * (|x3| + |y3|) ≠ 0) :
    HasDerivAt
      (fun t => (Grad.diagonalGaussianEnergyGrad realT Real.pi [t, x1, x2, x3]
        [y0, y1, y2, y3]).get!.1)
      ((Grad.diagonalGaussianEnergyGrad realT Real.pi [x0, x1, x2, x3]
        [y0, y1, y2, y3]).get!.2.getD 0 0) x0 := by
  simp_rw [diagonalGaussianEnergyGrad_fst _ _ _ _ _ _ _ _ hdet]
  rw [diagonalGaussianEnergyGrad_eq _ _ _ _ _ _ _ _ hdet]
  unfold dgeDist
  have h : HasDerivAt (fun s : ℝ => s - y0) 1 x0 := (hasDerivAt_id' x0).sub_const y0
  have h2 := ((((((h.fun_mul h).const_mul (|x3| + |y3|)).add_const
    ((|x2| + |y2|) * ((x1 - y1) * (x1 - y1)))).div_const
    ((|x2| + |y2|) * (|x3| + |y3|))).add_const
    (Real.log ((|x2| + |y2|) * (|x3| + |y3|)))).div_const 2).add_const (Real.log (2 * Real.pi))
  refine h2.congr_deriv ?_
  show _ = 2 * (|x3| + |y3|) * (x0 - y0) / (2 * ((|x2| + |y2|) * (|x3| + |y3|)))
  field_simp
  ring

/-- C14, diagonal Gaussian energy, second mean coordinate (`det ≠ 0`). -/
theorem diagonal_gaussian_energy_grad_hasDerivAt_x1 (x0 x1 x2 x3 y0 y1 y2 y3 : ℝ)
    (hdet : (|x2| + |y2|) * (|x3| + |y3|) ≠ 0) :
    HasDerivAt
      (fun t => (Grad.diagonalGaussianEnergyGrad realT Real.pi [x0, t, x2, x3]
        [y0, y1, y2, y3]).get!.1)
      ((Grad.diagonalGaussianEnergyGrad realT Real.pi [x0, x1, x2, x3]
        [y0, y1, y2, y3]).get!.2.getD 1 0) x1 := by
  simp_rw [diagonalGaussianEnergyGrad_fst _ _ _ _ _ _ _ _ hdet]
  rw [diagonalGaussianEnergyGrad_eq _ _ _ _ _ _ _ _ hdet]
  unfold dgeDist
  have h : HasDerivAt (fun s : ℝ => s - y1) 1 x1 := (hasDerivAt_id' x1).sub_const y1
  have h2 := ((((((h.fun_mul h).const_mul (|x2| + |y2|)).const_add
    ((|x3| + |y3|) * ((x0 - y0) * (x0 - y0)))).div_const
    ((|x2| + |y2|) * (|x3| + |y3|))).add_const
    (Real.log ((|x2| + |y2|) * (|x3| + |y3|)))).div_const 2).add_const (Real.log (2 * Real.pi))
  refine h2.congr_deriv ?_
  show _ = 2 * (|x2| + |y2|) * (x1 - y1) / (2 * ((|x2| + |y2|) * (|x3| + |y3|)))
  field_simp
  ring

/-- C14, diagonal Gaussian energy, first width coordinate (`x2 ≠ 0`, `σ₂₂ ≠ 0`). -/
theorem diagonal_gaussian_energy_grad_hasDerivAt_x2 (x0 x1 x2 x3 y0 y1 y2 y3 : ℝ)
    (hx2 : x2 ≠ 0) (hs22 : |x3| + |y3| ≠ 0) :
    HasDerivAt
      (fun t => (Grad.diagonalGaussianEnergyGrad realT Real.pi [x0, x1, t, x3]
        [y0, y1, y2, y3]).get!.1)
      ((Grad.diagonalGaussianEnergyGrad realT Real.pi [x0, x1, x2, x3]
        [y0, y1, y2, y3]).get!.2.getD 2 0) x2 := by
  have hs11 : 0 < |x2| + |y2| := add_pos_of_pos_of_nonneg (abs_pos.2 hx2) (abs_nonneg _)
  have hs22' : 0 < |x3| + |y3| :=
    lt_of_le_of_ne (add_nonneg (abs_nonneg _) (abs_nonneg _)) (Ne.symm hs22)
  have hdet : (|x2| + |y2|) * (|x3| + |y3|) ≠ 0 := (mul_pos hs11 hs22').ne'
  have hev : (fun t => (Grad.diagonalGaussianEnergyGrad realT Real.pi [x0, x1, t, x3]
        [y0, y1, y2, y3]).get!.1) =ᶠ[nhds x2] (fun t => dgeDist x0 x1 t x3 y0 y1 y2 y3) := by
    have e1 : ∀ᶠ t in nhds x2, t ≠ 0 := continuousAt_id.eventually_ne hx2
    filter_upwards [e1] with t ht
    have : 0 < |t| + |y2| := add_pos_of_pos_of_nonneg (abs_pos.2 ht) (abs_nonneg _)
    exact diagonalGaussianEnergyGrad_fst _ _ _ _ _ _ _ _ (mul_pos this hs22').ne'
  refine HasDerivAt.congr_of_eventuallyEq ?_ hev
  rw [diagonalGaussianEnergyGrad_eq _ _ _ _ _ _ _ _ hdet]
  unfold dgeDist
  have hS : HasDerivAt (fun t : ℝ => |t| + |y2|) (signV x2) x2 :=
    (hasDerivAt_abs_signV hx2).add_const _
  have hmd := (hS.mul_const ((x1 - y1) * (x1 - y1))).const_add
    ((|x3| + |y3|) * ((x0 - y0) * (x0 - y0)))
  have hd := hS.mul_const (|x3| + |y3|)
  have h2 := (((hmd.fun_div hd hdet).fun_add (hd.log hdet)).div_const 2).add_const
    (Real.log (2 * Real.pi))
  refine h2.congr_deriv ?_
  show _ = signV x2 * ((|x3| + |y3|) * ((|x2| + |y2|) * (|x3| + |y3|)
                  - ((|x3| + |y3|) * ((x0 - y0) * (x0 - y0))
                      + (|x2| + |y2|) * ((x1 - y1) * (x1 - y1))))
                + (|x2| + |y2|) * (|x3| + |y3|) * ((x1 - y1) * (x1 - y1)))
              / (2 * ((|x2| + |y2|) * (|x3| + |y3|) * ((|x2| + |y2|) * (|x3| + |y3|))))
  field_simp
  ring

/-- C14, diagonal Gaussian energy, second width coordinate (`x3 ≠ 0`, `σ₁₁ ≠ 0`). -/
theorem diagonal_gaussian_energy_grad_hasDerivAt_x3 (x0 x1 x2 x3 y0 y1 y2 y3 : ℝ)
    (hx3 : x3 ≠ 0) (hs11 : |x2| + |y2| ≠ 0) :
    HasDerivAt
      (fun t => (Grad.diagonalGaussianEnergyGrad realT Real.pi [x0, x1, x2, t]
        [y0, y1, y2, y3]).get!.1)
      ((Grad.diagonalGaussianEnergyGrad realT Real.pi [x0, x1, x2, x3]
        [y0, y1, y2, y3]).get!.2.getD 3 0) x3 := by
  have hs22 : 0 < |x3| + |y3| := add_pos_of_pos_of_nonneg (abs_pos.2 hx3) (abs_nonneg _)
  have hs11' : 0 < |x2| + |y2| :=
    lt_of_le_of_ne (add_nonneg (abs_nonneg _) (abs_nonneg _)) (Ne.symm hs11)
  have hdet : (|x2| + |y2|) * (|x3| + |y3|) ≠ 0 := (mul_pos hs11' hs22).ne'
  have hev : (fun t => (Grad.diagonalGaussianEnergyGrad realT Real.pi [x0, x1, x2, t]
        [y0, y1, y2, y3]).get!.1) =ᶠ[nhds x3] (fun t => dgeDist x0 x1 x2 t y0 y1 y2 y3) := by
    have e1 : ∀ᶠ t in nhds x3, t ≠ 0 := continuousAt_id.eventually_ne hx3
    filter_upwards [e1] with t ht
    have : 0 < |t| + |y3| := add_pos_of_pos_of_nonneg (abs_pos.2 ht) (abs_nonneg _)
    exact diagonalGaussianEnergyGrad_fst _ _ _ _ _ _ _ _ (mul_pos hs11' this).ne'
  refine HasDerivAt.congr_of_eventuallyEq ?_ hev
  rw [diagonalGaussianEnergyGrad_eq _ _ _ _ _ _ _ _ hdet]
  unfold dgeDist
  have hS : HasDerivAt (fun t : ℝ => |t| + |y3|) (signV x3) x3 :=
    (hasDerivAt_abs_signV hx3).add_const _
  have hmd := (hS.mul_const ((x0 - y0) * (x0 - y0))).add_const
    ((|x2| + |y2|) * ((x1 - y1) * (x1 - y1)))
  have hd := hS.const_mul (|x2| + |y2|)
  have h2 := (((hmd.fun_div hd hdet).fun_add (hd.log hdet)).div_const 2).add_const
    (Real.log (2 * Real.pi))
  refine h2.congr_deriv ?_
  show _ = signV x3 * ((|x2| + |y2|) * ((|x2| + |y2|) * (|x3| + |y3|)
                  - ((|x3| + |y3|) * ((x0 - y0) * (x0 - y0))
                      + (|x2| + |y2|) * ((x1 - y1) * (x1 - y1))))
                + (|x2| + |y2|) * (|x3| + |y3|) * ((x0 - y0) * (x0 - y0)))
              / (2 * ((|x2| + |y2|) * (|x3| + |y3|) * ((|x2| + |y2|) * (|x3| + |y3|))))
  field_simp
  ring

/-- C14, diagonal Gaussian energy, all four coordinates at once: `det ≠ 0`, and the width
    coordinate being varied is non-zero (where `|·|` is differentiable). -/
theorem diagonal_gaussian_energy_grad_hasDerivAt (x y : Fin 4 → ℝ) (i : Fin 4)
    (hdet : (|x 2| + |y 2|) * (|x 3| + |y 3|) ≠ 0)
    (hw2 : i = 2 → x 2 ≠ 0) (hw3 : i = 3 → x 3 ≠ 0) :
    HasDerivAt
      (fun t => (Grad.diagonalGaussianEnergyGrad realT Real.pi
        (List.ofFn (Function.update x i t)) (List.ofFn y)).get!.1)
      ((Grad.diagonalGaussianEnergyGrad realT Real.pi (List.ofFn x)
        (List.ofFn y)).get!.2.getD i.val 0) (x i) := by
  simp only [ofFn4]
  fin_cases i
  · simpa using diagonal_gaussian_energy_grad_hasDerivAt_x0 (x 0) (x 1) (x 2) (x 3)
      (y 0) (y 1) (y 2) (y 3) hdet
  · simpa using diagonal_gaussian_energy_grad_hasDerivAt_x1 (x 0) (x 1) (x 2) (x 3)
      (y 0) (y 1) (y 2) (y 3) hdet
  · simpa using diagonal_gaussian_energy_grad_hasDerivAt_x2 (x 0) (x 1) (x 2) (x 3)
      (y 0) (y 1) (y 2) (y 3) (hw2 rfl) (right_ne_zero_of_mul hdet)
  · simpa using diagonal_gaussian_energy_grad_hasDerivAt_x3 (x 0) (x 1) (x 2) (x 3)
      (y 0) (y 1) (y 2) (y 3) (hw3 rfl) (left_ne_zero_of_mul hdet)

/-- the task's form: `x 2 ≠ 0`, `x 3 ≠ 0` (so `det > 0`). -/
theorem diagonal_gaussian_energy_grad_hasDerivAt' (x y : Fin 4 → ℝ) (i : Fin 4)
    (hx2 : x 2 ≠ 0) (hx3 : x 3 ≠ 0) :
    HasDerivAt
      (fun t => (Grad.diagonalGaussianEnergyGrad realT Real.pi
        (List.ofFn (Function.update x i t)) (List.ofFn y)).get!.1)
      ((Grad.diagonalGaussianEnergyGrad realT Real.pi (List.ofFn x)
        (List.ofFn y)).get!.2.getD i.val 0) (x i) :=
  diagonal_gaussian_energy_grad_hasDerivAt x y i
    (mul_pos (add_pos_of_pos_of_nonneg (abs_pos.2 hx2) (abs_nonneg _))
      (add_pos_of_pos_of_nonneg (abs_pos.2 hx3) (abs_nonneg _))).ne'
    (fun _ => hx2) (fun _ => hx3)

/-- non-vacuity: every coordinate of `x = (1, 2, -3, 1/2)` against `y = (0, 1, 2, 0)`. -/
example (i : Fin 4) : HasDerivAt
    (fun t => (Grad.diagonalGaussianEnergyGrad realT Real.pi
      (List.ofFn (Function.update ![1, 2, -3, 1 / 2] i t)) (List.ofFn ![0, 1, 2, 0])).get!.1)
    ((Grad.diagonalGaussianEnergyGrad realT Real.pi (List.ofFn ![1, 2, -3, 1 / 2])
      (List.ofFn ![0, 1, 2, 0])).get!.2.getD i.val 0) ((![1, 2, -3, 1 / 2] : Fin 4 → ℝ) i) :=
  diagonal_gaussian_energy_grad_hasDerivAt' ![1, 2, -3, 1 / 2] ![0, 1, 2, 0] i
    (by simp) (by simp)

example : HasDerivAt
    (fun t => (Grad.diagonalGaussianEnergyGrad realT Real.pi [1, 2, -3, t] [0, 1, 2, 0]).get!.1)
    ((Grad.diagonalGaussianEnergyGrad realT Real.pi [1, 2, -3, 1 / 2]
      [0, 1, 2, 0]).get!.2.getD 3 0) (1 / 2) :=
  diagonal_gaussian_energy_grad_hasDerivAt_x3 1 2 (-3) (1 / 2) 0 1 2 0 (by norm_num)
    (by norm_num)

/-! ### an observation: the `det == 0` branch of `diagonal_gaussian_energy_grad`

  The Python branch is marked `# TODO: figure out the right thing to do here`; it returns
  `μ₁² + μ₂²` with the constant "gradient" `[0, 0, 1, 1]`.  When `σ₂₂ = 0` (`x3 = y3 = 0`) the
  whole `x0`-line stays in that branch, the returned distance has derivative `2 (x0 - y0)` in
  `x0`, and the returned entry `0` is not that derivative unless `x0 = y0`. -/

theorem diagonal_gaussian_energy_det_zero_hasDerivAt_x0 (x0 x1 x2 x3 y0 y1 y2 y3 : ℝ)
    (hdet : (|x2| + |y2|) * (|x3| + |y3|) = 0) :
    HasDerivAt
      (fun t => (Grad.diagonalGaussianEnergyGrad realT Real.pi [t, x1, x2, x3]
        [y0, y1, y2, y3]).get!.1) (2 * (x0 - y0)) x0 := by
  simp_rw [diagonalGaussianEnergyGrad_eq_of_det_zero _ _ _ _ _ _ _ _ hdet]
  have h : HasDerivAt (fun s : ℝ => s - y0) 1 x0 := (hasDerivAt_id' x0).sub_const y0
  have h2 := (h.fun_mul h).add_const ((x1 - y1) * (x1 - y1))
  refine HasDerivAt.congr_deriv (f := fun t => (t - y0) * (t - y0) + (x1 - y1) * (x1 - y1)) h2 ?_
  ring

theorem diagonal_gaussian_energy_grad_ne_deriv_of_det_zero (x0 x1 x2 x3 y0 y1 y2 y3 : ℝ)
    (hdet : (|x2| + |y2|) * (|x3| + |y3|) = 0) (hne : x0 ≠ y0) :
    ¬ HasDerivAt
      (fun t => (Grad.diagonalGaussianEnergyGrad realT Real.pi [t, x1, x2, x3]
        [y0, y1, y2, y3]).get!.1)
      ((Grad.diagonalGaussianEnergyGrad realT Real.pi [x0, x1, x2, x3]
        [y0, y1, y2, y3]).get!.2.getD 0 0) x0 := by
  intro h
  have h2 := diagonal_gaussian_energy_det_zero_hasDerivAt_x0 x0 x1 x2 x3 y0 y1 y2 y3 hdet
  have e := h.unique h2
  rw [diagonalGaussianEnergyGrad_eq_of_det_zero _ _ _ _ _ _ _ _ hdet] at e
  have e' : (0 : ℝ) = 2 * (x0 - y0) := e
  apply hne
  linarith

example : ¬ HasDerivAt
    (fun t => (Grad.diagonalGaussianEnergyGrad realT Real.pi [t, 0, 1, 0] [0, 0, 1, 0]).get!.1)
    ((Grad.diagonalGaussianEnergyGrad realT Real.pi [1, 0, 1, 0] [0, 0, 1, 0]).get!.2.getD 0 0)
    1 :=
  diagonal_gaussian_energy_grad_ne_deriv_of_det_zero 1 0 1 0 0 0 1 0 (by simp) (by norm_num)

end C14
end Umap
