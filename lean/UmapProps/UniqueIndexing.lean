/-
  C16 / C10 / C18 — indexing with `unique=True`: labels, radii, NaN mask, combination guard.

  Python (`umap_.py`, `fit`):
      index, inverse = np.unique(X, return_index=True, return_inverse=True, axis=0)[1:3]
  the graph is built on `X[index]` (the distinct rows); per-vertex INPUTS are taken as
  `y[index]`; per-vertex RESULTS (embedding rows, radii) are mapped back as `result[inverse]`.

  Model: `index xs` = position in `xs` of the first occurrence of each distinct row (in
  `distinctRows` order), `inverse xs = Pipeline.inverseIndex xs`, `a[idx]` = `Pipeline.expand a idx`.

  * `nodup_distinctRows`, `length_distinctRows_le`, `repeated_iff`
                                   – the distinct rows; a row repeats ↔ fewer vertices than rows
  * `index_inverse`, `index_first` – `xs[index[inverse[i]]] = xs[i]`, `inverse[index[j]] = j`,
                                     `index[j]` is the FIRST occurrence
  * `labels_aligned`, `labels_roundtrip`
                                   – `y[index]` gives every input row its own label back
  * `labels_misaligned_counterexample`
                                   – `y[inverse]` (seeded fault) does not
  * `results_per_input_row`, `unmapped_results_wrong_length`
                                   – `r[inverse]`: one result per input row; without `[inverse]`
                                     the length is wrong as soon as a row repeats
  * `mask_positions`, `mask_after_expansion_counterexample`
                                   – a vertex mask goes before the expansion (or through `inverse`)
  * `guard_counts`, `guard_counts_instance`
                                   – embedding row counts agree, graph vertex counts differ
-/
import UmapModel.Pipeline
import UmapProps.C05

set_option linter.unusedSectionVars false

namespace Umap
namespace Unique
open Pipeline

variable {β : Type} [BEq β] [LawfulBEq β]

/-! ### 0. definitions -/

/-- `np.unique(..., return_index=True)`: for each distinct row, the position of its first
    occurrence among the input rows. -/
def index (xs : List β) : List Nat := (distinctRows xs).map (fun x => xs.idxOf x)

/-- `np.unique(..., return_inverse=True)`: for each input row, the number of its vertex. -/
def inverse (xs : List β) : List Nat := inverseIndex xs

/-- "a row repeats": two different positions hold the same row. -/
def Repeated (xs : List β) : Prop :=
  ∃ (i j : Nat) (_ : i < j) (hj : j < xs.length), xs[i] = xs[j]

/-- `r[p] = nan` for a per-vertex Boolean mask `p` (e.g. "vertex is isolated"). -/
def mask {γ : Type} (p : Nat → Bool) (nan : γ) (r : List γ) : List γ :=
  r.mapIdx (fun j v => if p j then nan else v)

/-! ### 1. the distinct rows -/

theorem nodup_eraseDups (xs : List β) : xs.eraseDups.Nodup := by
  induction h : xs.length using Nat.strong_induction_on generalizing xs with
  | _ n ih =>
    cases xs with
    | nil => simp
    | cons a as =>
      rw [List.eraseDups_cons, List.nodup_cons]
      refine ⟨?_, ih _ ?_ _ rfl⟩
      · simp
      · subst h
        exact Nat.lt_succ_of_le (List.length_filter_le _ _)

theorem nodup_distinctRows (xs : List β) : (distinctRows xs).Nodup := nodup_eraseDups xs

theorem mem_distinctRows (xs : List β) (x : β) : x ∈ distinctRows xs ↔ x ∈ xs :=
  List.mem_eraseDups

theorem distinctRows_subperm (xs : List β) : (distinctRows xs).Subperm xs :=
  List.subperm_of_subset (nodup_distinctRows xs) (fun x hx => (mem_distinctRows xs x).1 hx)

/-- never more vertices than rows. -/
theorem length_distinctRows_le (xs : List β) : (distinctRows xs).length ≤ xs.length :=
  (distinctRows_subperm xs).length_le

theorem length_distinctRows_eq_iff (xs : List β) :
    (distinctRows xs).length = xs.length ↔ xs.Nodup := by
  constructor
  · intro h
    have hp : (distinctRows xs).Perm xs :=
      (distinctRows_subperm xs).perm_of_length_le (le_of_eq h.symm)
    exact hp.nodup_iff.1 (nodup_distinctRows xs)
  · intro h
    have h2 : xs.Subperm (distinctRows xs) :=
      List.subperm_of_subset h (fun x hx => (mem_distinctRows xs x).2 hx)
    exact le_antisymm (length_distinctRows_le xs) h2.length_le

theorem repeated_iff_not_nodup (xs : List β) : Repeated xs ↔ ¬ xs.Nodup := by
  unfold Repeated
  rw [List.nodup_iff_getElem?_ne_getElem?]
  push Not
  constructor
  · rintro ⟨i, j, hij, hj, h⟩
    refine ⟨i, j, hij, hj, ?_⟩
    rw [List.getElem?_eq_getElem (lt_trans hij hj), List.getElem?_eq_getElem hj, h]
  · rintro ⟨i, j, hij, hj, h⟩
    refine ⟨i, j, hij, hj, ?_⟩
    rw [List.getElem?_eq_getElem (lt_trans hij hj), List.getElem?_eq_getElem hj] at h
    exact Option.some.inj h

/-- a row repeats ↔ there are strictly fewer vertices than input rows. -/
theorem repeated_iff (xs : List β) : Repeated xs ↔ (distinctRows xs).length < xs.length := by
  rw [repeated_iff_not_nodup, ← length_distinctRows_eq_iff]
  have := length_distinctRows_le xs
  omega

/-! ### 2. `index` / `inverse` -/

@[simp] theorem length_index (xs : List β) : (index xs).length = (distinctRows xs).length := by
  simp [index]

@[simp] theorem length_inverse (xs : List β) : (inverse xs).length = xs.length := by
  simp [inverse, inverseIndex]

theorem getElem_inverse (xs : List β) (i : Nat) (hi : i < xs.length) :
    (inverse xs)[i]'(by simpa using hi) = (distinctRows xs).idxOf xs[i] := by
  simp [inverse, inverseIndex]

theorem getElem_index (xs : List β) (j : Nat) (hj : j < (distinctRows xs).length) :
    (index xs)[j]'(by simpa using hj) = xs.idxOf (distinctRows xs)[j] := by
  simp [index]

/-- every inverse entry is a vertex number. -/
theorem inverse_lt (xs : List β) (i : Nat) (hi : i < xs.length) :
    (inverse xs)[i]'(by simpa using hi) < (distinctRows xs).length := by
  rw [getElem_inverse xs i hi]
  exact List.idxOf_lt_length_of_mem ((mem_distinctRows xs _).2 (List.getElem_mem hi))

/-- every index entry is an input row number. -/
theorem index_lt (xs : List β) (j : Nat) (hj : j < (distinctRows xs).length) :
    (index xs)[j]'(by simpa using hj) < xs.length := by
  rw [getElem_index xs j hj]
  exact List.idxOf_lt_length_of_mem ((mem_distinctRows xs _).1 (List.getElem_mem hj))

/-- the vertex of input row `i` holds row `i`'s data: `X[index][inverse[i]] = X[i]`. -/
theorem distinct_inverse (xs : List β) (i : Nat) (hi : i < xs.length) :
    (distinctRows xs)[(inverse xs)[i]'(by simpa using hi)]'(inverse_lt xs i hi) = xs[i] := by
  simp only [getElem_inverse xs i hi]
  exact List.getElem_idxOf _

/-- vertex `j` holds the data of input row `index[j]`: `X[index][j] = X[index[j]]`. -/
theorem xs_index (xs : List β) (j : Nat) (hj : j < (distinctRows xs).length) :
    xs[(index xs)[j]'(by simpa using hj)]'(index_lt xs j hj) = (distinctRows xs)[j] := by
  simp only [getElem_index xs j hj]
  exact List.getElem_idxOf _

/-- 1a. `xs[index[inverse[i]]] = xs[i]`. -/
theorem index_inverse_left (xs : List β) (i : Nat) (hi : i < xs.length) :
    xs[(index xs)[(inverse xs)[i]'(by simpa using hi)]'(by simpa using inverse_lt xs i hi)]'
        (index_lt xs _ (inverse_lt xs i hi)) = xs[i] := by
  rw [xs_index xs _ (inverse_lt xs i hi), distinct_inverse xs i hi]

/-- 1b. `inverse[index[j]] = j`. -/
theorem index_inverse_right (xs : List β) (j : Nat) (hj : j < (distinctRows xs).length) :
    (inverse xs)[(index xs)[j]'(by simpa using hj)]'(by simpa using index_lt xs j hj) = j := by
  rw [getElem_inverse xs _ (index_lt xs j hj), xs_index xs j hj]
  exact (nodup_distinctRows xs).idxOf_getElem j hj

/-- 1. the two halves of the `np.unique` contract. -/
theorem index_inverse (xs : List β) :
    (∀ (i : Nat) (hi : i < xs.length),
      xs[(index xs)[(inverse xs)[i]'(by simpa using hi)]'(by simpa using inverse_lt xs i hi)]'
        (index_lt xs _ (inverse_lt xs i hi)) = xs[i])
    ∧ (∀ (j : Nat) (hj : j < (distinctRows xs).length),
      (inverse xs)[(index xs)[j]'(by simpa using hj)]'(by simpa using index_lt xs j hj) = j) :=
  ⟨index_inverse_left xs, index_inverse_right xs⟩

/-- `index[j]` is the FIRST occurrence: no earlier input row equals it. -/
theorem index_first (xs : List β) (j : Nat) (hj : j < (distinctRows xs).length) (k : Nat)
    (hk : k < (index xs)[j]'(by simpa using hj)) :
    xs[k]'(lt_trans hk (index_lt xs j hj)) ≠ xs[(index xs)[j]'(by simpa using hj)]'(index_lt xs j hj) := by
  rw [xs_index xs j hj]
  rw [getElem_index xs j hj] at hk
  intro h
  have hf := List.not_of_lt_findIdx (p := (· == (distinctRows xs)[j])) (xs := xs) hk
  simp [h] at hf

/-- rows are identical iff they have the same vertex. -/
theorem inverse_eq_iff (xs : List β) (i i' : Nat) (hi : i < xs.length) (hi' : i' < xs.length) :
    (inverse xs)[i]'(by simpa using hi) = (inverse xs)[i']'(by simpa using hi') ↔ xs[i] = xs[i'] := by
  constructor
  · intro h
    rw [← distinct_inverse xs i hi, ← distinct_inverse xs i' hi']
    simp only [h]
  · intro h
    rw [getElem_inverse xs i hi, getElem_inverse xs i' hi', h]

/-! ### 3. labels: `y[index]` -/

theorem getElem_expand {γ : Type} [Inhabited γ] (a : List γ) (idx : List Nat) (i : Nat)
    (hi : i < idx.length) (h : idx[i] < a.length) :
    (expand a idx)[i]'(by simpa [expand] using hi) = a[idx[i]] := by
  simp only [expand, List.getElem_map]
  rw [List.getD_eq_getElem?_getD, List.getElem?_eq_getElem h, Option.getD_some]

@[simp] theorem length_expand {γ : Type} [Inhabited γ] (a : List γ) (idx : List Nat) :
    (expand a idx).length = idx.length := by simp [expand]

/-- 2. if identical rows carry identical labels, the vertex labels `y[index]` give every input
    row its own label back: `(y[index])[inverse[i]] = y[i]`. -/
theorem labels_aligned {γ : Type} [Inhabited γ] (xs : List β) (y : List γ)
    (hy : y.length = xs.length)
    (hcompat : ∀ (i i' : Nat) (hi : i < xs.length) (hi' : i' < xs.length),
      xs[i] = xs[i'] → y[i]'(hy ▸ hi) = y[i']'(hy ▸ hi'))
    (i : Nat) (hi : i < xs.length) :
    (expand y (index xs))[(inverse xs)[i]'(by simpa using hi)]'
        (by simpa using inverse_lt xs i hi) = y[i]'(hy ▸ hi) := by
  have hv := inverse_lt xs i hi
  have hk := index_lt xs _ hv
  rw [getElem_expand y (index xs) _ (by simpa using hv) (by rw [hy]; exact hk)]
  exact hcompat _ i hk hi (index_inverse_left xs i hi)

/-- 2'. the same as one list equation: `y[index][inverse] = y`. -/
theorem labels_roundtrip {γ : Type} [Inhabited γ] (xs : List β) (y : List γ)
    (hy : y.length = xs.length)
    (hcompat : ∀ (i i' : Nat) (hi : i < xs.length) (hi' : i' < xs.length),
      xs[i] = xs[i'] → y[i]'(hy ▸ hi) = y[i']'(hy ▸ hi')) :
    expand (expand y (index xs)) (inverse xs) = y := by
  apply List.ext_getElem
  · simp [hy]
  · intro i h1 h2
    have hi : i < xs.length := hy ▸ h2
    rw [getElem_expand _ (inverse xs) i (by simpa using hi) (by simpa using inverse_lt xs i hi)]
    exact labels_aligned xs y hy hcompat i hi

/-- every vertex carries the label of the row it represents: `(y[index])[j] = y[index[j]]`
    (needs no compatibility hypothesis). -/
theorem labels_vertex {γ : Type} [Inhabited γ] (xs : List β) (y : List γ)
    (hy : y.length = xs.length) (j : Nat) (hj : j < (distinctRows xs).length) :
    (expand y (index xs))[j]'(by simpa using hj)
      = y[(index xs)[j]'(by simpa using hj)]'(hy ▸ index_lt xs j hj) :=
  getElem_expand y (index xs) j (by simpa using hj) (by rw [hy]; exact index_lt xs j hj)

/-- non-vacuity of `labels_aligned`: rows `[5,3,5,7]`, labels `[10,20,10,30]`. -/
example : ([5, 3, 5, 7] : List Nat).length = ([10, 20, 10, 30] : List Nat).length
    ∧ (∀ i i' : Fin 4, ([5, 3, 5, 7] : List Nat)[i] = ([5, 3, 5, 7] : List Nat)[i'] →
        ([10, 20, 10, 30] : List Nat)[i] = ([10, 20, 10, 30] : List Nat)[i'])
    ∧ index ([5, 3, 5, 7] : List Nat) = [0, 1, 3]
    ∧ inverse ([5, 3, 5, 7] : List Nat) = [0, 1, 0, 2]
    ∧ expand ([10, 20, 10, 30] : List Nat) (index ([5, 3, 5, 7] : List Nat)) = [10, 20, 30]
    ∧ expand (expand ([10, 20, 10, 30] : List Nat) (index ([5, 3, 5, 7] : List Nat)))
        (inverse ([5, 3, 5, 7] : List Nat)) = [10, 20, 10, 30] := by
  decide

/-- 3. the seeded fault `y_ = y[inverse]` (a list of length `xs.length`, read at the vertex
    positions `j < n_distinct`): for rows `[5,3,5,7]` with compatible labels `[10,20,10,30]`,
    vertex `2` represents input row `index[2] = 3` (label `30`) but is handed label `10`. -/
theorem labels_misaligned_counterexample :
    let xs : List Nat := [5, 3, 5, 7]
    let y : List Nat := [10, 20, 10, 30]
    y.length = xs.length
    ∧ (∀ i i' : Fin 4, xs[i] = xs[i'] → y[i] = y[i'])
    ∧ (distinctRows xs).length = 3
    ∧ (index xs)[2]! = 3
    ∧ (expand y (inverse xs)).length = xs.length
    ∧ (expand y (inverse xs))[2]! = 10
    ∧ y[(index xs)[2]!]! = 30
    ∧ (expand y (inverse xs))[2]! ≠ y[(index xs)[2]!]!
    ∧ (expand y (index xs))[2]! = y[(index xs)[2]!]! := by
  decide

/-! ### 4. results: `r[inverse]` -/

/-- 4a. `r[inverse]` has one entry per input row, input row `i` gets the result of its vertex,
    and identical rows get the identical result. -/
theorem results_per_input_row {γ : Type} [Inhabited γ] (xs : List β) (r : List γ) :
    (expand r (inverse xs)).length = xs.length
    ∧ (∀ (i : Nat) (hi : i < xs.length), r.length = (distinctRows xs).length →
        (expand r (inverse xs))[i]'(by simpa using hi)
          = r.getD ((inverse xs)[i]'(by simpa using hi)) default
        ∧ ∃ h : (inverse xs)[i]'(by simpa using hi) < r.length,
            (expand r (inverse xs))[i]'(by simpa using hi) = r[(inverse xs)[i]'(by simpa using hi)])
    ∧ (∀ (i i' : Nat) (hi : i < xs.length) (hi' : i' < xs.length), xs[i] = xs[i'] →
        (expand r (inverse xs))[i]'(by simpa using hi)
          = (expand r (inverse xs))[i']'(by simpa using hi')) := by
  refine ⟨by simp, ?_, ?_⟩
  · intro i hi hr
    have h : (inverse xs)[i]'(by simpa using hi) < r.length := hr ▸ inverse_lt xs i hi
    refine ⟨by simp [expand], h, ?_⟩
    exact getElem_expand r (inverse xs) i (by simpa using hi) h
  · intro i i' hi hi' h
    have := (inverse_eq_iff xs i i' hi hi').2 h
    simp only [expand, List.getElem_map, this]

/-- 4b. without `[inverse]` (seeded fault: `rad_orig_ = aux_data["rad_orig"]`) the per-vertex
    result has the wrong length as soon as a row repeats — and only then. -/
theorem unmapped_results_wrong_length {γ : Type} (xs : List β) (r : List γ)
    (hr : r.length = (distinctRows xs).length) :
    r.length ≤ xs.length ∧ (r.length < xs.length ↔ Repeated xs)
      ∧ (r.length = xs.length ↔ xs.Nodup) := by
  rw [hr]
  exact ⟨length_distinctRows_le xs, (repeated_iff xs).symm, length_distinctRows_eq_iff xs⟩

/-- non-vacuity: `[5,5,3,7]` has a repeated row; three radii for four rows. -/
example : Repeated ([5, 5, 3, 7] : List Nat) := ⟨0, 1, by decide, by decide, by decide⟩
example : (distinctRows ([5, 5, 3, 7] : List Nat)).length = 3
    ∧ (expand ([100, 200, 300] : List Nat) (inverse ([5, 5, 3, 7] : List Nat))) = [100, 100, 200, 300] := by
  decide

/-! ### 5. the NaN mask of isolated vertices -/

@[simp] theorem length_mask {γ : Type} (p : Nat → Bool) (nan : γ) (r : List γ) :
    (mask p nan r).length = r.length := by simp [mask]

/-- 5a. masking the per-vertex result BEFORE the expansion marks exactly the input rows whose
    vertex satisfies `p`. -/
theorem mask_positions {γ : Type} [Inhabited γ] (xs : List β) (p : Nat → Bool) (nan : γ)
    (r : List γ) (hr : r.length = (distinctRows xs).length) (i : Nat) (hi : i < xs.length) :
    (expand (mask p nan r) (inverse xs))[i]'(by simpa using hi)
      = if p ((inverse xs)[i]'(by simpa using hi)) then nan
        else r[(inverse xs)[i]'(by simpa using hi)]'(hr ▸ inverse_lt xs i hi) := by
  have h : (inverse xs)[i]'(by simpa using hi) < r.length := hr ▸ inverse_lt xs i hi
  rw [getElem_expand (mask p nan r) (inverse xs) i (by simpa using hi) (by simpa using h)]
  simp [mask]

/-- 5a'. equivalently: expand first, then mask THROUGH `inverse` (input row `i` is marked iff
    `p (inverse[i])`). -/
theorem mask_through_inverse {γ : Type} [Inhabited γ] (xs : List β) (p : Nat → Bool) (nan : γ)
    (r : List γ) (hr : r.length = (distinctRows xs).length) :
    expand (mask p nan r) (inverse xs)
      = mask (fun i => p ((inverse xs).getD i 0)) nan (expand r (inverse xs)) := by
  apply List.ext_getElem
  · simp
  · intro i h1 h2
    have hi : i < xs.length := by simpa using h1
    have h : (inverse xs)[i]'(by simpa using hi) < r.length := hr ▸ inverse_lt xs i hi
    rw [mask_positions xs p nan r hr i hi]
    have hd : (inverse xs).getD i 0 = (inverse xs)[i]'(by simpa using hi) := by
      rw [List.getD_eq_getElem?_getD, List.getElem?_eq_getElem (by simpa using hi),
        Option.getD_some]
    simp only [mask, List.getElem_mapIdx, hd]
    rw [getElem_expand r (inverse xs) i (by simpa using hi) h]

/-- 5b. the seeded fault (mask applied AFTER `[inverse]`, positions still in vertex numbering):
    rows `[5,5,3,7]`, vertex `1` (the row `3`) isolated, results `[100,200,300]`, `nan := 0`.
    Correct: `[100,100,nan,300]`.  Faulty: `[100,nan,200,300]` — input row `1` (a copy of the
    connected row `5`) is blanked and the isolated input row `2` keeps coordinates. -/
theorem mask_after_expansion_counterexample :
    let xs : List Nat := [5, 5, 3, 7]
    let r : List Nat := [100, 200, 300]
    let p : Nat → Bool := fun j => j == 1
    r.length = (distinctRows xs).length
    ∧ inverse xs = [0, 0, 1, 2]
    ∧ expand (mask p 0 r) (inverse xs) = [100, 100, 0, 300]
    ∧ mask p 0 (expand r (inverse xs)) = [100, 0, 200, 300]
    ∧ mask p 0 (expand r (inverse xs)) ≠ expand (mask p 0 r) (inverse xs)
    ∧ p ((inverse xs)[1]!) = false ∧ (mask p 0 (expand r (inverse xs)))[1]! = 0
    ∧ p ((inverse xs)[2]!) = true ∧ (mask p 0 (expand r (inverse xs)))[2]! ≠ 0 := by
  decide

/-! ### 6. the guard of `__mul__` / `__add__` / `__sub__` -/

/-- the two shapes a combination guard can look at. -/
structure Shapes where
  graphVertices : Nat
  embeddingRows : Nat
deriving DecidableEq, Repr

/-- shapes of a model fitted on `xs`: with `unique=True` the graph lives on the distinct rows and
    the embedding (one row per vertex, here a placeholder list) is expanded through `inverse`. -/
def fitShapes (unique : Bool) (xs : List β) : Shapes :=
  if unique then
    { graphVertices := (distinctRows xs).length
      embeddingRows := (expand (List.range (distinctRows xs).length) (inverse xs)).length }
  else
    { graphVertices := xs.length, embeddingRows := xs.length }

/-- the guard of the pinned code: `self.graph_.shape[0] != other.graph_.shape[0]` → reject. -/
def guardGraph (a b : Shapes) : Bool := a.graphVertices == b.graphVertices
/-- the seeded fault: the guard compares `embedding_.shape[0]`. -/
def guardEmbedding (a b : Shapes) : Bool := a.embeddingRows == b.embeddingRows

/-- 6. two models over the same input rows, one of them with `unique=True`: the embedding row
    counts always agree; the graph vertex counts differ exactly when a row repeats.  So the
    embedding guard accepts operands whose graphs cannot be combined, the graph guard does not. -/
theorem guard_counts (xs : List β) :
    (fitShapes true xs).embeddingRows = (fitShapes false xs).embeddingRows
    ∧ guardEmbedding (fitShapes true xs) (fitShapes false xs) = true
    ∧ (Repeated xs ↔ (fitShapes true xs).graphVertices < (fitShapes false xs).graphVertices)
    ∧ (Repeated xs ↔ guardGraph (fitShapes true xs) (fitShapes false xs) = false) := by
  have hle := length_distinctRows_le xs
  have hrep := repeated_iff xs
  refine ⟨by simp [fitShapes], by simp [fitShapes, guardEmbedding], ?_, ?_⟩
  · simpa [fitShapes] using hrep
  · simp only [fitShapes, guardGraph, if_true, Bool.false_eq_true, if_false, beq_eq_false_iff_ne,
      ne_eq, hrep]
    omega

/-- the implication form: a repeated row makes the embedding guard accept what the graph guard
    rejects. -/
theorem guard_counts_of_repeated (xs : List β) (h : Repeated xs) :
    guardEmbedding (fitShapes true xs) (fitShapes false xs) = true
    ∧ guardGraph (fitShapes true xs) (fitShapes false xs) = false
    ∧ (fitShapes true xs).graphVertices ≠ (fitShapes false xs).graphVertices := by
  obtain ⟨_, h2, h3, h4⟩ := guard_counts xs
  exact ⟨h2, h4.1 h, Nat.ne_of_lt (h3.1 h)⟩

/-- concrete instance: rows `[5,5,3,7]` — 4 embedding rows on both sides, 3 vs 4 vertices. -/
theorem guard_counts_instance :
    fitShapes true ([5, 5, 3, 7] : List Nat) = ⟨3, 4⟩
    ∧ fitShapes false ([5, 5, 3, 7] : List Nat) = ⟨4, 4⟩
    ∧ guardEmbedding (fitShapes true ([5, 5, 3, 7] : List Nat)) (fitShapes false [5, 5, 3, 7]) = true
    ∧ guardGraph (fitShapes true ([5, 5, 3, 7] : List Nat)) (fitShapes false [5, 5, 3, 7]) = false := by
  decide

/-- without a repeated row the two guards agree (the fault is invisible on duplicate-free data). -/
example : guardGraph (fitShapes true ([5, 3, 7] : List Nat)) (fitShapes false [5, 3, 7]) = true := by
  decide

end Unique
end Umap
