/-
  C16 — categorical supervision attenuates cross-label edges and keeps the graph well formed.

  Model: `Umap.Graph.fastIntersection`, `rowMaxNormalize`, `resetLocalConnectivity`,
  `categoricalIntersection` (umap_.py `fast_intersection`, `reset_local_connectivity`,
  `discrete_metric_simplicial_set_intersection`).

  Everything that does not mention a concrete transcendental function holds over every linear
  ordered field `K` and every record `T : Transc K`; the numeric corollaries are over ℝ with
  `realT`.
-/
import UmapProofs.GraphLemmas
import UmapProofs.RealT
import UmapProps.C02
import Mathlib.Tactic
import Mathlib.Analysis.SpecialFunctions.Exp

namespace Umap
namespace C16
open Graph

variable {K : Type} [Field K] [LinearOrder K] [IsStrictOrderedRing K]

/-! ### 1. the attenuation factor -/

/-- the label of sample `i`; `none` = unlabelled (`-1` in the code). -/
def labelAt (labels : List (Option Int)) (i : Nat) : Option Int := (labels[i]?).getD none

/-- the factor applied by `fast_intersection` to an entry at position `(i, j)`. -/
def factor (T : Transc K) (labels : List (Option Int)) (ud fd : K) (i j : Nat) : K :=
  match labelAt labels i, labelAt labels j with
  | some a, some b => if a = b then 1 else T.exp (-fd)
  | _, _ => T.exp (-ud)

/-- both labels known and equal: the entry is untouched. -/
theorem factor_same (T : Transc K) (labels : List (Option Int)) (ud fd : K) (i j : Nat) (a : Int)
    (hi : labelAt labels i = some a) (hj : labelAt labels j = some a) :
    factor T labels ud fd i j = 1 := by
  simp [factor, hi, hj]

/-- both labels known and different: `exp(-far_dist)`. -/
theorem factor_diff (T : Transc K) (labels : List (Option Int)) (ud fd : K) (i j : Nat) (a b : Int)
    (hi : labelAt labels i = some a) (hj : labelAt labels j = some b) (hab : a ≠ b) :
    factor T labels ud fd i j = T.exp (-fd) := by
  simp [factor, hi, hj, hab]

/-- either label unknown: `exp(-unknown_dist)`. -/
theorem factor_unknown (T : Transc K) (labels : List (Option Int)) (ud fd : K) (i j : Nat)
    (h : labelAt labels i = none ∨ labelAt labels j = none) :
    factor T labels ud fd i j = T.exp (-ud) := by
  unfold factor
  rcases h with h | h
  · rw [h]
  · rw [h]; cases labelAt labels i <;> rfl

/-- the three cases are exhaustive. -/
theorem factor_cases (T : Transc K) (labels : List (Option Int)) (ud fd : K) (i j : Nat) :
    factor T labels ud fd i j = 1 ∨ factor T labels ud fd i j = T.exp (-fd)
      ∨ factor T labels ud fd i j = T.exp (-ud) := by
  rcases hi : labelAt labels i with _ | a
  · exact Or.inr (Or.inr (factor_unknown T labels ud fd i j (Or.inl hi)))
  · rcases hj : labelAt labels j with _ | b
    · exact Or.inr (Or.inr (factor_unknown T labels ud fd i j (Or.inr hj)))
    · by_cases hab : a = b
      · subst hab; exact Or.inl (factor_same T labels ud fd i j a hi hj)
      · exact Or.inr (Or.inl (factor_diff T labels ud fd i j a b hi hj hab))

/-- the factor only depends on the unordered pair. -/
theorem factor_symm (T : Transc K) (labels : List (Option Int)) (ud fd : K) (i j : Nat) :
    factor T labels ud fd i j = factor T labels ud fd j i := by
  unfold factor
  cases labelAt labels i <;> cases labelAt labels j <;> simp only
  rename_i a b
  by_cases h : a = b
  · rw [if_pos h, if_pos h.symm]
  · rw [if_neg h, if_neg (Ne.symm h)]

/-- **attenuate_factor**: `fast_intersection` multiplies every stored triple by `factor`. -/
theorem attenuate_factor (T : Transc K) (labels : List (Option Int)) (ud fd : K) (A : Coo K) :
    fastIntersection T labels ud fd A
      = A.map (fun (i, j, v) => (i, j, v * factor T labels ud fd i j)) := by
  unfold fastIntersection
  apply List.map_congr_left
  rintro ⟨i, j, v⟩ _
  simp only [factor, labelAt]
  rcases hi : labels[i]? with _ | _ | a <;> rcases hj : labels[j]? with _ | _ | b <;>
    simp only [Option.getD_none, Option.getD_some]
  by_cases hab : a = b
  · simp [hab]
  · simp [hab]

/-- the same, with projections instead of a pattern-matching lambda. -/
theorem attenuate_factor' (T : Transc K) (labels : List (Option Int)) (ud fd : K) (A : Coo K) :
    fastIntersection T labels ud fd A
      = A.map (fun t => (t.1, t.2.1, t.2.2 * factor T labels ud fd t.1 t.2.1)) :=
  attenuate_factor T labels ud fd A

/-- membership form: the triples of the result are exactly the scaled triples of `A`. -/
theorem mem_fastIntersection (T : Transc K) (labels : List (Option Int)) (ud fd : K) (A : Coo K)
    (i j : Nat) (w : K) :
    (i, j, w) ∈ fastIntersection T labels ud fd A
      ↔ ∃ v, (i, j, v) ∈ A ∧ w = v * factor T labels ud fd i j := by
  rw [attenuate_factor']
  simp only [List.mem_map, Prod.mk.injEq, Prod.exists]
  constructor
  · rintro ⟨a, b, v, h, rfl, rfl, rfl⟩; exact ⟨v, h, rfl⟩
  · rintro ⟨v, h, rfl⟩; exact ⟨i, j, v, h, rfl, rfl, rfl⟩

/-- the matrix value is scaled by the same factor (duplicates share their position). -/
theorem lookup_fastIntersection (T : Transc K) (labels : List (Option Int)) (ud fd : K)
    (A : Coo K) (i j : Nat) :
    lookup (fastIntersection T labels ud fd A) i j = lookup A i j * factor T labels ud fd i j := by
  rw [attenuate_factor']
  exact lookup_map_scale (factor T labels ud fd) A i j

/-! #### over ℝ: the defaults of `discrete_metric_simplicial_set_intersection`
  (`unknown_dist = 1`, `far_dist = 2.5 / (1 - target_weight)`) -/

/-- cross-label entries are multiplied by `exp(-2.5/(1-w))` (relative to same-label entries,
    whose factor is `1`). -/
theorem cross_label_factor_real (labels : List (Option Int)) (w : ℝ) (i j i' j' : Nat) (a b c : Int)
    (hi : labelAt labels i = some a) (hj : labelAt labels j = some b) (hab : a ≠ b)
    (hi' : labelAt labels i' = some c) (hj' : labelAt labels j' = some c) :
    factor realT labels 1 (2.5 / (1 - w)) i j / factor realT labels 1 (2.5 / (1 - w)) i' j'
      = Real.exp (-(2.5 / (1 - w))) := by
  rw [factor_diff realT labels _ _ i j a b hi hj hab, factor_same realT labels _ _ i' j' c hi' hj',
    div_one]
  rfl

/-- entries touching an unlabelled sample are multiplied by `exp(-1)`. -/
theorem unlabelled_factor_real (labels : List (Option Int)) (fd : ℝ) (i j : Nat)
    (h : labelAt labels i = none ∨ labelAt labels j = none) :
    factor realT labels 1 fd i j = Real.exp (-1) := by
  rw [factor_unknown realT labels 1 fd i j h]; rfl

/-- for every target weight `w ∈ [0, 1)` the three factors are strictly ordered:
    cross-label `<` unlabelled `<` same-label `= 1`, and all are positive. -/
theorem factor_order_real (w : ℝ) (hw0 : 0 ≤ w) (hw1 : w < 1) :
    0 < Real.exp (-(2.5 / (1 - w))) ∧ Real.exp (-(2.5 / (1 - w))) < Real.exp (-1)
      ∧ Real.exp (-1) < 1 := by
  refine ⟨Real.exp_pos _, ?_, ?_⟩
  · apply Real.exp_lt_exp.2
    have h1 : 0 < 1 - w := by linarith
    have : 1 < 2.5 / (1 - w) := by
      rw [lt_div_iff₀ h1]; linarith
    linarith
  · apply Real.exp_lt_one_iff.2 ; norm_num

/-- the real factor is always positive. -/
theorem factor_pos_real (labels : List (Option Int)) (ud fd : ℝ) (i j : Nat) :
    0 < factor realT labels ud fd i j := by
  rcases factor_cases realT labels ud fd i j with h | h | h <;> rw [h]
  · exact one_pos
  · exact Real.exp_pos _
  · exact Real.exp_pos _

/-! ### row-max normalisation as a row scaling -/

/-- the maximum absolute stored value of row `i`. -/
def rowMax (A : Coo K) (i : Nat) : K := maxL 0 ((rowOf A i).map (fun p => absV p.2))

/-- the factor applied to row `i` by `normalize(norm="max")`. -/
def rowScale (A : Coo K) (i : Nat) : K := if rowMax A i = 0 then 1 else (rowMax A i)⁻¹

theorem rowMaxNormalize_eq (A : Coo K) :
    rowMaxNormalize A = A.map (fun t => (t.1, t.2.1, t.2.2 * rowScale A t.1)) := by
  unfold rowMaxNormalize
  apply List.map_congr_left
  rintro ⟨i, j, v⟩ _
  show (if isZero (rowMax A i) then (i, j, v) else (i, j, v / rowMax A i))
    = (i, j, v * rowScale A i)
  unfold rowScale
  by_cases h : rowMax A i = 0
  · rw [if_pos ((isZero_iff _).2 h), if_pos h, mul_one]
  · have : ¬ isZero (rowMax A i) = true := fun hc => h ((isZero_iff _).1 hc)
    rw [if_neg this, if_neg h, div_eq_mul_inv]

theorem rowMaxNormalize_positions (A : Coo K) :
    (rowMaxNormalize A).map (fun t => (t.1, t.2.1)) = A.map (fun t => (t.1, t.2.1)) := by
  rw [rowMaxNormalize_eq, List.map_map]; rfl

theorem lookup_rowMaxNormalize (A : Coo K) (i j : Nat) :
    lookup (rowMaxNormalize A) i j = lookup A i j * rowScale A i := by
  rw [rowMaxNormalize_eq]
  exact lookup_map_scale (fun i _ => rowScale A i) A i j

theorem mem_rowMaxNormalize (A : Coo K) (i j : Nat) (w : K) :
    (i, j, w) ∈ rowMaxNormalize A ↔ ∃ v, (i, j, v) ∈ A ∧ w = v * rowScale A i := by
  rw [rowMaxNormalize_eq]
  simp only [List.mem_map, Prod.mk.injEq, Prod.exists]
  constructor
  · rintro ⟨a, b, v, h, rfl, rfl, rfl⟩; exact ⟨v, h, rfl⟩
  · rintro ⟨v, h, rfl⟩; exact ⟨i, j, v, h, rfl, rfl, rfl⟩

theorem rowMax_nonneg (A : Coo K) (i : Nat) : 0 ≤ rowMax A i := maxL_ge_init _ _

theorem abs_le_rowMax (A : Coo K) (i j : Nat) (v : K) (h : (i, j, v) ∈ A) : |v| ≤ rowMax A i := by
  unfold rowMax
  apply le_maxL
  rw [List.mem_map]
  refine ⟨(j, v), ?_, absV_eq_abs v⟩
  unfold rowOf
  rw [List.mem_map]
  exact ⟨(i, j, v), List.mem_filter.2 ⟨h, by simp⟩, rfl⟩

/-- a positive row maximum is attained by a stored entry of that row. -/
theorem rowMax_attained (A : Coo K) (i : Nat) (h : rowMax A i ≠ 0) :
    ∃ j v, (i, j, v) ∈ A ∧ |v| = rowMax A i := by
  rcases maxL_mem 0 ((rowOf A i).map (fun p => absV p.2)) with h0 | hm
  · exact absurd h0 h
  · rw [List.mem_map] at hm
    obtain ⟨⟨j, v⟩, hp, hv⟩ := hm
    unfold rowOf at hp
    rw [List.mem_map] at hp
    obtain ⟨⟨a, b, c⟩, ht, he⟩ := hp
    rw [List.mem_filter] at ht
    simp only [Prod.mk.injEq] at he
    obtain ⟨rfl, rfl⟩ := he
    have ha : a = i := by simpa using ht.2
    subst ha
    exact ⟨b, c, ht.1, by rw [← absV_eq_abs]; exact hv⟩

theorem rowScale_nonneg (A : Coo K) (i : Nat) : 0 ≤ rowScale A i := by
  unfold rowScale
  split_ifs
  · exact zero_le_one
  · exact inv_nonneg.2 (rowMax_nonneg A i)

theorem rowScale_ne_zero (A : Coo K) (i : Nat) : rowScale A i ≠ 0 := by
  unfold rowScale
  split_ifs with h
  · exact one_ne_zero
  · exact inv_ne_zero h

/-! ### 2. support -/

/-- stored positions are untouched by `fast_intersection` (as a list, hence as a set). -/
theorem fast_positions_list (T : Transc K) (labels : List (Option Int)) (ud fd : K) (A : Coo K) :
    (fastIntersection T labels ud fd A).map (fun t => (t.1, t.2.1))
      = A.map (fun t => (t.1, t.2.1)) := by
  rw [attenuate_factor', List.map_map]; rfl

theorem fast_positions (T : Transc K) (labels : List (Option Int)) (ud fd : K) (A : Coo K) :
    positions (fastIntersection T labels ud fd A) = positions A := by
  unfold positions; rw [fast_positions_list]

/-- the matrix that is fed to the final union, as a function of `A`:
    `A(i,j) · factor(i,j) · rowScale(i)`. -/
theorem lookup_pre_union (T : Transc K) (labels : List (Option Int)) (ud fd : K) (A : Coo K)
    (i j : Nat) :
    lookup (rowMaxNormalize (elimZeros (fastIntersection T labels ud fd A))) i j
      = lookup A i j * factor T labels ud fd i j
          * rowScale (elimZeros (fastIntersection T labels ud fd A)) i := by
  rw [lookup_rowMaxNormalize, lookup_elimZeros, lookup_fastIntersection]

/-- every stored entry of the supervised graph sits at a position where the unsupervised matrix
    has a non-zero value, in one direction or the other, *and* the corresponding factor is
    non-zero. -/
theorem supervised_support_factor (T : Transc K) (labels : List (Option Int)) (ud fd : K)
    (A : Coo K) (i j : Nat) (v : K) (h : (i, j, v) ∈ categoricalIntersection T labels ud fd A) :
    (lookup A i j ≠ 0 ∧ factor T labels ud fd i j ≠ 0)
      ∨ (lookup A j i ≠ 0 ∧ factor T labels ud fd j i ≠ 0) := by
  unfold categoricalIntersection resetLocalConnectivity unionTranspose at h
  obtain ⟨hv, hne⟩ := C02.entry_formula _ _ i j v h
  rcases C02.mix_support (hv ▸ hne) with h1 | h1
  · left
    rw [lookup_pre_union] at h1
    exact ⟨left_ne_zero_of_mul (left_ne_zero_of_mul h1),
      right_ne_zero_of_mul (left_ne_zero_of_mul h1)⟩
  · right
    rw [lookup_pre_union] at h1
    exact ⟨left_ne_zero_of_mul (left_ne_zero_of_mul h1),
      right_ne_zero_of_mul (left_ne_zero_of_mul h1)⟩

/-- **supervised_support_subset**: the support of the supervised graph is contained in the
    symmetrised support of the unsupervised one (no hypothesis on `A`, `T` or the labels). -/
theorem supervised_support_subset (T : Transc K) (labels : List (Option Int)) (ud fd : K)
    (A : Coo K) (i j : Nat) (v : K) (h : (i, j, v) ∈ categoricalIntersection T labels ud fd A) :
    (lookup A i j ≠ 0 ∨ lookup A j i ≠ 0) ∧ (i, j) ∈ positions (A ++ transposeC A) := by
  have hs : lookup A i j ≠ 0 ∨ lookup A j i ≠ 0 := by
    rcases supervised_support_factor T labels ud fd A i j v h with h1 | h1
    · exact Or.inl h1.1
    · exact Or.inr h1.1
  refine ⟨hs, ?_⟩
  rw [mem_positions_symm]
  rcases hs with h1 | h1
  · exact Or.inl (lookup_ne_zero_mem A i j h1)
  · exact Or.inr (lookup_ne_zero_mem A j i h1)

/-! ### 3. symmetry -/

/-- **supervised_symm**: the supervised graph is symmetric. -/
theorem supervised_symm (T : Transc K) (labels : List (Option Int)) (ud fd : K)
    (A : Coo K) (i j : Nat) (v : K) (h : (i, j, v) ∈ categoricalIntersection T labels ud fd A) :
    (j, i, v) ∈ categoricalIntersection T labels ud fd A := by
  unfold categoricalIntersection resetLocalConnectivity unionTranspose at h ⊢
  exact C02.symmetric _ _ i j v h

/-! ### 4. row-max normalisation restores the unit row maximum -/

/-- all stored values are non-negative. -/
def NonNeg (A : Coo K) : Prop := ∀ t ∈ A, 0 ≤ t.2.2

/-- **rowmax_normalized (range)**: after the normalisation every stored entry is in `[0, 1]`
    (duplicates allowed). -/
theorem rowmax_range (A : Coo K) (hA : NonNeg A) (i j : Nat) (w : K)
    (h : (i, j, w) ∈ rowMaxNormalize A) : 0 ≤ w ∧ w ≤ 1 := by
  rw [mem_rowMaxNormalize] at h
  obtain ⟨v, hv, rfl⟩ := h
  have h0 : 0 ≤ v := hA _ hv
  have hm : v ≤ rowMax A i := by
    have := abs_le_rowMax A i j v hv
    rwa [abs_of_nonneg h0] at this
  refine ⟨mul_nonneg h0 (rowScale_nonneg A i), ?_⟩
  unfold rowScale
  split_ifs with hz
  · rw [mul_one]; rw [hz] at hm; linarith
  · have hpos : 0 < rowMax A i := lt_of_le_of_ne (rowMax_nonneg A i) (Ne.symm hz)
    rw [← div_eq_mul_inv, div_le_one hpos]; exact hm

/-- **rowmax_normalized (unit)**: a row with a positive stored entry has a stored entry equal to
    `1` after the normalisation (duplicates allowed). -/
theorem rowmax_unit (A : Coo K) (hA : NonNeg A) (i j0 : Nat) (v0 : K) (h0 : (i, j0, v0) ∈ A)
    (hpos : 0 < v0) : ∃ j, (i, j, 1) ∈ rowMaxNormalize A := by
  have hm : v0 ≤ rowMax A i := by
    have := abs_le_rowMax A i j0 v0 h0
    rwa [abs_of_pos hpos] at this
  have hne : rowMax A i ≠ 0 := by intro hc; rw [hc] at hm; linarith
  obtain ⟨j, v, hv, he⟩ := rowMax_attained A i hne
  refine ⟨j, ?_⟩
  rw [mem_rowMaxNormalize]
  refine ⟨v, hv, ?_⟩
  have hv0 : 0 ≤ v := hA _ hv
  rw [abs_of_nonneg hv0] at he
  unfold rowScale
  rw [if_neg hne, he, mul_inv_cancel₀ hne]

/-- **rowmax_normalized**: both clauses together (stored-triple form, duplicates allowed). -/
theorem rowmax_normalized (A : Coo K) (hA : NonNeg A) :
    (∀ i j v, (i, j, v) ∈ rowMaxNormalize A → 0 ≤ v ∧ v ≤ 1)
    ∧ (∀ i j0 v0, (i, j0, v0) ∈ A → 0 < v0 → ∃ j, (i, j, 1) ∈ rowMaxNormalize A) :=
  ⟨fun i j v h => rowmax_range A hA i j v h, fun i j0 v0 h0 hp => rowmax_unit A hA i j0 v0 h0 hp⟩

theorem rowMaxNormalize_noDup (A : Coo K) (hA : NoDup A) : NoDup (rowMaxNormalize A) := by
  unfold NoDup at hA ⊢
  rw [rowMaxNormalize_positions]; exact hA

/-- **rowmax_normalized (matrix form)**: without duplicate positions the normalised *matrix* has
    all its values in `[0, 1]`. -/
theorem rowmax_unitValued (A : Coo K) (hA : NonNeg A) (hd : NoDup A) :
    C02.UnitValued (rowMaxNormalize A) := by
  intro i j
  by_cases h : lookup (rowMaxNormalize A) i j = 0
  · rw [h]; exact ⟨le_refl _, zero_le_one⟩
  · obtain ⟨v, hv⟩ := lookup_ne_zero_mem _ i j h
    rw [lookup_of_mem_nodup _ (rowMaxNormalize_noDup A hd) i j v hv]
    exact rowmax_range A hA i j v hv

/-- and the row maximum of every row with a positive entry is exactly `1`, attained. -/
theorem rowmax_unit_lookup (A : Coo K) (hA : NonNeg A) (hd : NoDup A) (i j0 : Nat) (v0 : K)
    (h0 : (i, j0, v0) ∈ A) (hpos : 0 < v0) :
    (∃ j, lookup (rowMaxNormalize A) i j = 1) ∧ ∀ j, lookup (rowMaxNormalize A) i j ≤ 1 := by
  obtain ⟨j, hj⟩ := rowmax_unit A hA i j0 v0 h0 hpos
  exact ⟨⟨j, lookup_of_mem_nodup _ (rowMaxNormalize_noDup A hd) i j 1 hj⟩,
    fun j => (rowmax_unitValued A hA hd i j).2⟩

/-- **union_keeps_one**: the fuzzy union of `1` with anything is `1`. -/
theorem union_keeps_one (b : K) : mix 1 1 b = 1 := by unfold mix; ring

theorem union_keeps_one' (a : K) : mix 1 a 1 = 1 := by unfold mix; ring

/-- **nonisolated_has_unit_edge**: a unit value of the matrix survives the union with the
    transpose as a stored unit entry (in both orientations). -/
theorem nonisolated_has_unit_edge (N : Coo K) (i j : Nat) (h : lookup N i j = 1) :
    (i, j, 1) ∈ unionTranspose N ∧ (j, i, 1) ∈ unionTranspose N := by
  have hne : lookup N i j ≠ 0 := by rw [h]; exact one_ne_zero
  have hm : mix 1 (lookup N i j) (lookup N j i) = 1 := by rw [h]; exact union_keeps_one _
  have := mem_symmetrize_of_ne 1 N i j (Or.inl hne) (by rw [hm]; exact one_ne_zero)
  rw [hm] at this
  exact ⟨this, C02.symmetric 1 N i j 1 this⟩

/-- **unit row maximum after `reset_local_connectivity`**: for a matrix with non-negative stored
    values and no duplicate positions, every row that has a positive entry has a stored entry
    equal to `1` in the result. -/
theorem reset_has_unit_edge (A : Coo K) (hA : NonNeg A) (hd : NoDup A) (i j0 : Nat) (v0 : K)
    (h0 : (i, j0, v0) ∈ A) (hpos : 0 < v0) :
    ∃ j, (i, j, 1) ∈ resetLocalConnectivity A := by
  obtain ⟨⟨j, hj⟩, _⟩ := rowmax_unit_lookup A hA hd i j0 v0 h0 hpos
  exact ⟨j, (nonisolated_has_unit_edge _ i j hj).1⟩

/-- … and every stored entry of the result lies in `(0, 1]`, so that the row maximum is
    exactly `1`. -/
theorem reset_range (A : Coo K) (hA : NonNeg A) (hd : NoDup A) (i j : Nat) (v : K)
    (h : (i, j, v) ∈ resetLocalConnectivity A) : 0 < v ∧ v ≤ 1 := by
  unfold resetLocalConnectivity unionTranspose at h
  have := C02.C02_graph_wellformed 1 zero_le_one (le_refl _) _ (rowmax_unitValued A hA hd) i j v h
  exact ⟨this.2.1, this.2.2.1⟩

/-! #### the same for the supervised graph -/

theorem elimZeros_nonNeg (A : Coo K) (hA : NonNeg A) : NonNeg (elimZeros A) :=
  fun t ht => hA t (List.mem_filter.1 ht).1

theorem elimZeros_noDup (A : Coo K) (hA : NoDup A) : NoDup (elimZeros A) := by
  unfold NoDup elimZeros at *
  exact hA.sublist (List.Sublist.map _ List.filter_sublist)

theorem fast_noDup (T : Transc K) (labels : List (Option Int)) (ud fd : K) (A : Coo K)
    (hA : NoDup A) : NoDup (fastIntersection T labels ud fd A) := by
  unfold NoDup at *
  rw [fast_positions_list]; exact hA

theorem fast_nonNeg (T : Transc K) (labels : List (Option Int)) (ud fd : K) (A : Coo K)
    (hA : NonNeg A) (hu : 0 ≤ T.exp (-ud)) (hf : 0 ≤ T.exp (-fd)) :
    NonNeg (fastIntersection T labels ud fd A) := by
  rintro ⟨i, j, w⟩ ht
  rw [mem_fastIntersection] at ht
  obtain ⟨v, hv, rfl⟩ := ht
  apply mul_nonneg (hA _ hv)
  rcases factor_cases T labels ud fd i j with h | h | h <;> rw [h]
  · exact zero_le_one
  · exact hf
  · exact hu

/-- the supervised graph: entries in `(0, 1]`, and every row that keeps a positive attenuated
    entry has a stored unit entry (generic `T` with non-negative `exp`). -/
theorem supervised_unit_rowmax (T : Transc K) (labels : List (Option Int)) (ud fd : K) (A : Coo K)
    (hA : NonNeg A) (hd : NoDup A) (hu : 0 ≤ T.exp (-ud)) (hf : 0 ≤ T.exp (-fd)) :
    (∀ i j v, (i, j, v) ∈ categoricalIntersection T labels ud fd A → 0 < v ∧ v ≤ 1)
    ∧ (∀ i j0 v0, (i, j0, v0) ∈ A → 0 < v0 * factor T labels ud fd i j0 →
        ∃ j, (i, j, 1) ∈ categoricalIntersection T labels ud fd A) := by
  have hN := elimZeros_nonNeg _ (fast_nonNeg T labels ud fd A hA hu hf)
  have hD := elimZeros_noDup _ (fast_noDup T labels ud fd A hd)
  refine ⟨fun i j v h => reset_range _ hN hD i j v h, ?_⟩
  intro i j0 v0 h0 hpos
  apply reset_has_unit_edge _ hN hD i j0 (v0 * factor T labels ud fd i j0) _ hpos
  unfold elimZeros
  rw [List.mem_filter]
  refine ⟨(mem_fastIntersection T labels ud fd A i j0 _).2 ⟨v0, h0, rfl⟩, ?_⟩
  cases hz : isZero (v0 * factor T labels ud fd i j0) with
  | false => rfl
  | true => rw [(isZero_iff _).1 hz] at hpos; exact absurd hpos (lt_irrefl _)

/-- over ℝ (where `exp > 0`): every sample with a positive unsupervised edge keeps a unit edge
    in the supervised graph, whatever the labels. -/
theorem supervised_unit_rowmax_real (labels : List (Option Int)) (ud fd : ℝ) (A : Coo ℝ)
    (hA : NonNeg A) (hd : NoDup A) (i j0 : Nat) (v0 : ℝ) (h0 : (i, j0, v0) ∈ A) (hpos : 0 < v0) :
    ∃ j, (i, j, 1) ∈ categoricalIntersection realT labels ud fd A :=
  (supervised_unit_rowmax realT labels ud fd A hA hd (le_of_lt (Real.exp_pos _))
    (le_of_lt (Real.exp_pos _))).2 i j0 v0 h0 (mul_pos hpos (factor_pos_real labels ud fd i j0))

/-! ### 5. only equality of labels matters -/

theorem labelAt_map (σ : Int → Int) (labels : List (Option Int)) (i : Nat) :
    labelAt (labels.map (Option.map σ)) i = (labelAt labels i).map σ := by
  unfold labelAt
  rw [List.getElem?_map]
  cases labels[i]? <;> rfl

theorem factor_renaming (T : Transc K) (σ : Int → Int) (hσ : Function.Injective σ)
    (labels : List (Option Int)) (ud fd : K) (i j : Nat) :
    factor T (labels.map (Option.map σ)) ud fd i j = factor T labels ud fd i j := by
  unfold factor
  rw [labelAt_map, labelAt_map]
  cases labelAt labels i <;> cases labelAt labels j <;> simp only [Option.map_none, Option.map_some]
  rename_i a b
  by_cases h : a = b
  · rw [if_pos h, if_pos (congrArg σ h)]
  · rw [if_neg h, if_neg (fun hc => h (hσ hc))]

/-- **label_renaming_invariant**: an injective renaming of the class labels (unlabelled stays
    unlabelled) does not change the result. -/
theorem label_renaming_invariant (T : Transc K) (σ : Int → Int) (hσ : Function.Injective σ)
    (labels : List (Option Int)) (ud fd : K) (A : Coo K) :
    fastIntersection T (labels.map (Option.map σ)) ud fd A = fastIntersection T labels ud fd A := by
  rw [attenuate_factor', attenuate_factor']
  apply List.map_congr_left
  intro t _
  rw [factor_renaming T σ hσ]

theorem categorical_renaming_invariant (T : Transc K) (σ : Int → Int) (hσ : Function.Injective σ)
    (labels : List (Option Int)) (ud fd : K) (A : Coo K) :
    categoricalIntersection T (labels.map (Option.map σ)) ud fd A
      = categoricalIntersection T labels ud fd A := by
  unfold categoricalIntersection
  rw [label_renaming_invariant T σ hσ]

/-! ### 6. full target weight separates the classes -/

/-- with `exp(-far_dist) = 0` every cross-label entry of `fast_intersection` is `0` … -/
theorem full_weight_zero (T : Transc K) (labels : List (Option Int)) (ud fd : K) (A : Coo K)
    (hexp : T.exp (-fd) = 0) (i j : Nat) (w : K) (a b : Int)
    (h : (i, j, w) ∈ fastIntersection T labels ud fd A)
    (hi : labelAt labels i = some a) (hj : labelAt labels j = some b) (hab : a ≠ b) : w = 0 := by
  rw [mem_fastIntersection] at h
  obtain ⟨v, _, rfl⟩ := h
  rw [factor_diff T labels ud fd i j a b hi hj hab, hexp, mul_zero]

/-- … hence dropped by `eliminate_zeros` … -/
theorem full_weight_dropped (T : Transc K) (labels : List (Option Int)) (ud fd : K) (A : Coo K)
    (hexp : T.exp (-fd) = 0) (i j : Nat) (w : K) (a b : Int)
    (hi : labelAt labels i = some a) (hj : labelAt labels j = some b) (hab : a ≠ b) :
    (i, j, w) ∉ elimZeros (fastIntersection T labels ud fd A) := by
  intro h
  unfold elimZeros at h
  rw [List.mem_filter] at h
  have hw := full_weight_zero T labels ud fd A hexp i j w a b h.1 hi hj hab
  have : isZero w = true := (isZero_iff _).2 hw
  rw [this] at h
  exact Bool.noConfusion h.2

/-- **full_weight_separates**: … and no stored entry of the supervised graph joins two samples
    with different known labels (the transposed contribution is attenuated by the same factor:
    `factor_symm`). -/
theorem full_weight_separates (T : Transc K) (labels : List (Option Int)) (ud fd : K) (A : Coo K)
    (hexp : T.exp (-fd) = 0) (i j : Nat) (v : K) (a b : Int)
    (h : (i, j, v) ∈ categoricalIntersection T labels ud fd A)
    (hi : labelAt labels i = some a) (hj : labelAt labels j = some b) : a = b := by
  by_contra hab
  rcases supervised_support_factor T labels ud fd A i j v h with h1 | h1
  · exact h1.2 (by rw [factor_diff T labels ud fd i j a b hi hj hab, hexp])
  · exact h1.2 (by rw [factor_diff T labels ud fd j i b a hj hi (Ne.symm hab), hexp])

/-! ### non-vacuity: a concrete labelled graph over ℚ -/

/-- a toy `Transc ℚ`: `exp x = 1/(1-x)` for `-100 < x ≤ 0`, underflowing to `0` below `-100`. -/
def ratT : Transc ℚ where
  exp := fun x => if x ≤ -100 then 0 else 1 / (1 - x)
  log := id
  sqrt := id
  pow := fun x _ => x
  sin := id
  cos := id
  asin := id
  acosh := id
  trunc := fun _ => 0
  ofInt := fun z => (z : ℚ)

/-- samples 0,1 in class 7; sample 2 in class 9; sample 3 unlabelled. -/
def exLabels : List (Option Int) := [some 7, some 7, some 9, none]

def exA : Coo ℚ := [(0, 1, 1), (0, 2, 1/2), (1, 0, 1/4), (2, 1, 1), (3, 0, 1), (2, 3, 1/2)]

example : fastIntersection ratT exLabels 1 4 exA
    = [(0, 1, 1), (0, 2, 1/10), (1, 0, 1/4), (2, 1, 1/5), (3, 0, 1/2), (2, 3, 1/4)] := by
  decide +kernel

example : NonNeg exA := by unfold NonNeg; decide +kernel
example : NoDup exA := by unfold NoDup; decide +kernel
example : (0 : ℚ) ≤ ratT.exp (-1) ∧ (0 : ℚ) ≤ ratT.exp (-4) := by decide +kernel

-- the supervised graph: symmetric, the (0,1) edge keeps weight 1, the cross-label edge (0,2) is
-- attenuated, row 2 regains a unit entry after renormalisation
example : (0, 1, (1:ℚ)) ∈ categoricalIntersection ratT exLabels 1 4 exA := by decide +kernel
example : (1, 0, (1:ℚ)) ∈ categoricalIntersection ratT exLabels 1 4 exA := by decide +kernel
example : (0, 2, (1/10:ℚ)) ∈ categoricalIntersection ratT exLabels 1 4 exA := by decide +kernel
example : (2, 3, (1:ℚ)) ∈ categoricalIntersection ratT exLabels 1 4 exA := by decide +kernel

-- `full_weight_separates`: the hypothesis is satisfiable, and then the 0–2 and 1–2 edges vanish
example : ratT.exp (-(1000:ℚ)) = 0 := by decide +kernel
example : categoricalIntersection ratT exLabels 1 1000 exA
    = [(0, 1, 1), (1, 0, 1), (3, 0, 1), (2, 3, 1), (0, 3, 1), (3, 2, 1)] := by decide +kernel

-- `label_renaming_invariant` on an instance
example : fastIntersection ratT (exLabels.map (Option.map (fun z => z + 5))) 1 4 exA
    = fastIntersection ratT exLabels 1 4 exA := by decide +kernel

-- `rowmax_normalized` on an instance: row 0 of `[(0,1,1/2),(0,2,1/4)]` becomes `1, 1/2`
example : rowMaxNormalize ([(0, 1, 1/2), (0, 2, 1/4), (1, 0, 0)] : Coo ℚ)
    = [(0, 1, 1), (0, 2, 1/2), (1, 0, 0)] := by decide +kernel

-- `supervised_unit_rowmax_real`: the hypotheses are satisfiable over ℝ
example : ∃ j, (0, j, (1:ℝ)) ∈
    categoricalIntersection realT [some 1, some 2] 1 5 [(0, 1, (1/2:ℝ))] := by
  apply supervised_unit_rowmax_real _ _ _ _ _ _ 0 1 (1/2)
  · simp
  · norm_num
  · intro t ht
    simp only [List.mem_cons, List.not_mem_nil, or_false] at ht
    subst ht; norm_num
  · simp [NoDup]

end C16
end Umap
