/-
  C15 — spectral initialisation: the algebra behind `_spectral_layout` / `multi_component_layout`.

  Model: `Umap.Spectral` (`lapEntry`, `argsort`, `selectOrder`, `rankInLabel`, `assemble`).
  The eigen-solver (ARPACK / LOBPCG) is an external call and enters as a contract.

  Part 1 (matrices over ℝ): for a symmetric non-negative graph `A` with positive degrees, the
  normalised Laplacian `L = I - D A D` (defined entrywise THROUGH `Spectral.lapEntry`) is symmetric,
  has `sqrt_deg` as eigenvector for eigenvalue `0`, is positive semidefinite (explicit quadratic
  form), and eigenvectors for distinct eigenvalues of a symmetric matrix are orthogonal — so `0` is
  the smallest eigenvalue and every other eigenvector is orthogonal to the trivial one: dropping
  the first of the sorted eigenvectors is right.

  Part 2 (lists): `argsort` is a sorted permutation, `selectOrder` drops the smallest and keeps
  `dim` columns, each of them an eigenvector under the solver contract.

  Part 3 (lists): `assemble` writes every result row exactly once from a genuine block row.
-/
import Mathlib.Data.Matrix.Basic
import Mathlib.Data.Matrix.Mul
import Mathlib.LinearAlgebra.Matrix.Symmetric
import Mathlib.LinearAlgebra.Matrix.DotProduct
import Mathlib.Analysis.Real.Sqrt
import Mathlib.Tactic
import UmapModel.Spectral
import UmapProofs.Basic
import UmapProofs.RealT

namespace Umap
namespace C15
open Matrix

/-! ## Part 1 — the normalised Laplacian -/

section Laplacian
variable {n : Nat}

/-- `graph.sum(axis=0)`: column sums. -/
noncomputable def deg (A : Matrix (Fin n) (Fin n) ℝ) (j : Fin n) : ℝ := ∑ i, A i j

/-- `sqrt_deg`. -/
noncomputable def sd (A : Matrix (Fin n) (Fin n) ℝ) (j : Fin n) : ℝ := Real.sqrt (deg A j)

/-- `L = I - D * graph * D`, entry by entry through the model's `Spectral.lapEntry`. -/
noncomputable def L (A : Matrix (Fin n) (Fin n) ℝ) : Matrix (Fin n) (Fin n) ℝ :=
  Matrix.of fun i j => Spectral.lapEntry (sd A i) (sd A j) (A i j) (decide (i = j))

theorem L_apply (A : Matrix (Fin n) (Fin n) ℝ) (i j : Fin n) :
    L A i j = (if i = j then 1 else 0) - (1 / sd A i) * A i j * (1 / sd A j) := by
  simp [L, Spectral.lapEntry]

theorem sd_pos {A : Matrix (Fin n) (Fin n) ℝ} (hdeg : ∀ j, 0 < deg A j) (j : Fin n) :
    0 < sd A j := Real.sqrt_pos.2 (hdeg j)

theorem sd_sq {A : Matrix (Fin n) (Fin n) ℝ} (hdeg : ∀ j, 0 < deg A j) (j : Fin n) :
    sd A j * sd A j = deg A j := Real.mul_self_sqrt (hdeg j).le

/-- row sums equal column sums for a symmetric matrix. -/
theorem rowsum_eq_deg {A : Matrix (Fin n) (Fin n) ℝ} (hA : A.IsSymm) (i : Fin n) :
    ∑ j, A i j = deg A i := by
  unfold deg
  exact Finset.sum_congr rfl fun j _ => (hA.apply i j).symm

/-- **1.** the normalised Laplacian is symmetric. -/
theorem laplacian_symm {A : Matrix (Fin n) (Fin n) ℝ} (hA : A.IsSymm) (i j : Fin n) :
    L A i j = L A j i := by
  rw [L_apply, L_apply, hA.apply i j]
  by_cases h : i = j
  · subst h; ring
  · rw [if_neg h, if_neg (Ne.symm h)]; ring

theorem laplacian_isSymm {A : Matrix (Fin n) (Fin n) ℝ} (hA : A.IsSymm) : (L A).IsSymm :=
  Matrix.IsSymm.ext fun i j => laplacian_symm hA j i

/-- **2.** `sqrt_deg` is an eigenvector of `L` for the eigenvalue `0`. -/
theorem trivial_eigvec {A : Matrix (Fin n) (Fin n) ℝ} (hA : A.IsSymm)
    (hdeg : ∀ j, 0 < deg A j) : L A *ᵥ sd A = 0 := by
  funext i
  have hi := (sd_pos hdeg i).ne'
  simp only [mulVec, dotProduct, Pi.zero_apply]
  have h1 : ∀ j, L A i j * sd A j = (if i = j then sd A j else 0) - (1 / sd A i) * A i j := by
    intro j
    have hj := (sd_pos hdeg j).ne'
    rw [L_apply]
    split_ifs <;> field_simp <;> ring
  simp only [h1, Finset.sum_sub_distrib, Finset.sum_ite_eq, Finset.mem_univ, if_true,
    ← Finset.mul_sum, rowsum_eq_deg hA, ← sd_sq hdeg i]
  field_simp
  ring

/-- **3.** the quadratic form of `L`. -/
theorem laplacian_quadratic_form {A : Matrix (Fin n) (Fin n) ℝ} (hA : A.IsSymm)
    (hdeg : ∀ j, 0 < deg A j) (x : Fin n → ℝ) :
    x ⬝ᵥ (L A *ᵥ x)
      = (1 / 2) * ∑ i, ∑ j, A i j * (x i / sd A i - x j / sd A j) ^ 2 := by
  -- y = D x
  set y : Fin n → ℝ := fun i => x i / sd A i with hy
  have hx : ∀ i, x i = sd A i * y i := by
    intro i
    have hi := (sd_pos hdeg i).ne'
    simp only [hy]; field_simp
  -- left-hand side
  have hL : x ⬝ᵥ (L A *ᵥ x) = ∑ i, deg A i * y i ^ 2 - ∑ i, ∑ j, A i j * (y i * y j) := by
    simp only [mulVec, dotProduct, Finset.mul_sum]
    rw [← Finset.sum_sub_distrib]
    refine Finset.sum_congr rfl fun i _ => ?_
    have hi := (sd_pos hdeg i).ne'
    have h1 : ∀ j, x i * (L A i j * x j)
        = (if i = j then x i * x j else 0) - A i j * (y i * y j) := by
      intro j
      have hj := (sd_pos hdeg j).ne'
      rw [L_apply]
      simp only [hy]
      split_ifs <;> field_simp <;> ring
    simp only [h1, Finset.sum_sub_distrib, Finset.sum_ite_eq, Finset.mem_univ, if_true]
    rw [hx i, ← sd_sq hdeg i]; ring
  -- right-hand side
  have hR : ∑ i, ∑ j, A i j * (y i - y j) ^ 2
      = 2 * ∑ i, deg A i * y i ^ 2 - 2 * ∑ i, ∑ j, A i j * (y i * y j) := by
    have e : ∀ i j, A i j * (y i - y j) ^ 2
        = A i j * y i ^ 2 + A i j * y j ^ 2 - 2 * (A i j * (y i * y j)) := by
      intro i j; ring
    simp only [e, Finset.sum_sub_distrib, Finset.sum_add_distrib, ← Finset.mul_sum,
      ← Finset.sum_mul]
    have a1 : ∑ i, (∑ j, A i j) * y i ^ 2 = ∑ i, deg A i * y i ^ 2 :=
      Finset.sum_congr rfl fun i _ => by rw [rowsum_eq_deg hA]
    have a2 : ∑ i, ∑ j, A i j * y j ^ 2 = ∑ i, deg A i * y i ^ 2 := by
      rw [Finset.sum_comm]
      refine Finset.sum_congr rfl fun j _ => ?_
      rw [← Finset.sum_mul]; rfl
    rw [a1, a2]; ring
  rw [hL, hR]; ring

/-- **3'.** `L` is positive semidefinite. -/
theorem laplacian_psd {A : Matrix (Fin n) (Fin n) ℝ} (hA : A.IsSymm) (hnn : ∀ i j, 0 ≤ A i j)
    (hdeg : ∀ j, 0 < deg A j) (x : Fin n → ℝ) : 0 ≤ x ⬝ᵥ (L A *ᵥ x) := by
  rw [laplacian_quadratic_form hA hdeg]
  refine mul_nonneg (by norm_num) ?_
  exact Finset.sum_nonneg fun i _ => Finset.sum_nonneg fun j _ =>
    mul_nonneg (hnn i j) (sq_nonneg _)

/-- hence every eigenvalue of `L` is non-negative: `0` (eigenvector `sqrt_deg`) is the smallest. -/
theorem eigenvalue_nonneg {A : Matrix (Fin n) (Fin n) ℝ} (hA : A.IsSymm)
    (hnn : ∀ i j, 0 ≤ A i j) (hdeg : ∀ j, 0 < deg A j) {v : Fin n → ℝ} {a : ℝ}
    (hv : v ≠ 0) (h : L A *ᵥ v = a • v) : 0 ≤ a := by
  have h1 := laplacian_psd hA hnn hdeg v
  rw [h, dotProduct_smul, smul_eq_mul] at h1
  have h2 : 0 < v ⬝ᵥ v := by
    have h0 : 0 ≤ v ⬝ᵥ v := Finset.sum_nonneg fun i _ => mul_self_nonneg (v i)
    rcases h0.lt_or_eq with h | h
    · exact h
    · exact absurd (dotProduct_self_eq_zero.1 h.symm) hv
  by_contra hneg
  have := mul_neg_of_neg_of_pos (not_le.1 hneg) h2
  linarith

/-- **4.** eigenvectors of a symmetric matrix for distinct eigenvalues are orthogonal. -/
theorem eigvec_orthogonal {M : Matrix (Fin n) (Fin n) ℝ} (hM : M.IsSymm) {u v : Fin n → ℝ}
    {a b : ℝ} (hu : M *ᵥ u = a • u) (hv : M *ᵥ v = b • v) (hab : a ≠ b) : u ⬝ᵥ v = 0 := by
  have h1 : u ⬝ᵥ (M *ᵥ v) = (M *ᵥ u) ⬝ᵥ v := by
    rw [dotProduct_mulVec, ← mulVec_transpose, hM.eq]
  rw [hu, hv, dotProduct_smul, smul_dotProduct, smul_eq_mul, smul_eq_mul] at h1
  have h2 : (a - b) * (u ⬝ᵥ v) = 0 := by linarith
  rcases mul_eq_zero.1 h2 with h | h
  · exact absurd (sub_eq_zero.1 h) hab
  · exact h

/-- an eigenvector of `L` for a non-zero eigenvalue is orthogonal to `sqrt_deg`. -/
theorem nontrivial_orthogonal_to_sd {A : Matrix (Fin n) (Fin n) ℝ} (hA : A.IsSymm)
    (hdeg : ∀ j, 0 < deg A j) {v : Fin n → ℝ} {b : ℝ} (hv : L A *ᵥ v = b • v) (hb : b ≠ 0) :
    v ⬝ᵥ sd A = 0 := by
  have h0 : L A *ᵥ sd A = (0 : ℝ) • sd A := by rw [trivial_eigvec hA hdeg, zero_smul]
  exact eigvec_orthogonal (laplacian_isSymm hA) hv h0 hb

end Laplacian

/-! ### the executable model's `Spectral.laplacian` / `Spectral.sqrtDeg` ARE this matrix -/

section Bridge
variable {n : Nat}

/-- the dense matrix denoted by a COO list (duplicates summed, as scipy does). -/
noncomputable def toMat (n : Nat) (C : Graph.Coo ℝ) : Matrix (Fin n) (Fin n) ℝ :=
  Matrix.of fun i j => Graph.lookup C i.val j.val

theorem lookup_cons (t : Nat × Nat × ℝ) (C : Graph.Coo ℝ) (i j : Nat) :
    Graph.lookup (t :: C) i j
      = (if t.1 = i ∧ t.2.1 = j then t.2.2 else 0) + Graph.lookup C i j := by
  unfold Graph.lookup
  rw [sumL_eq_sum, sumL_eq_sum, List.filter_cons]
  by_cases h : t.1 = i ∧ t.2.1 = j
  · simp [h]
  · rw [if_neg h]
    have : (t.1 == i && t.2.1 == j) = false := by
      simpa [Bool.and_eq_false_iff, ← not_and_or] using h
    simp [this]

theorem lookup_eq_zero (C : Graph.Coo ℝ) (i j : Nat)
    (h : ∀ t ∈ C, ¬ (t.1 = i ∧ t.2.1 = j)) : Graph.lookup C i j = 0 := by
  induction C with
  | nil => simp [Graph.lookup]
  | cons t C ih =>
    rw [lookup_cons, if_neg (h t List.mem_cons_self),
      ih (fun t ht => h t (List.mem_cons_of_mem _ ht)), add_zero]

/-- the model's column sum is the sum of the dense column. -/
theorem colsum_eq (C : Graph.Coo ℝ) (hC : ∀ t ∈ C, t.1 < n) (j : Nat) :
    sumL ((C.filter (fun t => t.2.1 == j)).map (·.2.2))
      = ∑ i : Fin n, Graph.lookup C i.val j := by
  induction C with
  | nil => simp [Graph.lookup]
  | cons t C ih =>
    have ih' := ih (fun t ht => hC t (List.mem_cons_of_mem _ ht))
    have ht := hC t List.mem_cons_self
    simp only [lookup_cons, Finset.sum_add_distrib, ← ih']
    rw [sumL_eq_sum, sumL_eq_sum, List.filter_cons]
    by_cases hj : t.2.1 = j
    · have e : ∑ i : Fin n, (if t.1 = i.val ∧ t.2.1 = j then t.2.2 else 0) = t.2.2 := by
        rw [Finset.sum_eq_single (⟨t.1, ht⟩ : Fin n)]
        · simp [hj]
        · intro b _ hb
          rw [if_neg]
          rintro ⟨h1, -⟩
          exact hb (Fin.ext h1.symm)
        · intro h; exact absurd (Finset.mem_univ _) h
      rw [e]; simp [hj]
    · have e : ∑ i : Fin n, (if t.1 = i.val ∧ t.2.1 = j then t.2.2 else 0) = 0 :=
        Finset.sum_eq_zero fun i _ => if_neg fun h => hj h.2
      rw [e]; simp [hj]

/-- `Spectral.sqrtDeg` (at ℝ) is `sd` of the denoted matrix. -/
theorem sqrtDeg_getD (C : Graph.Coo ℝ) (hC : ∀ t ∈ C, t.1 < n) (j : Fin n) :
    (Spectral.sqrtDeg realT C n).getD j.val 1 = sd (toMat n C) j := by
  have hj := j.isLt
  unfold Spectral.sqrtDeg
  simp only [List.getD, List.getElem?_map, List.getElem?_range hj, Option.map_some,
    Option.getD_some]
  rw [colsum_eq C hC]
  rfl

theorem eraseDups_nodup {β : Type} [BEq β] [LawfulBEq β] :
    ∀ (m : Nat) (l : List β), l.length ≤ m → l.eraseDups.Nodup
  | 0, [], _ => by simp
  | _ + 1, [], _ => by simp
  | m + 1, a :: as, h => by
    rw [List.eraseDups_cons, List.nodup_cons]
    refine ⟨?_, eraseDups_nodup m _ ?_⟩
    · simp [List.mem_eraseDups]
    · exact (List.length_filter_le _ _).trans (by simpa using h)

theorem lookup_map_nodup (pos : List (Nat × Nat)) (hnd : pos.Nodup) (g : Nat × Nat → ℝ)
    (i j : Nat) :
    Graph.lookup (pos.map (fun p => (p.1, p.2, g p))) i j
      = if (i, j) ∈ pos then g (i, j) else 0 := by
  induction pos with
  | nil => simp [Graph.lookup]
  | cons p ps ih =>
    rw [List.nodup_cons] at hnd
    rw [List.map_cons, lookup_cons, ih hnd.2]
    obtain ⟨a, b⟩ := p
    by_cases h : a = i ∧ b = j
    · obtain ⟨rfl, rfl⟩ := h
      simp [hnd.1]
    · have h' : ¬ ((i, j) = (a, b)) := by
        intro e; simp only [Prod.mk.injEq] at e; exact h ⟨e.1.symm, e.2.symm⟩
      simp only [h, if_false, zero_add, List.mem_cons, h', false_or]

/--
  **bridge.**  For a COO graph `C` with indices `< n`, the sparse matrix built by the executable
  model `Spectral.laplacian` (instantiated at ℝ) denotes exactly the matrix `L (toMat n C)` the
  theorems of this file are about — entry by entry, including the positions it does not store.
-/
theorem laplacian_model_lookup (C : Graph.Coo ℝ) (hC : ∀ t ∈ C, t.1 < n ∧ t.2.1 < n)
    (i j : Fin n) :
    Graph.lookup (Spectral.laplacian realT C n) i.val j.val = L (toMat n C) i j := by
  have hrow : ∀ t ∈ C, t.1 < n := fun t ht => (hC t ht).1
  unfold Spectral.laplacian
  simp only
  have hf : (fun x : Nat × Nat => match x with
      | (i, j) => (i, j, Spectral.lapEntry ((Spectral.sqrtDeg realT C n).getD i 1)
          ((Spectral.sqrtDeg realT C n).getD j 1) (Graph.lookup C i j) (i == j)))
      = (fun p : Nat × Nat => (p.1, p.2, (fun p : Nat × Nat =>
          Spectral.lapEntry ((Spectral.sqrtDeg realT C n).getD p.1 1)
          ((Spectral.sqrtDeg realT C n).getD p.2 1) (Graph.lookup C p.1 p.2) (p.1 == p.2)) p)) := by
    funext ⟨a, b⟩; rfl
  rw [hf, lookup_map_nodup _ (eraseDups_nodup _ _ le_rfl)]
  have hbeq : (i.val == j.val) = decide (i = j) := by
    by_cases h : i = j
    · subst h; simp
    · have : i.val ≠ j.val := fun e => h (Fin.ext e)
      simp [h, this]
  split_ifs with hmem
  · simp only [sqrtDeg_getD C hrow, hbeq]
    rfl
  · rw [List.mem_eraseDups, List.mem_append] at hmem
    have hne : i ≠ j := by
      rintro rfl
      exact hmem (Or.inr (List.mem_map.2 ⟨i.val, List.mem_range.2 i.isLt, rfl⟩))
    have hz : Graph.lookup C i.val j.val = 0 := by
      apply lookup_eq_zero
      intro t ht h
      apply hmem
      left
      unfold Graph.positions
      rw [List.mem_eraseDups]
      exact List.mem_map.2 ⟨t, ht, by rw [← h.1, ← h.2]⟩
    rw [L_apply, if_neg hne]
    simp [toMat, hz]

end Bridge

/-! ### non-vacuity: the path graph `0 — 1 — 2` -/

def pathA : Matrix (Fin 3) (Fin 3) ℝ := !![0, 1, 0; 1, 0, 1; 0, 1, 0]

theorem pathA_symm : pathA.IsSymm := by
  ext i j; fin_cases i <;> fin_cases j <;> simp [pathA]

theorem pathA_nonneg : ∀ i j, 0 ≤ pathA i j := by
  intro i j; fin_cases i <;> fin_cases j <;> simp [pathA]

theorem pathA_deg_pos : ∀ j, 0 < deg pathA j := by
  intro j; fin_cases j <;> simp [deg, pathA, Fin.sum_univ_three]

example : L pathA *ᵥ sd pathA = 0 := trivial_eigvec pathA_symm pathA_deg_pos
example (x : Fin 3 → ℝ) : 0 ≤ x ⬝ᵥ (L pathA *ᵥ x) :=
  laplacian_psd pathA_symm pathA_nonneg pathA_deg_pos x

/-- a non-trivial eigenpair of the path graph's Laplacian: eigenvalue `1`, vector `(1, 0, -1)`. -/
theorem pathA_eigvec : L pathA *ᵥ ![1, 0, -1] = (1 : ℝ) • ![1, 0, -1] := by
  funext i
  fin_cases i <;>
    simp [mulVec, dotProduct, Fin.sum_univ_three, L_apply, sd, deg, pathA]

example : ![1, 0, -1] ⬝ᵥ sd pathA = 0 :=
  nontrivial_orthogonal_to_sd pathA_symm pathA_deg_pos pathA_eigvec one_ne_zero

/-- the path graph as the COO list the model consumes; it denotes `pathA`, so the executable
    `Spectral.laplacian` of it denotes `L pathA`. -/
def pathCoo : Graph.Coo ℝ := [(0, 1, 1), (1, 0, 1), (1, 2, 1), (2, 1, 1)]

theorem toMat_pathCoo : toMat 3 pathCoo = pathA := by
  ext i j
  fin_cases i <;> fin_cases j <;> simp [toMat, pathCoo, pathA, Graph.lookup, sumL]

example (i j : Fin 3) :
    Graph.lookup (Spectral.laplacian realT pathCoo 3) i.val j.val = L pathA i j := by
  rw [← toMat_pathCoo]
  exact laplacian_model_lookup pathCoo (by simp [pathCoo]) i j

/-! ## Part 2 — `argsort` and the selection of the eigenvectors -/

section Argsort
open Spectral
variable {K : Type} [LinearOrder K] [Zero K]

theorem insertBy_perm (key : Nat → K) (i : Nat) (l : List Nat) :
    (insertBy key i l).Perm (i :: l) := by
  induction l with
  | nil => simp [insertBy]
  | cons j t ih =>
    unfold insertBy
    split_ifs
    · exact List.Perm.refl _
    · exact (List.Perm.cons j ih).trans (List.Perm.swap i j t)

theorem insertBy_sorted (key : Nat → K) (i : Nat) (l : List Nat)
    (h : l.Pairwise (fun a b => key a ≤ key b)) :
    (insertBy key i l).Pairwise (fun a b => key a ≤ key b) := by
  induction l with
  | nil => simp [insertBy]
  | cons j t ih =>
    rw [List.pairwise_cons] at h
    unfold insertBy
    split_ifs with hlt
    · refine List.pairwise_cons.2 ⟨?_, List.pairwise_cons.2 h⟩
      intro b hb
      rcases List.mem_cons.1 hb with rfl | hb
      · exact hlt.le
      · exact hlt.le.trans (h.1 b hb)
    · refine List.pairwise_cons.2 ⟨?_, ih h.2⟩
      intro b hb
      rcases List.mem_cons.1 ((insertBy_perm key i t).mem_iff.1 hb) with rfl | hb
      · exact not_lt.1 hlt
      · exact h.1 b hb

theorem foldl_insertBy_perm (key : Nat → K) (l acc : List Nat) :
    (l.foldl (fun acc i => insertBy key i acc) acc).Perm (l ++ acc) := by
  induction l generalizing acc with
  | nil => simp
  | cons x t ih =>
    simp only [List.foldl_cons, List.cons_append]
    refine (ih _).trans ?_
    refine ((insertBy_perm key x acc).append_left t).trans ?_
    exact List.perm_middle

/-- `argsort vals` is a permutation of the indices `0 .. len-1`. -/
theorem argsort_perm (vals : List K) : (argsort vals).Perm (List.range vals.length) := by
  unfold argsort
  simpa using foldl_insertBy_perm (fun j => vals.getD j 0) (List.range vals.length) []

theorem argsort_length (vals : List K) : (argsort vals).length = vals.length := by
  simpa using (argsort_perm vals).length_eq

theorem argsort_nodup (vals : List K) : (argsort vals).Nodup :=
  (argsort_perm vals).nodup_iff.2 List.nodup_range

theorem mem_argsort {vals : List K} {c : Nat} : c ∈ argsort vals ↔ c < vals.length := by
  rw [(argsort_perm vals).mem_iff, List.mem_range]

/-- `argsort vals` lists the indices in non-decreasing order of value. -/
theorem argsort_sorted (vals : List K) :
    (argsort vals).Pairwise (fun a b => vals.getD a 0 ≤ vals.getD b 0) := by
  unfold argsort
  exact foldl_inv (fun l => l.Pairwise (fun a b => vals.getD a 0 ≤ vals.getD b 0)) _
    (fun s b hs => insertBy_sorted _ b s hs) _ _ List.Pairwise.nil

/-- `order = np.argsort(eigenvalues)[1:k]` has `dim = k - 1` entries. -/
theorem selectOrder_length (vals : List K) (dim : Nat) (h : dim + 1 ≤ vals.length) :
    (selectOrder vals dim).length = dim := by
  unfold selectOrder
  rw [List.length_take, List.length_drop, argsort_length]
  omega

/-- the sorted order is `dropped :: selected ++ rest`. -/
theorem argsort_eq_cons_select (vals : List K) (dim : Nat) (h : dim + 1 ≤ vals.length) :
    ∃ d, argsort vals = d :: (selectOrder vals dim ++ (argsort vals).drop (dim + 1)) := by
  have hlen := argsort_length vals
  cases hs : argsort vals with
  | nil => rw [hs] at hlen; simp at hlen; omega
  | cons d t =>
    refine ⟨d, ?_⟩
    unfold selectOrder
    rw [hs]
    simp

/-- the dropped index carries a smallest value. -/
theorem dropped_is_min (vals : List K) (d : Nat) (t : List Nat) (h : argsort vals = d :: t)
    (c : Nat) (hc : c < vals.length) : vals.getD d 0 ≤ vals.getD c 0 := by
  have hs := argsort_sorted vals
  have hm : c ∈ argsort vals := mem_argsort.2 hc
  rw [h] at hs hm
  rcases List.mem_cons.1 hm with rfl | hm
  · exact le_rfl
  · exact (List.pairwise_cons.1 hs).1 c hm

/-- `argsort` is stable: among equal values the smaller index comes first
    (the documented behaviour of a stable `np.argsort`; numpy's default quicksort is not
    guaranteed stable, which only matters for exactly tied eigenvalues). -/
theorem argsort_stable (vals : List K) :
    (argsort vals).Pairwise
      (fun a b => vals.getD a 0 < vals.getD b 0 ∨ (vals.getD a 0 = vals.getD b 0 ∧ a < b)) := by
  unfold argsort
  set key : Nat → K := fun j => vals.getD j 0 with hkey
  -- invariant after inserting `0 .. m-1`: strictly-or-stably sorted, and all entries `< m`
  have ins : ∀ (i : Nat) (l : List Nat), (∀ a ∈ l, a < i) →
      l.Pairwise (fun a b => key a < key b ∨ (key a = key b ∧ a < b)) →
      (insertBy key i l).Pairwise (fun a b => key a < key b ∨ (key a = key b ∧ a < b)) := by
    intro i l
    induction l with
    | nil => intro _ _; simp [insertBy]
    | cons j t ih =>
      intro hb h
      rw [List.pairwise_cons] at h
      unfold insertBy
      split_ifs with hlt
      · refine List.pairwise_cons.2 ⟨?_, List.pairwise_cons.2 h⟩
        intro b hb'
        rcases List.mem_cons.1 hb' with rfl | hb'
        · exact Or.inl hlt
        · rcases h.1 b hb' with h1 | h1
          · exact Or.inl (hlt.trans h1)
          · exact Or.inl (h1.1 ▸ hlt)
      · refine List.pairwise_cons.2
          ⟨?_, ih (fun a ha => hb a (List.mem_cons_of_mem _ ha)) h.2⟩
        intro b hb'
        rcases List.mem_cons.1 ((insertBy_perm key i t).mem_iff.1 hb') with rfl | hb'
        · rcases (not_lt.1 hlt).lt_or_eq with h1 | h1
          · exact Or.inl h1
          · exact Or.inr ⟨h1, hb j List.mem_cons_self⟩
        · exact h.1 b hb'
  have main : ∀ m : Nat,
      (∀ a ∈ (List.range m).foldl (fun acc i => insertBy key i acc) [], a < m) ∧
      ((List.range m).foldl (fun acc i => insertBy key i acc) []).Pairwise
        (fun a b => key a < key b ∨ (key a = key b ∧ a < b)) := by
    intro m
    induction m with
    | zero => simp
    | succ m ih =>
      rw [List.range_succ, List.foldl_append]
      simp only [List.foldl_cons, List.foldl_nil]
      refine ⟨?_, ins m _ ih.1 ih.2⟩
      intro a ha
      rcases List.mem_cons.1 ((insertBy_perm key m _).mem_iff.1 ha) with rfl | ha
      · omega
      · have := ih.1 a ha; omega
  exact (main vals.length).2

/--
  **5. `select_spec`.**  Solver contract: the `k = dim + 1` returned pairs
  `(vals[c], vecs c)` are eigenpairs of `M`.  Then the sorted order is
  `dropped :: selectOrder vals dim ++ rest` where the dropped index `d` carries a smallest
  eigenvalue, and every selected column is one of the returned columns, distinct from the dropped
  one and from each other, an eigenvector of `M`, with eigenvalue `≥` the dropped one.
-/
theorem select_spec {n : Nat} (M : Matrix (Fin n) (Fin n) ℝ) (vals : List ℝ)
    (vecs : Nat → Fin n → ℝ) (dim : Nat) (hk : dim + 1 ≤ vals.length)
    (hsolver : ∀ c, c < vals.length → M *ᵥ vecs c = vals.getD c 0 • vecs c) :
    ∃ d, (argsort vals).head? = some d ∧ d < vals.length ∧
      (∀ c, c < vals.length → vals.getD d 0 ≤ vals.getD c 0) ∧
      d ∉ selectOrder vals dim ∧ (selectOrder vals dim).Nodup ∧
      ∀ c ∈ selectOrder vals dim,
        c < vals.length ∧ M *ᵥ vecs c = vals.getD c 0 • vecs c ∧ vals.getD d 0 ≤ vals.getD c 0 := by
  obtain ⟨d, hd⟩ := argsort_eq_cons_select vals dim hk
  have hnd := argsort_nodup vals
  rw [hd] at hnd
  have hnd' := List.nodup_cons.1 hnd
  have hsub : ∀ c ∈ selectOrder vals dim, c < vals.length := by
    intro c hc
    apply mem_argsort.1
    rw [hd]
    exact List.mem_cons_of_mem _ (List.mem_append_left _ hc)
  have hdl : d < vals.length := by
    apply mem_argsort.1; rw [hd]; exact List.mem_cons_self
  refine ⟨d, by rw [hd]; rfl, hdl, dropped_is_min vals d _ hd,
    fun h => hnd'.1 (List.mem_append_left _ h), (List.nodup_append.1 hnd'.2).1, ?_⟩
  intro c hc
  exact ⟨hsub c hc, hsolver c (hsub c hc), dropped_is_min vals d _ hd c (hsub c hc)⟩

/-- for the Laplacian of Part 1: every selected column with a non-zero eigenvalue is orthogonal to
    the trivial eigenvector `sqrt_deg`. -/
theorem selected_orthogonal_to_sd {n : Nat} {A : Matrix (Fin n) (Fin n) ℝ} (hA : A.IsSymm)
    (hdeg : ∀ j, 0 < deg A j) (vals : List ℝ) (vecs : Nat → Fin n → ℝ) (dim : Nat)
    (hk : dim + 1 ≤ vals.length)
    (hsolver : ∀ c, c < vals.length → L A *ᵥ vecs c = vals.getD c 0 • vecs c) :
    ∀ c ∈ selectOrder vals dim, vals.getD c 0 ≠ 0 → vecs c ⬝ᵥ sd A = 0 := by
  obtain ⟨d, -, -, -, -, -, h⟩ := select_spec (L A) vals vecs dim hk hsolver
  intro c hc hne
  exact nontrivial_orthogonal_to_sd hA hdeg (h c hc).2.1 hne

/-- non-vacuity of `select_spec`: the path graph, `dim = 1`, the solver returning the pairs
    `(1, (1,0,-1))` and `(0, sqrt_deg)` in that order: column `0` is selected. -/
example : ∀ c, c < ([1, 0] : List ℝ).length →
    L pathA *ᵥ (fun c => if c = 0 then ![1, 0, -1] else sd pathA) c
      = ([1, 0] : List ℝ).getD c 0 • (fun c => if c = 0 then ![1, 0, -1] else sd pathA) c := by
  intro c hc
  have : c = 0 ∨ c = 1 := by simp at hc; omega
  rcases this with rfl | rfl
  · simpa using pathA_eigvec
  · simpa using trivial_eigvec pathA_symm pathA_deg_pos

example : selectOrder ([1, 0] : List ℝ) 1 = [0] := by
  simp [selectOrder, argsort, insertBy, List.range_succ]

example : selectOrder ([3, 1, 2] : List ℚ) 2 = [2, 0] := by decide

end Argsort

/-! ## Part 3 — the multi-component assembly -/

section Assemble
open Spectral

theorem assemble_length {β : Type} [Inhabited β] (labels : List Nat) (blocks : Nat → List β) :
    (assemble labels blocks).length = labels.length := by
  simp [assemble]

theorem getD_eq_getElem (labels : List Nat) (r : Nat) (h : r < labels.length) :
    labels.getD r 0 = labels[r] := by
  simp [List.getD, h]

/-- the row index used inside the block is smaller than the number of rows with that label. -/
theorem rank_lt_count (labels : List Nat) (r : Nat) (h : r < labels.length) :
    rankInLabel labels r < (labels.filter (· == labels[r])).length := by
  unfold rankInLabel
  rw [getD_eq_getElem labels r h]
  have key : ∀ x, x = labels[r] →
      ((labels.take r).filter (· == x)).length < (labels.filter (· == x)).length := by
    intro x hx
    conv_rhs => rw [← List.take_append_drop r labels]
    rw [List.filter_append, List.length_append, List.drop_eq_getElem_cons h, ← hx]
    simp
  exact key _ rfl

/-- two rows with the same label use different block rows (in increasing order). -/
theorem rank_injective (labels : List Nat) (r s : Nat) (hrs : r < s) (hs : s < labels.length)
    (hl : labels[r] = labels[s]) : rankInLabel labels r < rankInLabel labels s := by
  have hr : r < labels.length := by omega
  unfold rankInLabel
  rw [getD_eq_getElem labels r hr, getD_eq_getElem labels s hs, hl]
  generalize hx : labels[s] = x at hl ⊢
  have hlen : r < (labels.take s).length := by rw [List.length_take]; omega
  have e : labels.take s = labels.take r ++ (labels.take s).drop r := by
    conv_lhs => rw [← List.take_append_drop r (labels.take s)]
    rw [List.take_take, min_eq_left hrs.le]
  rw [e, List.filter_append, List.length_append, List.drop_eq_getElem_cons hlen,
    List.getElem_take, hl]
  simp


/-- **every result row is written from a genuine block row**: if each block has as many rows as
    its label occurs, row `r` of the result is row `rankInLabel r` of the block of `labels[r]`
    (never the `default` filler, i.e. no row of the `np.empty` result stays uninitialised). -/
theorem assemble_row {β : Type} [Inhabited β] (labels : List Nat) (blocks : Nat → List β)
    (hblocks : ∀ l ∈ labels, (blocks l).length = (labels.filter (· == l)).length)
    (r : Nat) (h : r < labels.length) :
    ∃ hr : rankInLabel labels r < (blocks labels[r]).length,
      (assemble labels blocks)[r]'(by rw [assemble_length]; exact h)
        = (blocks labels[r])[rankInLabel labels r] := by
  have hr : rankInLabel labels r < (blocks labels[r]).length := by
    rw [hblocks _ (List.getElem_mem h)]; exact rank_lt_count labels r h
  refine ⟨hr, ?_⟩
  unfold assemble
  rw [List.getElem_map, List.getElem_range, getD_eq_getElem labels r h]
  simp [List.getD, hr]

theorem rank_append (labels : List Nat) (x r : Nat) (h : r < labels.length) :
    rankInLabel (labels ++ [x]) r = rankInLabel labels r := by
  unfold rankInLabel
  have e : (labels ++ [x]).getD r 0 = labels.getD r 0 := by
    simp [List.getD, List.getElem?_append_left h]
  rw [List.take_append_of_le_length h.le, e]

theorem rank_last (labels : List Nat) (x : Nat) :
    rankInLabel (labels ++ [x]) labels.length = (labels.filter (· == x)).length := by
  unfold rankInLabel
  rw [List.take_left']
  · simp [List.getD]
  · rfl

/-- **every block row is used**: each of the `count l` rows of block `l` is the source of some
    result row (together with `rank_injective`: of exactly one). -/
theorem rank_surjective (labels : List Nat) (l k : Nat)
    (hk : k < (labels.filter (· == l)).length) :
    ∃ r, ∃ h : r < labels.length, labels[r] = l ∧ rankInLabel labels r = k := by
  induction labels using List.reverseRecOn with
  | nil => simp at hk
  | append_singleton t x ih =>
    by_cases hk' : k < (t.filter (· == l)).length
    · obtain ⟨r, hr, h1, h2⟩ := ih hk'
      refine ⟨r, by rw [List.length_append]; omega, ?_, ?_⟩
      · rw [List.getElem_append_left hr]; exact h1
      · rw [rank_append t x r hr]; exact h2
    · rw [List.filter_append, List.length_append] at hk
      have hx : x = l := by
        by_contra hne
        have : ([x].filter (· == l)).length = 0 := by simp [hne]
        omega
      subst hx
      have hkeq : k = (t.filter (· == x)).length := by
        have : ([x].filter (· == x)).length = 1 := by simp
        omega
      refine ⟨t.length, by simp, by simp, ?_⟩
      rw [rank_last, hkeq]

/-- non-vacuity: labels `[0, 1, 0, 1, 1]`, block `0 = [a0, a1]`, block `1 = [b0, b1, b2]`. -/
example : assemble [0, 1, 0, 1, 1] (fun l => if l = 0 then [10, 11] else [20, 21, 22])
    = [10, 20, 11, 21, 22] := by decide

example : ∀ l ∈ [0, 1, 0, 1, 1],
    ((fun l => if l = 0 then [10, 11] else [20, 21, 22]) l : List Nat).length
      = (([0, 1, 0, 1, 1] : List Nat).filter (· == l)).length := by decide

example : rankInLabel [0, 1, 0, 1, 1] 4 < (([0, 1, 0, 1, 1] : List Nat).filter (· == 1)).length :=
  rank_lt_count [0, 1, 0, 1, 1] 4 (by decide)

example : rankInLabel [0, 1, 0, 1, 1] 1 < rankInLabel [0, 1, 0, 1, 1] 3 :=
  rank_injective _ 1 3 (by decide) (by decide) (by decide)

end Assemble

end C15
end Umap
