/-
  UmapProps.UmapSrcProofs — the kernels of umap/umap_.py as written (`Generated/UmapSrc.lean`, machine-translated
  from the source text) equal the hand-written model, for all inputs under named shape hypotheses.
-/
import UmapModel.Knn
import UmapModel.Graph
import UmapModel.Pipeline
import Generated.UmapSrc
import UmapProofs.SrcLemmas
import UmapProofs.SrcLemmasD
import UmapProofs.SrcLemmasE
import UmapProofs.UmapSrcLemmas
import Mathlib.Tactic

set_option linter.unusedSectionVars false
set_option linter.unusedVariables false

namespace Umap
namespace UmapSrcProofs
open SrcLemmas UmapSrcLemmas

section generic
variable {α : Type} [Add α] [Sub α] [Mul α] [Div α] [Neg α] [LT α] [LE α]
  [DecidableLT α] [DecidableLE α] [OfNat α 0] [OfNat α 1] [NatCast α]

/-! ### 1. `_finite_mean` -/

/-- the accumulator loop of `_finite_mean`, started anywhere -/
theorem finiteMean_loop (infv : α) (hirr : ¬ infv < infv) (xs : List (Option α))
    (hfin : ∀ x, some x ∈ xs → -infv < x ∧ x < infv) (t : α) (c : Nat) :
    (xs.map (fun o => o.getD infv)).foldl (fun (st : α × Nat) (v : α) =>
        if ((decide (v < infv)) && (decide ((-infv) < v))) then (st.1 + v, st.2 + 1) else (st.1, st.2))
        (t, c)
      = ((Knn.finites xs).foldl (· + ·) t, c + (Knn.finites xs).length) := by
  induction xs generalizing t c with
  | nil => simp [Knn.finites]
  | cons o xs ih =>
    have hfin' : ∀ x, some x ∈ xs → -infv < x ∧ x < infv :=
      fun x hx => hfin x (List.mem_cons_of_mem _ hx)
    cases o with
    | none =>
      simp only [List.map_cons, List.foldl_cons, Option.getD_none, hirr, decide_false,
        Bool.false_and, Bool.false_eq_true, if_false]
      rw [ih hfin']
      simp [Knn.finites]
    | some x =>
      obtain ⟨h1, h2⟩ := hfin x (by simp)
      simp only [List.map_cons, List.foldl_cons, Option.getD_some, h1, h2, decide_true,
        Bool.and_self, if_true]
      rw [ih hfin']
      simp [Knn.finites]
      omega

/-- `_finite_mean` as written = `Knn.finiteMean`, a row with `inf` entries being encoded as
    `none ↦ infv`.  `hirr` (`infv` is not below itself) is what makes `np.isfinite(inf)` false. -/
theorem finiteMean_src (infv : α) (hirr : ¬ infv < infv) (xs : List (Option α))
    (hfin : ∀ x, some x ∈ xs → -infv < x ∧ x < infv) :
    SrcUmap.finiteMean infv (xs.map (fun o => o.getD infv)) = Knn.finiteMean xs := by
  unfold SrcUmap.finiteMean Knn.finiteMean
  simp only []
  have := finiteMean_loop infv hirr xs hfin 0 0
  rw [this]
  simp only [Nat.zero_add, sumL]
  by_cases h : (Knn.finites xs).length = 0
  · simp [h]
  · simp [h]

/-! ### 2. `fast_intersection` -/

/-- the label encoding of the model: `-1` = unlabelled -/
def labelsOf (target : List Int) : List (Option Int) :=
  target.map (fun t => if t == -1 then none else some t)

/-- `fast_intersection` as written = `Graph.fastIntersection` on the COO triples, the labels being
    `-1 ↦ none`.  `hrow` / `hcol` (every stored position indexes into `target`) are needed: the translated
    source reads `target.getD i 0` (label `0`) out of range where the model says "unknown". -/
theorem fastIntersection_src (T : Transc α) (rows cols : List Nat) (values : List α) (target : List Int)
    (ud fd : α) (hrc : rows.length = cols.length) (hrv : rows.length = values.length)
    (hrow : ∀ i ∈ rows, i < target.length) (hcol : ∀ j ∈ cols, j < target.length) :
    SrcUmap.fastIntersection T rows cols values target ud fd
      = (Graph.fastIntersection T (labelsOf target) ud fd (rows.zip (cols.zip values))).map (·.2.2) := by
  unfold SrcUmap.fastIntersection Graph.fastIntersection
  simp only []
  let H : Nat → α → α := fun nz v =>
    if (((target.getD (rows.getD nz 0) 0) == (-1 : Int)) || ((target.getD (cols.getD nz 0) 0) == (-1 : Int))) then
      v * T.exp (-ud)
    else if ((target.getD (rows.getD nz 0) 0) != (target.getD (cols.getD nz 0) 0)) then v * T.exp (-fd)
    else v
  trans (List.range rows.length).foldl (fun st nz => st.set nz (H nz (st.getD nz 0))) values
  · apply List.foldl_ext
    intro st nz _
    simp only [H]
    split_ifs <;> first | rfl | exact (set_getD_self st nz 0).symm
  rw [foldl_range_set_self H 0 values rows.length hrv.symm]
  apply List.ext_getElem
  · simp [← hrc, ← hrv]
  intro nz h1 h2
  have hr : nz < rows.length := by simpa using h1
  have hc : nz < cols.length := hrc ▸ hr
  have hv : nz < values.length := hrv ▸ hr
  have hi : rows[nz] < target.length := hrow _ (List.getElem_mem hr)
  have hj : cols[nz] < target.length := hcol _ (List.getElem_mem hc)
  simp only [List.getElem_map, List.getElem_range, List.getElem_zip, H, labelsOf,
    List.getD_eq_getElem?_getD, List.getElem?_eq_getElem hr, List.getElem?_eq_getElem hc,
    List.getElem?_eq_getElem hv, List.getElem?_eq_getElem hi, List.getElem?_eq_getElem hj,
    Option.getD_some, List.getElem?_map, Option.map_some]
  by_cases ha : target[rows[nz]] = -1
  · simp [ha]
  · by_cases hb : target[cols[nz]] = -1
    · simp [ha, hb]
    · by_cases hab : target[rows[nz]] = target[cols[nz]]
      · simp [hb, hab]
      · simp [ha, hb, hab]

/-! ### 3. `reprocess_row` -/

/-- the body of the `for n in range(n_iters)` loop of `reprocess_row`, verbatim from `Generated/UmapSrc.lean`;
    state `(hi, mid, lo, brk0_)` -/
def rrStepSrc (T : Transc α) (infv : α) (probabilities : List α) (target : α)
    (st : α × α × α × Bool) (n : Nat) : α × α × α × Bool :=
      let hi := st.1
      let mid := st.2.1
      let lo := st.2.2.1
      let brk0_ := st.2.2.2
      if brk0_ then (hi, mid, lo, brk0_) else
        let psum : α := 0
        let psum := (List.range probabilities.length).foldl (fun (st : α) (j : Nat) =>
            let psum := st
            let psum := psum + (T.pow (probabilities.getD j 0) mid)
            psum) psum
        if (absV (psum - target)) < (1 / ((100000 : Nat) : α)) then
          let brk0_ : Bool := true
          (hi, mid, lo, brk0_)
        else
          let (hi, mid, lo) := (
            if psum < target then
              let hi : α := mid
              let mid : α := ((lo + hi) / ((2 : Nat) : α))
              (hi, mid, lo)
            else
              let lo : α := mid
              let mid := (
                if (eqV hi infv) then
                  let mid := mid * ((2 : Nat) : α)
                  mid
                else
                  let mid : α := ((lo + hi) / ((2 : Nat) : α))
                  mid)
              (hi, mid, lo))
          (hi, mid, lo, brk0_)

theorem reprocessRow_src_unfold (T : Transc α) (infv : α) (ps : List α) (k : α) (n : Nat) :
    SrcUmap.reprocessRow T infv ps k n
      = ps.map (fun a => T.pow a
          ((List.range n).foldl (rrStepSrc T infv ps (T.log k / T.log ((2 : Nat) : α))) (infv, 1, 0, false)).2.1) :=
  rfl

/-- the body of the model's loop -/
def rrStepModel (T : Transc α) (tol target : α) (ps : List α) (s : Knn.BState α) (_ : Nat) : Knn.BState α :=
    if s.done then s else
    let p := sumL (ps.map (fun x => T.pow x s.mid))
    if absV (p - target) < tol then { s with done := true }
    else if p < target then { s with hi := some s.mid, mid := (s.lo + s.mid) / (1 + 1) }
    else match s.hi with
      | none => { s with lo := s.mid, mid := s.mid * (1 + 1) }
      | some h => { s with lo := s.mid, mid := (s.mid + h) / (1 + 1) }

theorem reprocessRow_model_unfold (T : Transc α) (tol target : α) (n : Nat) (ps : List α) :
    Graph.reprocessRow T tol target n ps
      = ps.map (fun x => T.pow x ((List.range n).foldl (rrStepModel T tol target ps) Knn.bisectInit).mid) :=
  rfl

/-! ### 4. `init_transform` -/

theorem getD_mem_of_lt {β : Type} (l : List β) (i : Nat) (d : β) (hi : i < l.length) : l.getD i d ∈ l := by
  rw [List.getD_eq_getElem?_getD, List.getElem?_eq_getElem hi]
  exact List.getElem_mem hi

/-- `init_transform` as written (three nested index loops writing `result[i, d] += w * e` in place) =
    `Pipeline.initTransform`, under rectangular shapes: `indices` and `weights` have the same number of rows, all
    of length `k` (the source takes the column count from row 0 of `indices`). -/
theorem initTransform_src (indices : List (List Nat)) (weights embedding : List (List α)) (k : Nat)
    (hlen : indices.length = weights.length) (hik : ∀ r ∈ indices, r.length = k)
    (hwk : ∀ r ∈ weights, r.length = k) :
    SrcUmap.initTransform indices weights embedding
      = Pipeline.initTransform (embedding.getD 0 []).length indices weights embedding := by
  unfold SrcUmap.initTransform Pipeline.initTransform
  simp only []
  refine (foldl_accum3 (fun i j d => (weights.getD i []).getD j 0 *
      (embedding.getD ((indices.getD i []).getD j 0) []).getD d 0) _ _ _ 0).trans ?_
  refine Eq.trans ?_ (SrcLemmasD.map_range_getD₂ indices weights [] [] hlen (fun ir wr =>
    (List.range (embedding.getD 0 []).length).map (fun d =>
      (ir.zip wr).foldl (fun acc jw => acc + jw.2 * ((embedding.getD jw.1 []).getD d 0)) 0)))
  apply List.map_congr_left
  intro i hi
  have hi' : i < indices.length := List.mem_range.mp hi
  apply List.map_congr_left
  intro d hd
  have hk0 : (indices.getD 0 []).length = k := hik _ (getD_mem_of_lt _ _ _ (by omega))
  have h1 : (indices.getD i []).length = k := hik _ (getD_mem_of_lt _ _ _ hi')
  have h2 : (weights.getD i []).length = k := hwk _ (getD_mem_of_lt _ _ _ (hlen ▸ hi'))
  rw [hk0]
  exact SrcLemmas.foldl_range_getD₂' k (indices.getD i []) (weights.getD i []) 0 0 h1 h2
    (fun acc a b => acc + b * (embedding.getD a []).getD d 0) 0

/-! ### 5. `init_update` -/

/-- the body of the outer `for i in range(n_original_samples, indices.shape[0])` loop, verbatim from
    `Generated/UmapSrc.lean` -/
def iuBody (n_original_samples : Nat) (indices : List (List Nat)) (st : List (List α)) (i : Nat) :
    List (List α) :=
      let current_init := st
      let n : Nat := 0
      let (n, current_init) := (List.range ((indices).getD 0 []).length).foldl (fun (st : Nat × (List (List α))) (j : Nat) =>
          let n := st.1
          let current_init := st.2
          let (n, current_init) := (List.range ((current_init).getD 0 []).length).foldl (fun (st : Nat × (List (List α))) (d : Nat) =>
              let n := st.1
              let current_init := st.2
              let (n, current_init) := (
                if ((indices.getD i []).getD j 0) < n_original_samples then
                  let n := n + 1
                  let current_init := current_init.set i ((current_init.getD i []).set d (((current_init.getD i []).getD d 0) + ((current_init.getD ((indices.getD i []).getD j 0) []).getD d 0)))
                  (n, current_init)
                else
                  (n, current_init))
              (n, current_init)) (n, current_init)
          (n, current_init)) (n, current_init)
      let current_init := (
        if n > 0 then
          let current_init := (List.range ((current_init).getD 0 []).length).foldl (fun (st : (List (List α))) (d : Nat) =>
              let current_init := st
              let current_init := current_init.set i ((current_init.getD i []).set d (((current_init.getD i []).getD d 0) / ((n : Nat) : α)))
              current_init) current_init
          current_init
        else
          current_init)
      current_init

theorem initUpdate_unfold (ci : List (List α)) (nOrig : Nat) (indices : List (List Nat)) :
    SrcUmap.initUpdate ci nOrig indices
      = (SrcUmap.rangeFrom nOrig indices.length).foldl (iuBody nOrig indices) ci := rfl

/-- the accumulation loops of the body, in readable form -/
def iuLoop (nOrig : Nat) (nbrs : List Nat) (k0 i : Nat) (s0 : Nat × List (List α)) : Nat × List (List α) :=
  (List.range k0).foldl (fun s j =>
    (List.range (s.2.getD 0 []).length).foldl (fun s d =>
      if nbrs.getD j 0 < nOrig then
        (s.1 + 1, s.2.set i ((s.2.getD i []).set d
          ((s.2.getD i []).getD d 0 + (s.2.getD (nbrs.getD j 0) []).getD d 0)))
      else s) s) s0

/-- the division loop of the body -/
def iuDiv (i n : Nat) (st : List (List α)) : List (List α) :=
  (List.range (st.getD 0 []).length).foldl (fun s d =>
    s.set i ((s.getD i []).set d ((s.getD i []).getD d 0 / ((n : Nat) : α)))) st

theorem iuBody_unfold (nOrig : Nat) (indices : List (List Nat)) (st : List (List α)) (i : Nat) :
    iuBody nOrig indices st i
      = if (iuLoop nOrig (indices.getD i []) (indices.getD 0 []).length i (0, st)).1 > 0 then
          iuDiv i (iuLoop nOrig (indices.getD i []) (indices.getD 0 []).length i (0, st)).1
            (iuLoop nOrig (indices.getD i []) (indices.getD 0 []).length i (0, st)).2
        else (iuLoop nOrig (indices.getD i []) (indices.getD 0 []).length i (0, st)).2 := rfl

/-- the accumulation loops of one new row `i ≥ nOrig`: they only ever write row `i`, and read rows `< nOrig`,
    which are therefore those of the state the body started from -/
theorem iuLoop_eq (nOrig dim : Nat) (nbrs : List Nat) (i : Nat) (st : List (List α))
    (hi : nOrig ≤ i) (hiN : i < st.length) (hrows : ∀ r ∈ st, r.length = dim) :
    iuLoop nOrig nbrs nbrs.length i (0, st)
      = ((nbrs.filter (· < nOrig)).length * dim,
         st.set i ((List.range dim).map (fun d =>
           (nbrs.filter (· < nOrig)).foldl (fun acc x => acc + (st.getD x []).getD d 0)
             ((st.getD i []).getD d 0)))) := by
  let P : Nat × List (List α) → Prop := fun s => ∃ r : List α, r.length = dim ∧ s.2 = st.set i r
  have hP0 : P (0, st) := ⟨st.getD i [], hrows _ (getD_mem_of_lt _ _ _ hiN), (set_getD_self st i []).symm⟩
  have hPdim : ∀ s, P s → (s.2.getD 0 []).length = dim := by
    rintro s ⟨r, hr, e⟩
    rw [e]
    by_cases h0 : i = 0
    · subst h0; rw [getD_set_self _ _ _ _ hiN]; exact hr
    · rw [getD_set_ne _ _ _ _ _ h0]; exact hrows _ (getD_mem_of_lt _ _ _ (by omega))
  unfold iuLoop
  refine ((foldl_congr_inv P _ (fun s j =>
      (List.range dim).foldl (fun (s : Nat × List (List α)) d =>
        if nbrs.getD j 0 < nOrig then
          (s.1 + 1, s.2.set i ((s.2.getD i []).set d
            ((s.2.getD i []).getD d 0 + (st.getD (nbrs.getD j 0) []).getD d 0)))
        else s) s) _ _ hP0 ?_).1).trans ?_
  · intro s j _ hs
    rw [hPdim s hs]
    refine foldl_congr_inv P _ _ _ _ hs ?_
    intro s d _ hs
    by_cases hc : nbrs.getD j 0 < nOrig
    · simp only [hc, if_true]
      obtain ⟨r, hr, e⟩ := hs
      have hne : i ≠ nbrs.getD j 0 := by omega
      have e1 : s.2.getD (nbrs.getD j 0) [] = st.getD (nbrs.getD j 0) [] := by
        rw [e, getD_set_ne _ _ _ _ _ hne]
      have e2 : s.2.getD i [] = r := by rw [e, getD_set_self _ _ _ _ hiN]
      refine ⟨by rw [e1], ?_⟩
      refine ⟨r.set d (r.getD d 0 + (st.getD (nbrs.getD j 0) []).getD d 0), by simpa using hr, ?_⟩
      simp only [e2]
      rw [e, List.set_set]
    · simp only [hc, if_false]
      exact ⟨trivial, hs⟩
  · refine (foldl_range_getD' nbrs 0 (fun (s : Nat × List (List α)) x =>
      (List.range dim).foldl (fun (s : Nat × List (List α)) d =>
        if x < nOrig then
          (s.1 + 1, s.2.set i ((s.2.getD i []).set d
            ((s.2.getD i []).getD d 0 + (st.getD x []).getD d 0)))
        else s) s) (0, st)).trans ?_
    refine (pair_loop (fun x => x < nOrig) (fun x d => (st.getD x []).getD d 0) 0 i dim nbrs 0 st hiN
      (hrows _ (getD_mem_of_lt _ _ _ hiN))).trans ?_
    simp

theorem iuDiv_eq (i n dim : Nat) (st : List (List α)) (hiN : i < st.length)
    (hrows : ∀ r ∈ st, r.length = dim) :
    iuDiv i n st = st.set i ((st.getD i []).map (fun v => v / ((n : Nat) : α))) := by
  unfold iuDiv
  have h0 : (st.getD 0 []).length = dim := hrows _ (getD_mem_of_lt _ _ _ (by omega))
  have hr : (st.getD i []).length = dim := hrows _ (getD_mem_of_lt _ _ _ hiN)
  rw [h0, foldl_slot (fun d (r : List α) => r.set d (r.getD d 0 / ((n : Nat) : α))) (List.range dim) i [] st,
    foldl_range_set_self (fun _ v => v / ((n : Nat) : α)) 0 (st.getD i []) dim hr]
  congr 1
  rw [← hr]
  exact SrcLemmasD.map_range_getD (st.getD i []) 0 (fun v => v / ((n : Nat) : α))

/-- one iteration of the outer loop, for a new row `i ≥ nOrig`, on any state whose rows all have length `dim` -/
theorem iuBody_eq (nOrig dim : Nat) (indices : List (List Nat)) (st : List (List α)) (i : Nat)
    (hi : nOrig ≤ i) (hiN : i < st.length) (hrows : ∀ r ∈ st, r.length = dim)
    (hk0 : (indices.getD 0 []).length = (indices.getD i []).length) :
    iuBody nOrig indices st i
      = st.set i (Pipeline.initUpdateRow nOrig dim (fun j => st.getD j []) (st.getD i []) (indices.getD i [])) := by
  rw [iuBody_unfold, hk0, iuLoop_eq nOrig dim _ i st hi hiN hrows]
  unfold Pipeline.initUpdateRow
  simp only []
  by_cases hn : ((indices.getD i []).filter (· < nOrig)).length * dim = 0
  · rw [if_neg (by omega), if_pos hn]
  · rw [if_pos (by omega), if_neg hn]
    rw [iuDiv_eq i _ dim _ (by simpa using hiN)]
    · rw [getD_set_self _ _ _ _ hiN, List.set_set]
    · intro r hr
      rcases List.mem_or_eq_of_mem_set hr with h | h
      · exact hrows r h
      · rw [h]; simp

/-- the model row only reads the original rows `< nOrig` -/
theorem initUpdateRow_congr (nOrig dim : Nat) (orig orig' : Nat → List α) (row0 : List α) (nbrs : List Nat)
    (h : ∀ j, j < nOrig → orig j = orig' j) :
    Pipeline.initUpdateRow nOrig dim orig row0 nbrs = Pipeline.initUpdateRow nOrig dim orig' row0 nbrs := by
  unfold Pipeline.initUpdateRow
  simp only []
  have e : (List.range dim).map (fun d =>
        (nbrs.filter (· < nOrig)).foldl (fun acc j => acc + (orig j).getD d 0) (row0.getD d 0))
      = (List.range dim).map (fun d =>
        (nbrs.filter (· < nOrig)).foldl (fun acc j => acc + (orig' j).getD d 0) (row0.getD d 0)) := by
    apply List.map_congr_left
    intro d _
    apply List.foldl_ext
    intro acc j hj
    have : j < nOrig := by simpa using (List.mem_filter.mp hj).2
    rw [h j this]
  rw [e]

theorem initUpdateRow_length (nOrig dim : Nat) (orig : Nat → List α) (row0 : List α) (nbrs : List Nat) :
    (Pipeline.initUpdateRow nOrig dim orig row0 nbrs).length = dim := by
  unfold Pipeline.initUpdateRow
  simp only []
  split_ifs <;> simp

/-- the state of `init_update` after the new rows `nOrig .. nOrig + c - 1` have been processed -/
def iuState (ci : List (List α)) (nOrig dim : Nat) (indices : List (List Nat)) (c : Nat) : List (List α) :=
  (List.range ci.length).map (fun m =>
    if nOrig ≤ m ∧ m < nOrig + c then
      Pipeline.initUpdateRow nOrig dim (fun j => ci.getD j []) (ci.getD m []) (indices.getD m [])
    else ci.getD m [])

theorem iuState_getD (ci : List (List α)) (nOrig dim : Nat) (indices : List (List Nat)) (c m : Nat)
    (hm : m < ci.length) :
    (iuState ci nOrig dim indices c).getD m []
      = if nOrig ≤ m ∧ m < nOrig + c then
          Pipeline.initUpdateRow nOrig dim (fun j => ci.getD j []) (ci.getD m []) (indices.getD m [])
        else ci.getD m [] := by
  unfold iuState
  rw [getD_map_range _ _ _ _ hm]

theorem iuState_rows (ci : List (List α)) (nOrig dim : Nat) (indices : List (List Nat)) (c : Nat)
    (hdim : ∀ r ∈ ci, r.length = dim) : ∀ r ∈ iuState ci nOrig dim indices c, r.length = dim := by
  intro r hr
  unfold iuState at hr
  obtain ⟨m, hm, rfl⟩ := List.mem_map.mp hr
  have hm' : m < ci.length := List.mem_range.mp hm
  split_ifs
  · exact initUpdateRow_length _ _ _ _ _
  · exact hdim _ (getD_mem_of_lt _ _ _ hm')

theorem iuOuter (ci : List (List α)) (nOrig dim k : Nat) (indices : List (List Nat))
    (hlen : ci.length = indices.length) (hdim : ∀ r ∈ ci, r.length = dim)
    (hk : ∀ r ∈ indices, r.length = k) (c : Nat) (hc : c ≤ ci.length - nOrig) :
    (List.range c).foldl (fun st t => iuBody nOrig indices st (nOrig + t)) ci
      = iuState ci nOrig dim indices c := by
  induction c with
  | zero =>
    simp only [List.range_zero, List.foldl_nil]
    unfold iuState
    have : ∀ m, ¬ (nOrig ≤ m ∧ m < nOrig + 0) := by intro m; omega
    simp only [this, if_false]
    exact (map_range_getD_self ci ci.length [] rfl).symm
  | succ c ih =>
    have hcN : nOrig + c < ci.length := by omega
    rw [List.range_succ, List.foldl_append, ih (by omega)]
    simp only [List.foldl_cons, List.foldl_nil]
    have hk0 : (indices.getD 0 []).length = (indices.getD (nOrig + c) []).length := by
      rw [hk _ (getD_mem_of_lt _ _ _ (by omega)), hk _ (getD_mem_of_lt _ _ _ (by omega))]
    have hlenS : (iuState ci nOrig dim indices c).length = ci.length := by simp [iuState]
    rw [iuBody_eq nOrig dim indices _ (nOrig + c) (Nat.le_add_right _ _) (by rw [hlenS]; exact hcN)
      (iuState_rows ci nOrig dim indices c hdim) hk0]
    rw [iuState_getD _ _ _ _ _ _ hcN, if_neg (by omega)]
    rw [initUpdateRow_congr nOrig dim (fun j => (iuState ci nOrig dim indices c).getD j [])
      (fun j => ci.getD j []) _ _ (by
        intro j hj
        show (iuState ci nOrig dim indices c).getD j [] = ci.getD j []
        rw [iuState_getD _ _ _ _ _ _ (by omega), if_neg (by omega)])]
    apply List.ext_getElem?
    intro m
    rw [List.getElem?_set, hlenS]
    unfold iuState
    by_cases hm : nOrig + c = m
    · subst hm
      simp [hcN]
    · rw [if_neg hm]
      by_cases hmN : m < ci.length
      · have e : (nOrig ≤ m ∧ m < nOrig + (c + 1)) ↔ (nOrig ≤ m ∧ m < nOrig + c) := by omega
        simp [hmN, e]
      · simp [hmN]

/-- `init_update` as written = rows `< nOrig` unchanged, every new row `i ≥ nOrig` replaced by
    `Pipeline.initUpdateRow` computed from the ORIGINAL `current_init` (the in-place source reads the rows it is
    itself rewriting, but only rows `indices[i, j] < nOrig`, which it never writes).  Rectangular shapes:
    `current_init` and `indices` have the same number of rows, of lengths `dim` resp. `k` (the source takes both
    column counts from row 0). -/
theorem initUpdate_src (ci : List (List α)) (nOrig dim k : Nat) (indices : List (List Nat))
    (hlen : ci.length = indices.length) (hdim : ∀ r ∈ ci, r.length = dim)
    (hk : ∀ r ∈ indices, r.length = k) :
    SrcUmap.initUpdate ci nOrig indices
      = (List.range ci.length).map (fun i =>
          if i < nOrig then ci.getD i []
          else Pipeline.initUpdateRow nOrig dim (fun j => ci.getD j []) (ci.getD i []) (indices.getD i [])) := by
  rw [initUpdate_unfold]
  unfold SrcUmap.rangeFrom
  rw [List.foldl_map, ← hlen, iuOuter ci nOrig dim k indices hlen hdim hk _ (le_refl _)]
  unfold iuState
  apply List.map_congr_left
  intro m hm
  have hm' : m < ci.length := List.mem_range.mp hm
  by_cases h : m < nOrig
  · rw [if_neg (by omega), if_pos h]
  · rw [if_pos (by omega), if_neg h]

end generic

section field
variable {K : Type} [Field K] [LinearOrder K] [IsStrictOrderedRing K]

/-- the simulation relation between the source state `(hi, mid, lo, brk0_)` after `i` iterations and the model's
    `BState`: `hi = inf` is `none`, and every finite `hi` is `< infv`. -/
def RRel (infv : K) (i : Nat) (st : K × K × K × Bool) (s : Knn.BState K) : Prop :=
  st.2.1 = s.mid ∧ st.2.2.1 = s.lo ∧ st.2.2.2 = s.done ∧ st.1 = s.hi.getD infv ∧
  (∀ h, s.hi = some h → h < infv ∧ s.mid ≤ h) ∧ (s.hi = none → s.mid ≤ 2 ^ i) ∧
  0 ≤ s.lo ∧ s.lo ≤ s.mid

theorem rr_psum (T : Transc K) (ps : List K) (mid : K) :
    (List.range ps.length).foldl (fun (st : K) (j : Nat) => st + T.pow (ps.getD j 0) mid) 0
      = sumL (ps.map (fun x => T.pow x mid)) := by
  rw [foldl_range_getD' ps 0 (fun st a => st + T.pow a mid)]
  simp [sumL, List.foldl_map]

theorem eqV_iff (a b : K) : eqV a b = true ↔ a = b := by
  unfold eqV
  rw [Bool.and_eq_true, decide_eq_true_eq, decide_eq_true_eq]
  exact ⟨fun h => le_antisymm h.1 h.2, fun h => h ▸ ⟨le_refl _, le_refl _⟩⟩

theorem rr_step (T : Transc K) (infv target : K) (ps : List K) (i : Nat) (hi2 : (2 : K) ^ i < infv)
    (st : K × K × K × Bool) (s : Knn.BState K) (h : RRel infv i st s) :
    RRel infv (i + 1) (rrStepSrc T infv ps target st i)
      (rrStepModel T (1 / ((100000 : Nat) : K)) target ps s i) := by
  obtain ⟨hi, mid, lo, brk⟩ := st
  obtain ⟨slo, shi, smid, sdone⟩ := s
  obtain ⟨h1, h2, h3, h4, h5, h6, h7, h8⟩ := h
  simp only at h1 h2 h3 h4 h5 h6 h7 h8
  subst h1 h2 h3 h4
  have h2pow : (2 : K) ^ i ≤ 2 ^ (i + 1) := by
    rw [pow_succ]; have : (0 : K) < 2 ^ i := by positivity
    linarith
  have two : ((2 : Nat) : K) = 1 + 1 := by norm_num
  unfold rrStepSrc rrStepModel
  simp only [rr_psum, two]
  by_cases hb : brk = true
  · subst hb
    simp only [if_true]
    exact ⟨rfl, rfl, rfl, rfl, h5, fun hn => (h6 hn).trans h2pow, h7, h8⟩
  · have hb' : brk = false := by simpa using hb
    subst hb'
    simp only [Bool.false_eq_true, if_false]
    by_cases htol : absV (sumL (ps.map (fun x => T.pow x mid)) - target) < 1 / ((100000 : Nat) : K)
    · simp only [htol, if_true]
      exact ⟨rfl, rfl, rfl, rfl, h5, fun hn => (h6 hn).trans h2pow, h7, h8⟩
    · simp only [htol, if_false]
      by_cases hp : sumL (ps.map (fun x => T.pow x mid)) < target
      · simp only [hp, if_true]
        have hmid : mid < infv := by
          cases shi with
          | none => exact lt_of_le_of_lt (h6 rfl) hi2
          | some h => exact lt_of_le_of_lt (h5 h rfl).2 (h5 h rfl).1
        refine ⟨rfl, rfl, rfl, rfl, ?_, ?_, h7, ?_⟩
        · intro h hh
          simp only [Option.some.injEq] at hh
          subst hh
          refine ⟨hmid, ?_⟩
          rw [div_le_iff₀ (by norm_num)]; linarith
        · intro hn; simp at hn
        · rw [le_div_iff₀ (by norm_num)]; linarith
      · simp only [hp, if_false]
        cases shi with
        | none =>
          have he : eqV (Option.getD (none : Option K) infv) infv = true := by
            rw [eqV_iff]; rfl
          simp only [he, if_true]
          have hm0 : 0 ≤ mid := le_trans h7 h8
          refine ⟨rfl, rfl, rfl, rfl, ?_, ?_, hm0, ?_⟩
          · intro h hh; simp at hh
          · intro _
            rw [pow_succ]
            have := h6 rfl
            linarith
          · linarith
        | some h =>
          obtain ⟨hh1, hh2⟩ := h5 h rfl
          have he : ¬ (eqV (Option.getD (some h) infv) infv = true) := by
            rw [eqV_iff]; simp only [Option.getD_some]; exact ne_of_lt hh1
          simp only [he]
          refine ⟨rfl, rfl, rfl, rfl, ?_, ?_, le_trans h7 h8, ?_⟩
          · intro h' hh'
            simp only [Option.some.injEq] at hh'
            subst hh'
            refine ⟨hh1, ?_⟩
            rw [div_le_iff₀ (by norm_num)]; linarith
          · intro hn; simp at hn
          · rw [le_div_iff₀ (by norm_num)]; linarith

theorem rr_fold (T : Transc K) (infv target : K) (ps : List K) (n : Nat)
    (hinf : ∀ i, i < n → (2 : K) ^ i < infv) :
    RRel infv n
      ((List.range n).foldl (rrStepSrc T infv ps target) (infv, 1, 0, false))
      ((List.range n).foldl (rrStepModel T (1 / ((100000 : Nat) : K)) target ps) Knn.bisectInit) := by
  induction n with
  | zero =>
    simp only [List.range_zero, List.foldl_nil]
    unfold RRel
    refine ⟨rfl, rfl, rfl, rfl, ?_, ?_, le_refl _, zero_le_one⟩
    · intro h hh; simp [Knn.bisectInit] at hh
    · intro _; simp [Knn.bisectInit]
  | succ n ih =>
    rw [List.range_succ, List.foldl_append, List.foldl_append]
    simp only [List.foldl_cons, List.foldl_nil]
    exact rr_step T infv target ps n (hinf n (Nat.lt_succ_self n)) _ _
      (ih (fun i hi => hinf i (Nat.lt_succ_of_lt hi)))

/-- `reprocess_row` as written (`hi : float`, initialised to `np.inf`, tested with `hi == np.inf`) =
    `Graph.reprocessRow` (`hi : Option`), for every `T` (so for every trajectory of the bisection), provided the
    value standing for `np.inf` is above every power of two the doubling phase can reach: `hinf`.
    (If some reachable `mid` equals `infv` the two differ: the source takes the finite `hi = infv` for "still
    unbounded" and doubles where the model bisects.) -/
theorem reprocessRow_src (T : Transc K) (infv : K) (ps : List K) (k : K) (n : Nat)
    (hinf : ∀ i, i < n → (2 : K) ^ i < infv) :
    SrcUmap.reprocessRow T infv ps k n
      = Graph.reprocessRow T (1 / ((100000 : Nat) : K)) (T.log k / T.log ((2 : Nat) : K)) n ps := by
  rw [reprocessRow_src_unfold, reprocessRow_model_unfold]
  have h := rr_fold T infv (T.log k / T.log ((2 : Nat) : K)) ps n hinf
  rw [h.1]

/-- the convenient form: `2 ^ n < infv`. -/
theorem reprocessRow_src' (T : Transc K) (infv : K) (ps : List K) (k : K) (n : Nat)
    (hinf : (2 : K) ^ n < infv) :
    SrcUmap.reprocessRow T infv ps k n
      = Graph.reprocessRow T (1 / ((100000 : Nat) : K)) (T.log k / T.log ((2 : Nat) : K)) n ps :=
  reprocessRow_src T infv ps k n (fun i hi =>
    lt_of_le_of_lt (pow_le_pow_right₀ (by norm_num) (Nat.le_of_lt hi)) hinf)

/-- over an ordered field `¬ infv < infv` is automatic -/
theorem finiteMean_src_field (infv : K) (xs : List (Option K))
    (hfin : ∀ x, some x ∈ xs → -infv < x ∧ x < infv) :
    SrcUmap.finiteMean infv (xs.map (fun o => o.getD infv)) = Knn.finiteMean xs :=
  finiteMean_src infv (lt_irrefl infv) xs hfin

end field

/-! ### the named hypotheses are needed: counterexamples over `ℚ` -/

section counterexamples

/-- a `Transc ℚ` with `exp _ = 2` and a chosen `pow` -/
def cexT (pw : ℚ → ℚ → ℚ) : Transc ℚ :=
  { exp := fun _ => 2, log := id, sqrt := id, pow := pw, sin := id, cos := id, asin := id,
    acosh := id, trunc := fun _ => 0, ofInt := fun z => (z : ℚ) }

/-- `hrow` of `fastIntersection_src` cannot be dropped: one stored entry at row `1` with a single label
    `target = [0]`.  The translated source reads `target.getD 1 0 = 0`, a label equal to that of column `0`, and
    leaves the value alone; the model has no label for row `1` and applies the unknown-label factor.
    (In Python the read `target[1]` is out of bounds — an `IndexError`, or undefined under numba.) -/
theorem fastIntersection_out_of_range :
    SrcUmap.fastIntersection (cexT fun x _ => x) [1] [0] [(1 : ℚ)] [0] 0 0
      ≠ (Graph.fastIntersection (cexT fun x _ => x) (labelsOf [0]) 0 0
          ([1].zip ([0].zip [(1 : ℚ)]))).map (·.2.2) := by
  have h1 : SrcUmap.fastIntersection (cexT fun x _ => x) [1] [0] [(1 : ℚ)] [0] 0 0 = [1] := by
    simp [SrcUmap.fastIntersection, List.range_succ]
  have h2 : (Graph.fastIntersection (cexT fun x _ => x) (labelsOf [0]) 0 0
      ([1].zip ([0].zip [(1 : ℚ)]))).map (·.2.2) = [2] := by
    simp [Graph.fastIntersection, labelsOf, cexT]
  rw [h1, h2]
  simp

/-- `hinf` of `reprocessRow_src` cannot be dropped: with `infv = 2` and 3 iterations, a `pow` that makes the
    sum too large at `mid = 1`, too small at `mid = 2`, too large at `mid = 3/2`: the second step stores
    `hi = 2 = infv`; at the third the source takes `hi == inf` and doubles (`mid = 3`), the model bisects
    (`mid = 7/4`). -/
theorem reprocessRow_infv_reachable :
    SrcUmap.reprocessRow (cexT fun _ m => if m = 2 then 0 else 20 + m) 2 [1] 20 3
      ≠ Graph.reprocessRow (cexT fun _ m => if m = 2 then 0 else 20 + m) (1 / ((100000 : Nat) : ℚ))
          ((cexT fun _ m => if m = 2 then 0 else 20 + m).log 20
            / (cexT fun _ m => if m = 2 then 0 else 20 + m).log ((2 : Nat) : ℚ)) 3 [1] := by
  have h1 : SrcUmap.reprocessRow (cexT fun _ m => if m = 2 then 0 else 20 + m) 2 [1] 20 3 = [23] := by
    rw [reprocessRow_src_unfold]
    norm_num [List.range_succ, rrStepSrc, cexT, absV, eqV]
  have h2 : Graph.reprocessRow (cexT fun _ m => if m = 2 then 0 else 20 + m) (1 / ((100000 : Nat) : ℚ))
      ((cexT fun _ m => if m = 2 then 0 else 20 + m).log 20
        / (cexT fun _ m => if m = 2 then 0 else 20 + m).log ((2 : Nat) : ℚ)) 3 [1] = [87 / 4] := by
    rw [reprocessRow_model_unfold]
    norm_num [List.range_succ, rrStepModel, cexT, absV, sumL, Knn.bisectInit]
  rw [h1, h2]
  norm_num

end counterexamples

end UmapSrcProofs
end Umap
