/-
  C07More — further facts about the layout optimiser (C07, C04(c), C17).

  Model: `Umap.Sgd` (layouts.py `_optimize_layout_euclidean_single_epoch`,
  `_optimize_layout_generic_single_epoch`, `optimize_layout_euclidean/generic`;
  parametric_umap.py `get_graph_elements`).

  Contents
   1. `head_untouched(_epoch/_dens)`   — C04(c): a head vertex with no edge keeps its row;
      `head_row_irrelevant`, `other_rows_independent` — and its row influences nothing else
      (separate buffers): overwriting it commutes with the whole optimisation.
   2. `gen_frozen_tail`, `gen_head_untouched`, `gen_head_row_irrelevant` — the same for the
      generic-output-metric kernel, for an arbitrary metric function.
   3. `negClockStep`, `clocksStep`, `runClocks`; `neg_clock_step`, `clocks_inv`, `neg_clock_inv`,
      `negatives_proportional` — the negative-sample clock; `epoch_clock`, `run_clock`,
      `run_clock_dens`, `gen_run_clock`, `run_clock_real` — the isolated clocks *are* the entries
      `eons[i]`, `eonns[i]` of the optimiser's state.
   4. `wl_range`, `gen_attract_coeff_eq`, `gen_repulse_coeff_eq` (+ `_guard` versions keeping the
      `1e-6`).
   5. `parametric_repeats_spec/_get/_close`, `parametric_kept_pos`.
   6. `clip_sum_abs`, `dens_term_bounded`; `attractMove_coord_le` — the 4α / 8α bounds on the model.
-/
import UmapProofs.Basic
import UmapProofs.RealT
import UmapModel.Sgd
import UmapProps.C07
import Mathlib.Tactic
import Mathlib.Analysis.SpecialFunctions.Pow.Real

namespace Umap
namespace C07
open Sgd

/-! ### array helpers -/

theorem getElem!_modify_of_ne {β : Type} [Inhabited β] (a : Array β) (j v : Nat) (f : β → β)
    (h : j ≠ v) : (a.modify j f)[v]! = a[v]! := by
  rw [getElem!_def, getElem!_def, Array.getElem?_modify, if_neg h]

/-- a projection preserved by every step taken on a member of the list is preserved by the fold. -/
theorem foldl_proj_mem {σ β γ : Type} (π : σ → γ) (f : σ → β → σ) (l : List β)
    (h : ∀ t, ∀ x ∈ l, π (f t x) = π t) (s : σ) : π (l.foldl f s) = π s := by
  induction l generalizing s with
  | nil => rfl
  | cons x l ih =>
    simp only [List.foldl_cons]
    rw [ih (fun t y hy => h t y (List.mem_cons_of_mem _ hy)), h s x List.mem_cons_self]

/-! ### (C04 c) a head vertex that is the head of no edge keeps its row -/

section Untouched
variable {α : Type} [Add α] [Sub α] [Mul α] [Div α] [Neg α] [LT α] [LE α]
  [DecidableLT α] [DecidableLE α] [OfNat α 0] [OfNat α 1] [NatCast α] [Inhabited α]

theorem setHead_head_ne (s : State α) (j d v : Nat) (x : α) (h : j ≠ v) :
    (setHead s j d x).head[v]! = s.head[v]! :=
  getElem!_modify_of_ne _ _ _ _ h

/-- `setTail` leaves head row `v` alone unless the buffers are aliased and `k = v`. -/
theorem setTail_head_ne (P : Params α) (s : State α) (k d v : Nat) (x : α)
    (h : P.aliased = true → k ≠ v) : (setTail P s k d x).head[v]! = s.head[v]! := by
  unfold setTail
  split_ifs with ha
  · exact getElem!_modify_of_ne _ _ _ _ (h ha)
  · rfl

theorem attractMove_head_ne (rnd : α → α) (P : Params α) (alpha gc : α) (cor : Option α)
    (j k v : Nat) (hj : j ≠ v) (hk : P.aliased = true ∧ P.moveOther = true → k ≠ v) (s : State α) :
    (attractMove rnd P alpha gc cor j k s).head[v]! = s.head[v]! := by
  unfold attractMove
  apply foldl_proj_mem (fun t : State α => t.head[v]!)
  intro t d _
  dsimp only
  split_ifs with hm
  · rw [setTail_head_ne P _ k d v _ (fun ha => hk ⟨ha, hm⟩), setHead_head_ne _ _ _ _ _ hj]
  · rw [setHead_head_ne _ _ _ _ _ hj]

theorem negSample_head_ne (T : Transc α) (rnd : α → α) (P : Params α) (alpha : α) (j v : Nat)
    (hj : j ≠ v) (s : State α) : (negSample T rnd P alpha j s).head[v]! = s.head[v]! := by
  unfold negSample
  dsimp only
  split_ifs <;> first
    | rfl
    | exact foldl_proj_mem (fun t : State α => t.head[v]!) _ _
        (fun t d _ => setHead_head_ne t j d v _ hj) _

theorem edgeStep_head_ne (T : Transc α) (rnd : α → α) (P : Params α) (hd tl : Array Nat)
    (eps epns : Array α) (alpha : α) (n : Nat) (cor : Option (Nat → α → α)) (v i : Nat)
    (hj : hd[i]! ≠ v) (hk : P.aliased = true ∧ P.moveOther = true → tl[i]! ≠ v) (s : State α) :
    (edgeStep T rnd P hd tl eps epns alpha n cor s i).head[v]! = s.head[v]! := by
  unfold edgeStep
  split_ifs with h
  · dsimp only
    rw [foldl_proj_mem (fun t : State α => t.head[v]!) _ _
      (fun t _ _ => negSample_head_ne T rnd P alpha _ v hj t)]
    exact attractMove_head_ne rnd P alpha _ _ _ _ v hj hk s
  · rfl

/--
  **C04(c), one epoch.**  A head vertex `v` that is the head of no edge — and, in the only
  configuration in which a tail write lands in the head buffer (`aliased ∧ moveOther`), not the
  tail of any edge either — keeps its row, whatever it contains (NaN included: the statement is
  about the stored row, no arithmetic on it is performed), for every graph, clock state, seed,
  learning rate, rounding and density term.
-/
theorem head_untouched_epoch (T : Transc α) (rnd : α → α) (P : Params α) (hd tl : Array Nat)
    (eps epns : Array α) (alpha : α) (n : Nat) (cor : Option (Nat → α → α)) (v : Nat)
    (hh : ∀ i < eps.size, hd[i]! ≠ v)
    (ht : P.aliased = true ∧ P.moveOther = true → ∀ i < eps.size, tl[i]! ≠ v) (s : State α) :
    (epoch T rnd P hd tl eps epns alpha n cor s).head[v]! = s.head[v]! := by
  unfold epoch
  apply foldl_proj_mem (fun t : State α => t.head[v]!)
  intro t i hi
  have hi' : i < eps.size := List.mem_range.1 hi
  exact edgeStep_head_ne T rnd P hd tl eps epns alpha n cor v i (hh i hi')
    (fun hc => ht hc i hi') t

/-- **C04(c)**, the whole optimisation. -/
theorem head_untouched (T : Transc α) (rnd : α → α) (P : Params α) (hd tl : Array Nat)
    (eps epns : Array α) (alpha0 : α) (N : Nat) (v : Nat)
    (hh : ∀ i < eps.size, hd[i]! ≠ v)
    (ht : P.aliased = true ∧ P.moveOther = true → ∀ i < eps.size, tl[i]! ≠ v) (s : State α) :
    (runEpochs T rnd P hd tl eps epns alpha0 N s).head[v]! = s.head[v]! := by
  unfold runEpochs
  apply foldl_proj_mem (fun t : State α => t.head[v]!)
  intro t n _
  exact head_untouched_epoch T rnd P hd tl eps epns _ n none v hh ht t

/-- the same with the densMAP switch. -/
theorem head_untouched_dens (T : Transc α) (rnd : α → α) (P : Params α) (hd tl : Array Nat)
    (eps epns : Array α) (alpha0 : α) (N : Nat) (densmap : Bool) (lambda frac : α)
    (corf : Nat → State α → Nat → α → α) (v : Nat)
    (hh : ∀ i < eps.size, hd[i]! ≠ v)
    (ht : P.aliased = true ∧ P.moveOther = true → ∀ i < eps.size, tl[i]! ≠ v) (s : State α) :
    (runEpochsDens T rnd P hd tl eps epns alpha0 N densmap lambda frac corf s).head[v]!
      = s.head[v]! := by
  unfold runEpochsDens
  apply foldl_proj_mem (fun t : State α => t.head[v]!)
  intro t n _
  exact head_untouched_epoch T rnd P hd tl eps epns _ n _ v hh ht t

end Untouched

/-! ### the same two facts for the generic-output-metric kernel -/

section Generic
variable {α : Type} [Add α] [Sub α] [Mul α] [Div α] [Neg α] [LT α] [LE α]
  [DecidableLT α] [DecidableLE α] [OfNat α 0] [OfNat α 1] [NatCast α] [Inhabited α]

theorem genAttractMove_tail (T : Transc α) (rnd : α → α) (P : Params α) (hm : P.moveOther = false)
    (eps6 alpha : α) (metric : Array α → Array α → α × Array α) (j k : Nat) (s : State α) :
    (genAttractMove T rnd P eps6 alpha metric j k s).tail = s.tail := by
  unfold genAttractMove
  apply foldl_tail
  intro t d
  simp only [hm, Bool.false_eq_true, if_false]
  rfl

theorem genNegSample_tail (T : Transc α) (rnd : α → α) (P : Params α) (eps6 alpha : α)
    (metric : Array α → Array α → α × Array α) (j : Nat) (s : State α) :
    (genNegSample T rnd P eps6 alpha metric j s).tail = s.tail := by
  unfold genNegSample
  dsimp only
  split_ifs <;> first
    | rfl
    | exact foldl_setHead_tail _ _ _ _

theorem genEdgeStep_tail (T : Transc α) (rnd : α → α) (P : Params α) (hm : P.moveOther = false)
    (eps6 : α) (metric : Array α → Array α → α × Array α) (hd tl : Array Nat) (eps epns : Array α)
    (alpha : α) (n : Nat) (s : State α) (i : Nat) :
    (genEdgeStep T rnd P eps6 metric hd tl eps epns alpha n s i).tail = s.tail := by
  unfold genEdgeStep
  split_ifs with h
  · dsimp only
    rw [foldl_tail _ (fun t _ => genNegSample_tail T rnd P eps6 alpha metric _ t)]
    exact genAttractMove_tail T rnd P hm eps6 alpha metric _ _ s
  · rfl

theorem gen_frozen_tail_epoch (T : Transc α) (rnd : α → α) (P : Params α)
    (hm : P.moveOther = false) (eps6 : α) (metric : Array α → Array α → α × Array α)
    (hd tl : Array Nat) (eps epns : Array α) (alpha : α) (n : Nat) (s : State α) :
    (genEpoch T rnd P eps6 metric hd tl eps epns alpha n s).tail = s.tail := by
  unfold genEpoch
  exact foldl_tail _ (fun t i => genEdgeStep_tail T rnd P hm eps6 metric hd tl eps epns alpha n t i) _ s

/-- **(e), generic kernel.** With `move_other = False` the tail (reference) buffer is never
    written, for every output metric (any function at all), graph, seed and epoch count. -/
theorem gen_frozen_tail (T : Transc α) (rnd : α → α) (P : Params α) (hm : P.moveOther = false)
    (eps6 : α) (metric : Array α → Array α → α × Array α) (hd tl : Array Nat) (eps epns : Array α)
    (alpha0 : α) (N : Nat) (s : State α) :
    (genRunEpochs T rnd P eps6 metric hd tl eps epns alpha0 N s).tail = s.tail := by
  unfold genRunEpochs
  exact foldl_tail _ (fun t n => gen_frozen_tail_epoch T rnd P hm eps6 metric hd tl eps epns _ n t) _ s

theorem genAttractMove_head_ne (T : Transc α) (rnd : α → α) (P : Params α) (eps6 alpha : α)
    (metric : Array α → Array α → α × Array α) (j k v : Nat) (hj : j ≠ v)
    (hk : P.aliased = true ∧ P.moveOther = true → k ≠ v) (s : State α) :
    (genAttractMove T rnd P eps6 alpha metric j k s).head[v]! = s.head[v]! := by
  unfold genAttractMove
  apply foldl_proj_mem (fun t : State α => t.head[v]!)
  intro t d _
  dsimp only
  split_ifs with hm
  · rw [setTail_head_ne P _ k d v _ (fun ha => hk ⟨ha, hm⟩), setHead_head_ne _ _ _ _ _ hj]
  · rw [setHead_head_ne _ _ _ _ _ hj]

theorem genNegSample_head_ne (T : Transc α) (rnd : α → α) (P : Params α) (eps6 alpha : α)
    (metric : Array α → Array α → α × Array α) (j v : Nat) (hj : j ≠ v) (s : State α) :
    (genNegSample T rnd P eps6 alpha metric j s).head[v]! = s.head[v]! := by
  unfold genNegSample
  dsimp only
  split_ifs <;> first
    | rfl
    | exact foldl_proj_mem (fun t : State α => t.head[v]!) _ _
        (fun t d _ => setHead_head_ne t j d v _ hj) _

theorem genEdgeStep_head_ne (T : Transc α) (rnd : α → α) (P : Params α) (eps6 : α)
    (metric : Array α → Array α → α × Array α) (hd tl : Array Nat)
    (eps epns : Array α) (alpha : α) (n : Nat) (v i : Nat)
    (hj : hd[i]! ≠ v) (hk : P.aliased = true ∧ P.moveOther = true → tl[i]! ≠ v) (s : State α) :
    (genEdgeStep T rnd P eps6 metric hd tl eps epns alpha n s i).head[v]! = s.head[v]! := by
  unfold genEdgeStep
  split_ifs with h
  · dsimp only
    rw [foldl_proj_mem (fun t : State α => t.head[v]!) _ _
      (fun t _ _ => genNegSample_head_ne T rnd P eps6 alpha metric _ v hj t)]
    exact genAttractMove_head_ne T rnd P eps6 alpha metric _ _ v hj hk s
  · rfl

theorem gen_head_untouched_epoch (T : Transc α) (rnd : α → α) (P : Params α) (eps6 : α)
    (metric : Array α → Array α → α × Array α) (hd tl : Array Nat)
    (eps epns : Array α) (alpha : α) (n : Nat) (v : Nat)
    (hh : ∀ i < eps.size, hd[i]! ≠ v)
    (ht : P.aliased = true ∧ P.moveOther = true → ∀ i < eps.size, tl[i]! ≠ v) (s : State α) :
    (genEpoch T rnd P eps6 metric hd tl eps epns alpha n s).head[v]! = s.head[v]! := by
  unfold genEpoch
  apply foldl_proj_mem (fun t : State α => t.head[v]!)
  intro t i hi
  have hi' : i < eps.size := List.mem_range.1 hi
  exact genEdgeStep_head_ne T rnd P eps6 metric hd tl eps epns alpha n v i (hh i hi')
    (fun hc => ht hc i hi') t

/-- **C04(c), generic kernel.** -/
theorem gen_head_untouched (T : Transc α) (rnd : α → α) (P : Params α) (eps6 : α)
    (metric : Array α → Array α → α × Array α) (hd tl : Array Nat)
    (eps epns : Array α) (alpha0 : α) (N : Nat) (v : Nat)
    (hh : ∀ i < eps.size, hd[i]! ≠ v)
    (ht : P.aliased = true ∧ P.moveOther = true → ∀ i < eps.size, tl[i]! ≠ v) (s : State α) :
    (genRunEpochs T rnd P eps6 metric hd tl eps epns alpha0 N s).head[v]! = s.head[v]! := by
  unfold genRunEpochs
  apply foldl_proj_mem (fun t : State α => t.head[v]!)
  intro t n _
  exact gen_head_untouched_epoch T rnd P eps6 metric hd tl eps epns _ n v hh ht t

end Generic

/-! ### the negative-sample clock -/

section NegClockDef
variable {α : Type} [Add α] [Sub α] [Mul α] [Div α] [LE α] [DecidableLE α] [NatCast α]

/-- the two negative-sample clock lines of `edgeStep`, in isolation:
    `n_neg = int((n - eonns) / epns)`; `eonns += n_neg * epns`.  State: `(eonns, drawn)`. -/
def negClockStep (T : Transc α) (epns : α) (st : α × Nat) (n : Nat) : α × Nat :=
  let nNeg := T.trunc (((n : α) - st.1) / epns)
  (st.1 + T.ofInt nNeg * epns, st.2 + nNeg.toNat)

/-- both clocks of one edge. -/
structure Clocks (α : Type) where
  eons : α
  eonns : α
  visits : Nat
  drawn : Nat

/-- the clock part of `edgeStep` in epoch `n`. -/
def clocksStep (T : Transc α) (eps epns : α) (st : Clocks α) (n : Nat) : Clocks α :=
  if st.eons ≤ (n : α) then
    let r := negClockStep T epns (st.eonns, st.drawn) n
    { eons := st.eons + eps, eonns := r.1, visits := st.visits + 1, drawn := r.2 }
  else st

/-- epochs `0 .. N-1` from the initial clocks `(eps, epns)` (`optimize_layout_euclidean` copies
    `epochs_per_sample` / `epochs_per_negative_sample` into the two clocks). -/
def runClocks (T : Transc α) (eps epns : α) (N : Nat) : Clocks α :=
  (List.range N).foldl (clocksStep T eps epns) ⟨eps, epns, 0, 0⟩

end NegClockDef

/-- one visit, over ℝ: if the negative clock is not ahead of the epoch counter, then after the
    step it is still not ahead, nothing is owed (`n - eonns < epns`), the clock advanced by exactly
    `nNeg · epns` and `nNeg = ⌊(n - eonns)/epns⌋` samples were drawn. -/
theorem neg_clock_step (epns : ℝ) (h : 0 < epns) (st : ℝ × ℕ) (n : ℕ) (hle : st.1 ≤ n) :
    let r := negClockStep realT epns st n
    r.1 ≤ n ∧ (n : ℝ) - r.1 < epns ∧ st.2 ≤ r.2 ∧ r.1 = st.1 + ((r.2 - st.2 : ℕ) : ℝ) * epns
      ∧ r.2 - st.2 = ⌊((n : ℝ) - st.1) / epns⌋₊ := by
  intro r
  have hx : 0 ≤ ((n : ℝ) - st.1) / epns := div_nonneg (sub_nonneg.2 hle) h.le
  have hr : r = (st.1 + ((⌊((n : ℝ) - st.1) / epns⌋ : ℤ) : ℝ) * epns,
      st.2 + (⌊((n : ℝ) - st.1) / epns⌋).toNat) := by
    simp only [r, negClockStep, realT, if_pos hx]
  set z := ⌊((n : ℝ) - st.1) / epns⌋ with hz
  have hz0 : 0 ≤ z := Int.floor_nonneg.2 hx
  have hcast : ((z.toNat : ℕ) : ℝ) = (z : ℝ) := by
    have : ((z.toNat : ℕ) : ℤ) = z := Int.toNat_of_nonneg hz0
    exact_mod_cast this
  have h1 : (z : ℝ) ≤ ((n : ℝ) - st.1) / epns := Int.floor_le _
  have h2 : ((n : ℝ) - st.1) / epns < z + 1 := Int.lt_floor_add_one _
  rw [le_div_iff₀ h] at h1
  rw [div_lt_iff₀ h] at h2
  rw [hr]
  simp only [Nat.add_sub_cancel_left, hcast]
  refine ⟨by linarith, by linarith, Nat.le_add_right _ _, trivial, ?_⟩
  rfl

/-- the positive clock inside `runClocks` is `runClock`. -/
theorem runClocks_pos (eps epns : ℝ) (N : ℕ) :
    ((runClocks realT eps epns N).eons, (runClocks realT eps epns N).visits) = runClock eps N := by
  unfold runClocks runClock
  induction N with
  | zero => rfl
  | succ N ih =>
    rw [List.range_succ, List.foldl_append, List.foldl_append]
    simp only [List.foldl_cons, List.foldl_nil]
    rw [← ih]
    unfold clocksStep edgeClock
    dsimp only
    split_ifs <;> rfl

/-- the joint invariant of the two clocks after `N` epochs (`rate = negative_sample_rate ≥ 1`,
    `epns = eps / rate`, `eps ≥ 1`). -/
theorem clocks_inv (eps rate : ℝ) (h1 : 1 ≤ eps) (hr : 1 ≤ rate) (N : ℕ) :
    let r := runClocks realT eps (eps / rate) N
    r.eons = ((r.visits : ℝ) + 1) * eps ∧ (N : ℝ) - 1 < r.eons
      ∧ r.eonns = ((r.drawn : ℝ) + 1) * (eps / rate)
      ∧ r.eonns ≤ r.eons
      ∧ rate * r.visits - 2 < r.drawn ∧ (r.drawn : ℝ) + 1 ≤ rate * (r.visits + 1) := by
  have hr0 : 0 < rate := by linarith
  have he0 : 0 < eps := by linarith
  have hp : 0 < eps / rate := div_pos he0 hr0
  have hpe : eps / rate ≤ eps := div_le_self he0.le hr
  induction N with
  | zero =>
    simp only [runClocks, List.range_zero, List.foldl_nil, Nat.cast_zero]
    refine ⟨by ring, by linarith, by ring, hpe, by linarith, by linarith⟩
  | succ N ih =>
    simp only [runClocks, List.range_succ, List.foldl_append, List.foldl_cons, List.foldl_nil] at ih ⊢
    set st := List.foldl (clocksStep realT eps (eps / rate)) ⟨eps, eps / rate, 0, 0⟩ (List.range N)
      with hst
    obtain ⟨i1, i2, i3, i4, i5, i6⟩ := ih
    unfold clocksStep
    split_ifs with hv
    · have hle : st.eonns ≤ N := by linarith
      obtain ⟨n1, n2, n3, n4, _⟩ := neg_clock_step (eps / rate) hp (st.eonns, st.drawn) N hle
      dsimp only at n1 n2 n3 n4 ⊢
      set q := negClockStep realT (eps / rate) (st.eonns, st.drawn) N with hq
      have hd : ((q.2 - st.drawn : ℕ) : ℝ) = (q.2 : ℝ) - st.drawn := by
        rw [Nat.cast_sub n3]
      rw [hd, i3] at n4
      have e3 : q.1 = ((q.2 : ℝ) + 1) * (eps / rate) := by rw [n4]; ring
      -- in units of `eps / rate`
      have k1 : ((q.2 : ℝ) + 1) * (eps / rate) ≤ N := by rw [← e3]; exact n1
      have k2 : (N : ℝ) < ((q.2 : ℝ) + 2) * (eps / rate) := by
        have : ((q.2 : ℝ) + 2) * (eps / rate) = q.1 + eps / rate := by rw [e3]; ring
        rw [this]; linarith
      have hv' : ((st.visits : ℝ) + 1) * eps ≤ N := by rw [← i1]; exact hv
      have hv2 : (N : ℝ) < ((st.visits : ℝ) + 1) * eps + 1 := by rw [← i1]; linarith
      rw [mul_div_assoc'] at k1 k2
      rw [div_le_iff₀ hr0] at k1
      rw [lt_div_iff₀ hr0] at k2
      push_cast
      refine ⟨by rw [i1]; ring, by linarith, e3, by linarith, ?_, ?_⟩
      · -- (d+2) eps > N rate ≥ (c+1) eps rate
        have : ((st.visits : ℝ) + 1) * eps * rate ≤ N * rate :=
          mul_le_mul_of_nonneg_right hv' hr0.le
        have h3 : (rate * ((st.visits : ℝ) + 1)) * eps < ((q.2 : ℝ) + 2) * eps := by nlinarith
        have := lt_of_mul_lt_mul_right h3 he0.le
        linarith
      · -- (d+1) eps ≤ N rate < ((c+1) eps + 1) rate ≤ (c+2) eps rate
        have h4 : (N : ℝ) * rate < (((st.visits : ℝ) + 1) * eps + 1) * rate :=
          mul_lt_mul_of_pos_right hv2 hr0
        have h5 : (((st.visits : ℝ) + 1) * eps + 1) * rate ≤ (((st.visits : ℝ) + 1) * eps + eps) * rate :=
          mul_le_mul_of_nonneg_right (by linarith) hr0.le
        have h3 : ((q.2 : ℝ) + 1) * eps < (rate * ((st.visits : ℝ) + 1 + 1)) * eps := by nlinarith
        have := lt_of_mul_lt_mul_right h3 he0.le
        linarith
    · push Not at hv
      push_cast
      exact ⟨i1, by linarith, i3, i4, i5, i6⟩

/-- **negative-sample clock.**  If the edge is visited in epoch `n` then afterwards the negative
    clock is not ahead of `n`, no negative sample is owed (`n - eonns < epns`), and the cumulative
    number of negative samples drawn for the edge is `⌊n / epns⌋ - 1 = ⌊rate · n / eps⌋ - 1`
    (the clock starts at `epns`, not at `0`, hence the `- 1`). -/
theorem neg_clock_inv (eps rate : ℝ) (h1 : 1 ≤ eps) (hr : 1 ≤ rate) (n : ℕ)
    (hv : (runClocks realT eps (eps / rate) n).eons ≤ n) :
    let r := runClocks realT eps (eps / rate) (n + 1)
    r.eonns ≤ n ∧ (n : ℝ) - r.eonns < eps / rate ∧ r.drawn + 1 = ⌊(n : ℝ) / (eps / rate)⌋₊ := by
  have hr0 : 0 < rate := by linarith
  have he0 : 0 < eps := by linarith
  have hp : 0 < eps / rate := div_pos he0 hr0
  obtain ⟨_, _, _, i4, _, _⟩ := clocks_inv eps rate h1 hr n
  obtain ⟨_, _, j3, _, _, _⟩ := clocks_inv eps rate h1 hr (n + 1)
  intro r
  have hrdef : r = clocksStep realT eps (eps / rate) (runClocks realT eps (eps / rate) n) n := by
    simp only [r, runClocks, List.range_succ, List.foldl_append, List.foldl_cons, List.foldl_nil]
  set st := runClocks realT eps (eps / rate) n with hst
  have hle : st.eonns ≤ n := le_trans i4 hv
  obtain ⟨n1, n2, _, _, _⟩ := neg_clock_step (eps / rate) hp (st.eonns, st.drawn) n hle
  have e1 : r.eonns = (negClockStep realT (eps / rate) (st.eonns, st.drawn) n).1 := by
    rw [hrdef]; unfold clocksStep; rw [if_pos hv]
  rw [← e1] at n1 n2
  refine ⟨n1, n2, ?_⟩
  symm
  rw [Nat.floor_eq_iff (div_nonneg (Nat.cast_nonneg _) hp.le), le_div_iff₀ hp, div_lt_iff₀ hp]
  change r.eonns = _ at j3
  push_cast
  constructor
  · rw [← j3]; exact n1
  · have : ((r.drawn : ℝ) + 1 + 1) * (eps / rate) = r.eonns + eps / rate := by rw [j3]; ring
    rw [this]; linarith

/-- **negatives per positive visit are proportional to `negative_sample_rate`**: at every moment
    of the run `rate · visits - 2 < drawn ≤ rate · (visits + 1) - 1`. -/
theorem negatives_proportional (eps rate : ℝ) (h1 : 1 ≤ eps) (hr : 1 ≤ rate) (N : ℕ) :
    let r := runClocks realT eps (eps / rate) N
    rate * r.visits - 2 < r.drawn ∧ (r.drawn : ℝ) ≤ rate * r.visits + (rate - 1) := by
  obtain ⟨_, _, _, _, i5, i6⟩ := clocks_inv eps rate h1 hr N
  intro r
  exact ⟨i5, by change (r.drawn : ℝ) + 1 ≤ rate * (r.visits + 1) at i6; linarith⟩

/-- the negative clock never runs ahead of the positive one. -/
theorem neg_clock_le (eps rate : ℝ) (h1 : 1 ≤ eps) (hr : 1 ≤ rate) (N : ℕ) :
    (runClocks realT eps (eps / rate) N).eonns ≤ (runClocks realT eps (eps / rate) N).eons :=
  (clocks_inv eps rate h1 hr N).2.2.2.1

-- non-vacuity: eps = 2, rate = 5: first visit in epoch 2
example : (runClocks realT (2 : ℝ) (2 / 5) 2).eons ≤ ((2 : ℕ) : ℝ) := by
  norm_num [runClocks, List.range_succ, clocksStep]

example : (runClocks realT (2 : ℝ) (2 / 5) 3).drawn = 4 := by
  have := (neg_clock_inv 2 5 (by norm_num) (by norm_num) 2
    (by norm_num [runClocks, List.range_succ, clocksStep])).2.2
  have h : ⌊((2 : ℕ) : ℝ) / (2 / 5)⌋₊ = 5 := by rw [Nat.floor_eq_iff] <;> norm_num
  rw [h] at this
  show (runClocks realT (2 : ℝ) (2 / 5) (2 + 1)).drawn = 4
  omega

/-! ### the generic kernel's coefficients -/

theorem wl_eq (a b d : ℝ) (hd : 0 < d) : wl realT a b d = (1 + a * d ^ (2 * b))⁻¹ := by
  unfold wl
  rw [if_pos hd]
  simp only [realT, Nat.cast_ofNat]
  rw [Real.rpow_neg_one]

theorem wl_zero (a b d : ℝ) (hd : d ≤ 0) : wl realT a b d = 1 := by
  unfold wl
  rw [if_neg (not_lt.2 hd)]

/-- the low-dimensional membership weight is in `(0, 1]`. -/
theorem wl_range (a b d : ℝ) (ha : 0 ≤ a) : 0 < wl realT a b d ∧ wl realT a b d ≤ 1 := by
  by_cases hd : 0 < d
  · rw [wl_eq a b d hd]
    have h0 : 0 ≤ d ^ (2 * b) := Real.rpow_nonneg hd.le _
    have h1 : 1 ≤ 1 + a * d ^ (2 * b) := by nlinarith
    exact ⟨inv_pos.2 (by linarith), inv_le_one_of_one_le₀ h1⟩
  · rw [wl_zero a b d (not_lt.1 hd)]
    exact ⟨one_pos, le_refl _⟩

/-- **(b), generic kernel.**  With the Euclidean output metric (`grad = (x - y)/d`) and without
    the `1e-6` guard (`eps6 = 0`) the coded attractive coefficient times the gradient of the
    distance is the property's closed form `-2ab d^(2b-2) / (1 + a d^(2b)) · (x - y)`. -/
theorem gen_attract_coeff_eq (a b d x y : ℝ) (ha : 0 ≤ a) (hd : 0 < d) :
    ((2 : ℕ) : ℝ) * b * (wl realT a b d - 1) / (d + 0) * ((x - y) / d)
      = (-2 * a * b * d ^ (2 * b - 2)) / (1 + a * d ^ (2 * b)) * (x - y) := by
  rw [wl_eq a b d hd]
  have h0 : 0 ≤ d ^ (2 * b) := Real.rpow_nonneg hd.le _
  have h1 : 0 < 1 + a * d ^ (2 * b) := by nlinarith
  have e : d ^ (2 * b - 2) = d ^ (2 * b) / d ^ (2 : ℕ) := by
    rw [Real.rpow_sub hd, Real.rpow_two]
  rw [e]
  have hd' : d ≠ 0 := ne_of_gt hd
  push_cast
  field_simp
  ring

/-- **(c), generic kernel.**  Likewise the repulsive coefficient: `2γb / (d² (1 + a d^(2b))) · (x - y)`.
    Unlike the Euclidean kernel (`repulse_coeff_eq`) there is **no** `0.001` regulariser in the
    denominator: the only guard is the `1e-6` added to `d` (here `eps6 = 0`). -/
theorem gen_repulse_coeff_eq (a b gamma d x y : ℝ) (ha : 0 ≤ a) (hd : 0 < d) :
    gamma * ((2 : ℕ) : ℝ) * b * wl realT a b d / (d + 0) * ((x - y) / d)
      = (2 * gamma * b) / (d ^ (2 : ℕ) * (1 + a * d ^ (2 * b))) * (x - y) := by
  rw [wl_eq a b d hd]
  have h0 : 0 ≤ d ^ (2 * b) := Real.rpow_nonneg hd.le _
  have h1 : 0 < 1 + a * d ^ (2 * b) := by nlinarith
  have hd' : d ≠ 0 := ne_of_gt hd
  push_cast
  field_simp
  ring

/-- with the guard `eps6 ≥ 0` kept, both coded coefficients are the closed forms scaled by the
    factor `d / (d + eps6) ∈ (0, 1]`. -/
theorem gen_attract_coeff_guard (a b d e x y : ℝ) (ha : 0 ≤ a) (hd : 0 < d) (he : 0 ≤ e) :
    ((2 : ℕ) : ℝ) * b * (wl realT a b d - 1) / (d + e) * ((x - y) / d)
      = (-2 * a * b * d ^ (2 * b - 2)) / (1 + a * d ^ (2 * b)) * (x - y) * (d / (d + e)) := by
  rw [← gen_attract_coeff_eq a b d x y ha hd, add_zero]
  have hd' : d ≠ 0 := ne_of_gt hd
  have hde : d + e ≠ 0 := by positivity
  field_simp

theorem gen_repulse_coeff_guard (a b gamma d e x y : ℝ) (ha : 0 ≤ a) (hd : 0 < d) (he : 0 ≤ e) :
    gamma * ((2 : ℕ) : ℝ) * b * wl realT a b d / (d + e) * ((x - y) / d)
      = (2 * gamma * b) / (d ^ (2 : ℕ) * (1 + a * d ^ (2 * b))) * (x - y) * (d / (d + e)) := by
  rw [← gen_repulse_coeff_eq a b gamma d x y ha hd, add_zero]
  have hd' : d ≠ 0 := ne_of_gt hd
  have hde : d + e ≠ 0 := by positivity
  field_simp

theorem guard_factor_range (d e : ℝ) (hd : 0 < d) (he : 0 ≤ e) :
    0 < d / (d + e) ∧ d / (d + e) ≤ 1 := by
  have hde : 0 < d + e := by positivity
  exact ⟨div_pos hd hde, by rw [div_le_one hde]; linarith⟩

-- non-vacuity: `a = 1, b = 1, d = 2`: `w_l = 1/5`
example : wl realT 1 1 2 = 1 / 5 := by
  rw [wl_eq 1 1 2 (by norm_num)]
  norm_num

/-! ### parametric UMAP: edge replication -/

/-- `int(x)` over ℝ for `x ≥ 0` is the natural floor. -/
theorem trunc_toNat_of_nonneg (x : ℝ) (hx : 0 ≤ x) : (realT.trunc x).toNat = ⌊x⌋₊ := by
  simp only [realT, if_pos hx]
  rfl

/-- each entry of `parametricRepeats`: `0` for a weight below `w_max / N` (pruned), otherwise
    `int(N · w)`. -/
theorem parametric_repeats_spec (ws : List ℝ) (N : ℕ) :
    parametricRepeats realT ws N
      = ws.map (fun w => if w < maxL (ws.headD 0) ws / (N : ℝ) then 0
          else (realT.trunc ((N : ℝ) * w)).toNat) := by
  unfold parametricRepeats
  dsimp only
  apply List.map_congr_left
  intro w _
  split_ifs with h
  · simp [realT]
  · rfl

/-- entrywise form, with the natural floor for non-negative weights. -/
theorem parametric_repeats_get (ws : List ℝ) (N : ℕ) (i : ℕ) (hi : i < ws.length)
    (hw : 0 ≤ ws[i]) :
    (parametricRepeats realT ws N)[i]'(by simpa [parametricRepeats] using hi)
      = if ws[i] < maxL (ws.headD 0) ws / (N : ℝ) then 0 else ⌊(N : ℝ) * ws[i]⌋₊ := by
  simp only [parametric_repeats_spec, List.getElem_map]
  split_ifs with h
  · rfl
  · exact trunc_toNat_of_nonneg _ (mul_nonneg (Nat.cast_nonneg _) hw)

/-- a kept edge of non-negative weight `w` is repeated `N·w` times up to rounding: it is used in
    proportion to its membership strength. -/
theorem parametric_repeats_close (ws : List ℝ) (N : ℕ) (i : ℕ) (hi : i < ws.length)
    (hw : 0 ≤ ws[i]) (hk : ¬ ws[i] < maxL (ws.headD 0) ws / (N : ℝ)) :
    |(((parametricRepeats realT ws N)[i]'(by simpa [parametricRepeats] using hi) : ℕ) : ℝ)
        - (N : ℝ) * ws[i]| < 1 := by
  rw [parametric_repeats_get ws N i hi hw, if_neg hk]
  have hx : 0 ≤ (N : ℝ) * ws[i] := mul_nonneg (Nat.cast_nonneg _) hw
  have h1 := Nat.floor_le hx
  have h2 := Nat.lt_floor_add_one ((N : ℝ) * ws[i])
  rw [abs_lt]
  constructor <;> linarith

/-- when the strongest edge has weight at least 1 (the UMAP graph: every point's nearest
    neighbour has membership 1) every kept edge is repeated at least once. -/
theorem parametric_kept_pos (ws : List ℝ) (N : ℕ) (hN : 0 < N) (i : ℕ) (hi : i < ws.length)
    (hmax : 1 ≤ maxL (ws.headD 0) ws) (hk : ¬ ws[i] < maxL (ws.headD 0) ws / (N : ℝ)) :
    1 ≤ (parametricRepeats realT ws N)[i]'(by simpa [parametricRepeats] using hi) := by
  have hN' : (0 : ℝ) < N := by exact_mod_cast hN
  rw [not_lt, div_le_iff₀ hN'] at hk
  have h1 : 1 ≤ (N : ℝ) * ws[i] := by linarith
  have hw : 0 ≤ ws[i] := by
    by_contra hc
    push Not at hc
    nlinarith
  rw [parametric_repeats_get ws N i hi hw, if_neg (by rw [not_lt, div_le_iff₀ hN']; linarith)]
  exact Nat.le_floor (by simpa using h1)

-- non-vacuity: weights `1, 1/2, 1/100`, `N = 10`: the third edge is pruned (`1/100 < 1/10`)
example : parametricRepeats realT [1, 1 / 2, 1 / 100] 10 = [10, 5, 0] := by
  rw [parametric_repeats_spec]
  have hm : maxL (([1, 1 / 2, 1 / 100] : List ℝ).headD 0) [1, 1 / 2, 1 / 100] = 1 := by
    norm_num [maxL]
  rw [hm]
  have t1 : (realT.trunc (((10 : ℕ) : ℝ) * 1)).toNat = 10 := by
    rw [trunc_toNat_of_nonneg _ (by norm_num), Nat.floor_eq_iff (by norm_num)]; norm_num
  have t2 : (realT.trunc (((10 : ℕ) : ℝ) * (1 / 2))).toNat = 5 := by
    rw [trunc_toNat_of_nonneg _ (by norm_num), Nat.floor_eq_iff (by norm_num)]; norm_num
  simp only [List.map_cons, List.map_nil, t1, t2]
  norm_num

/-! ### (C17) the density term at most doubles the per-write bound -/

section Dens
variable {K : Type} [Field K] [LinearOrder K] [IsStrictOrderedRing K]

theorem clip_sum_abs (u v : K) : |clip u + clip v| ≤ 8 := by
  have h := abs_add_le (clip u) (clip v)
  have h1 := clip_abs u
  have h2 := clip_abs v
  linarith

/-- **C17.** With the density term on, the gradient used by an attractive write is
    `clip(gc · Δ) + clip(2 · cor · Δ)` (each term clipped separately), so one write moves a
    coordinate by at most `8 α` (twice the plain-UMAP bound `move_le_four_alpha`). -/
theorem dens_term_bounded (cur oth gc c alpha : K) (ha : 0 ≤ alpha) :
    |(cur + (clip (gc * (cur - oth)) + clip (((2 : Nat) : K) * c * (cur - oth))) * alpha) - cur|
      ≤ 8 * alpha := by
  have : cur + (clip (gc * (cur - oth)) + clip (((2 : Nat) : K) * c * (cur - oth))) * alpha - cur
      = (clip (gc * (cur - oth)) + clip (((2 : Nat) : K) * c * (cur - oth))) * alpha := by ring
  rw [this, abs_mul, abs_of_nonneg ha]
  exact mul_le_mul_of_nonneg_right (clip_sum_abs _ _) ha

/-- the bound `8 α` is attained (so `4 α` would be false with the density term on). -/
example : |((0 : ℚ) + (clip (5 * (1 - 0)) + clip (((2 : Nat) : ℚ) * 3 * (1 - 0))) * 1) - 0| = 8 := by
  decide +kernel

end Dens

/-! ### the clocks of the model are the isolated clocks -/

theorem getElem!_set!_self {β : Type} [Inhabited β] (a : Array β) (i : Nat) (x : β)
    (h : i < a.size) : (a.set! i x)[i]! = x := by
  rw [getElem!_def, Array.set!_eq_setIfInBounds, Array.getElem?_setIfInBounds]
  simp [h]

theorem getElem!_set!_ne {β : Type} [Inhabited β] (a : Array β) (i j : Nat) (x : β)
    (h : i ≠ j) : (a.set! i x)[j]! = a[j]! := by
  rw [getElem!_def, getElem!_def, Array.set!_eq_setIfInBounds, Array.getElem?_setIfInBounds,
    if_neg h]

theorem size_set! {β : Type} (a : Array β) (i : Nat) (x : β) : (a.set! i x).size = a.size := by
  rw [Array.set!_eq_setIfInBounds, Array.size_setIfInBounds]

/-- a fold over `range N` seen through a projection that only the step at `i` changes. -/
theorem foldl_range_single {σ γ : Type} (π : σ → γ) (Q : γ → Prop) (f : σ → Nat → σ) (g : γ → γ)
    (i N : Nat) (hi : i < N) (hne : ∀ t x, x ≠ i → π (f t x) = π t)
    (heq : ∀ t, Q (π t) → π (f t i) = g (π t)) (s : σ) (hs : Q (π s)) :
    π ((List.range N).foldl f s) = g (π s) := by
  induction N with
  | zero => omega
  | succ N ih =>
    rw [List.range_succ, List.foldl_append]
    simp only [List.foldl_cons, List.foldl_nil]
    by_cases hN : i = N
    · subst hN
      have hp : π ((List.range i).foldl f s) = π s :=
        foldl_proj_mem π f _ (fun t x hx => hne t x (by have := List.mem_range.1 hx; omega)) s
      rw [heq _ (by rw [hp]; exact hs), hp]
    · rw [hne _ N (fun h => hN h.symm)]
      exact ih (by omega)

section ModelClocks
variable {α : Type} [Add α] [Sub α] [Mul α] [Div α] [Neg α] [LT α] [LE α]
  [DecidableLT α] [DecidableLE α] [OfNat α 0] [OfNat α 1] [NatCast α] [Inhabited α]

/-- the clock arrays of a state. -/
def clk (s : State α) : Array α × Array α := (s.eons, s.eonns)

theorem setTail_clk (P : Params α) (s : State α) (k d : Nat) (x : α) :
    clk (setTail P s k d x) = clk s := by
  unfold setTail; split_ifs <;> rfl

theorem attractMove_clk (rnd : α → α) (P : Params α) (alpha gc : α) (cor : Option α)
    (j k : Nat) (s : State α) : clk (attractMove rnd P alpha gc cor j k s) = clk s := by
  unfold attractMove
  apply foldl_proj_mem clk
  intro t d _
  dsimp only
  split_ifs
  · rw [setTail_clk]; rfl
  · rfl

theorem foldl_setHead_clk (g : State α → Nat → α) (j : Nat) (l : List Nat) (s : State α) :
    clk (l.foldl (fun t d => setHead t j d (g t d)) s) = clk s :=
  foldl_proj_mem clk (fun t d => setHead t j d (g t d)) l (fun _ _ _ => rfl) s

theorem negSample_clk (T : Transc α) (rnd : α → α) (P : Params α) (alpha : α) (j : Nat)
    (s : State α) : clk (negSample T rnd P alpha j s) = clk s := by
  unfold negSample
  dsimp only
  split_ifs <;> first
    | rfl
    | exact foldl_setHead_clk _ _ _ _

/-- the clock arrays after `edgeStep`: exactly the two clock lines, nothing else touches them. -/
theorem edgeStep_clk (T : Transc α) (rnd : α → α) (P : Params α) (hd tl : Array Nat)
    (eps epns : Array α) (alpha : α) (n : Nat) (cor : Option (Nat → α → α)) (s : State α) (i : Nat) :
    clk (edgeStep T rnd P hd tl eps epns alpha n cor s i)
      = if s.eons[i]! ≤ (n : α) then
          (s.eons.set! i (s.eons[i]! + eps[i]!),
           s.eonns.set! i (negClockStep T epns[i]! (s.eonns[i]!, 0) n).1)
        else clk s := by
  unfold edgeStep
  split_ifs with h
  · dsimp only
    simp only [clk]
    have e1 : ∀ (l : List Nat) (t : State α),
        clk (l.foldl (fun s _ => negSample T rnd P alpha hd[i]! s) t) = clk t := fun l t =>
      foldl_proj_mem clk _ l (fun t _ _ => negSample_clk T rnd P alpha _ t) t
    have hA := attractMove_clk rnd P alpha (attractCoeff T P.a P.b (rdist rnd s.head[hd[i]!]! (tailRow P s tl[i]!) P.dim))
      (Option.map (fun f => f i (rdist rnd s.head[hd[i]!]! (tailRow P s tl[i]!) P.dim)) cor) hd[i]! tl[i]! s
    generalize attractMove rnd P alpha _ _ hd[i]! tl[i]! s = A at hA ⊢
    simp only [clk, Prod.mk.injEq] at hA
    obtain ⟨hA1, hA2⟩ := hA
    have hC := e1 (List.range (T.trunc ((↑n - A.eonns[i]!) / epns[i]!)).toNat)
      { head := A.head, tail := A.tail, eons := A.eons.set! i (A.eons[i]! + eps[i]!),
        eonns := A.eonns, rng := A.rng }
    generalize List.foldl (fun s x => negSample T rnd P alpha hd[i]! s) _ _ = C at hC ⊢
    simp only [clk, Prod.mk.injEq] at hC
    obtain ⟨hC1, hC2⟩ := hC
    rw [hC1, hC2, hA1, hA2]
    rfl
  · rfl

/-- clock `i` of a state together with the array sizes (kept to know `i` stays in bounds). -/
def clkAt (i : Nat) (s : State α) : α × α × Nat × Nat :=
  (s.eons[i]!, s.eonns[i]!, s.eons.size, s.eonns.size)

theorem edgeStep_clkAt_ne (T : Transc α) (rnd : α → α) (P : Params α) (hd tl : Array Nat)
    (eps epns : Array α) (alpha : α) (n : Nat) (cor : Option (Nat → α → α)) (s : State α)
    (i x : Nat) (hx : x ≠ i) :
    clkAt i (edgeStep T rnd P hd tl eps epns alpha n cor s x) = clkAt i s := by
  have h := edgeStep_clk T rnd P hd tl eps epns alpha n cor s x
  simp only [clk] at h
  split_ifs at h with hv
  · simp only [Prod.mk.injEq] at h
    simp only [clkAt, h.1, h.2, getElem!_set!_ne _ _ _ _ hx, size_set!]
  · simp only [Prod.mk.injEq] at h
    simp only [clkAt, h.1, h.2]

theorem edgeStep_clkAt_self (T : Transc α) (rnd : α → α) (P : Params α) (hd tl : Array Nat)
    (eps epns : Array α) (alpha : α) (n : Nat) (cor : Option (Nat → α → α)) (s : State α)
    (i : Nat) (h1 : i < s.eons.size) (h2 : i < s.eonns.size) (c d : Nat) :
    clkAt i (edgeStep T rnd P hd tl eps epns alpha n cor s i)
      = ((clocksStep T eps[i]! epns[i]! ⟨s.eons[i]!, s.eonns[i]!, c, d⟩ n).eons,
         (clocksStep T eps[i]! epns[i]! ⟨s.eons[i]!, s.eonns[i]!, c, d⟩ n).eonns,
         s.eons.size, s.eonns.size) := by
  have h := edgeStep_clk T rnd P hd tl eps epns alpha n cor s i
  simp only [clk] at h
  unfold clocksStep
  split_ifs at h ⊢ with hv
  · simp only [Prod.mk.injEq] at h
    simp only [clkAt, h.1, h.2, getElem!_set!_self _ _ _ h1, getElem!_set!_self _ _ _ h2, size_set!]
    rfl
  · simp only [Prod.mk.injEq] at h
    simp only [clkAt, h.1, h.2]

/--
  **the clocks of the model are the isolated clocks.**  In one `epoch` the pair
  `(eons[i], eonns[i])` of an edge `i` moves exactly by `clocksStep` (for any bookkeeping values
  `c d` of the visit / draw counters, which are not part of the optimiser's state), and the clock
  arrays keep their sizes.
-/
theorem epoch_clock (T : Transc α) (rnd : α → α) (P : Params α) (hd tl : Array Nat)
    (eps epns : Array α) (alpha : α) (n : Nat) (cor : Option (Nat → α → α)) (s : State α)
    (i : Nat) (hi : i < eps.size) (h1 : i < s.eons.size) (h2 : i < s.eonns.size) (c d : Nat) :
    clkAt i (epoch T rnd P hd tl eps epns alpha n cor s)
      = ((clocksStep T eps[i]! epns[i]! ⟨s.eons[i]!, s.eonns[i]!, c, d⟩ n).eons,
         (clocksStep T eps[i]! epns[i]! ⟨s.eons[i]!, s.eonns[i]!, c, d⟩ n).eonns,
         s.eons.size, s.eonns.size) := by
  unfold epoch
  have := foldl_range_single (clkAt i) (fun p => i < p.2.2.1 ∧ i < p.2.2.2)
    (edgeStep T rnd P hd tl eps epns alpha n cor)
    (fun p => ((clocksStep T eps[i]! epns[i]! ⟨p.1, p.2.1, c, d⟩ n).eons,
         (clocksStep T eps[i]! epns[i]! ⟨p.1, p.2.1, c, d⟩ n).eonns, p.2.2.1, p.2.2.2))
    i eps.size hi
    (fun t x hx => edgeStep_clkAt_ne T rnd P hd tl eps epns alpha n cor t i x hx)
    (fun t ht => edgeStep_clkAt_self T rnd P hd tl eps epns alpha n cor t i ht.1 ht.2 c d)
    s ⟨h1, h2⟩
  exact this

/-- any epoch loop (any learning-rate schedule `al`, any density-term switch `cr`). -/
theorem run_clock_gen (T : Transc α) (rnd : α → α) (P : Params α) (hd tl : Array Nat)
    (eps epns : Array α) (al : Nat → α) (cr : Nat → State α → Option (Nat → α → α)) (N : Nat)
    (s : State α) (i : Nat) (hi : i < eps.size) (h1 : i < s.eons.size) (h2 : i < s.eonns.size) :
    clkAt i ((List.range N).foldl (fun s n => epoch T rnd P hd tl eps epns (al n) n (cr n s) s) s)
      = (((List.range N).foldl (clocksStep T eps[i]! epns[i]!) ⟨s.eons[i]!, s.eonns[i]!, 0, 0⟩).eons,
         ((List.range N).foldl (clocksStep T eps[i]! epns[i]!) ⟨s.eons[i]!, s.eonns[i]!, 0, 0⟩).eonns,
         s.eons.size, s.eonns.size) := by
  induction N with
  | zero => rfl
  | succ N ih =>
    simp only [List.range_succ, List.foldl_append, List.foldl_cons, List.foldl_nil]
    set t := List.foldl (fun s n => epoch T rnd P hd tl eps epns (al n) n (cr n s) s)
      s (List.range N) with ht
    set k := (List.range N).foldl (clocksStep T eps[i]! epns[i]!) ⟨s.eons[i]!, s.eonns[i]!, 0, 0⟩
      with hk
    simp only [clkAt, Prod.mk.injEq] at ih
    obtain ⟨e1, e2, e3, e4⟩ := ih
    rw [epoch_clock T rnd P hd tl eps epns (al N) N (cr N t) t i hi (by omega) (by omega)
      k.visits k.drawn, e1, e2, e3, e4]

/-- **the whole run**: started, as `optimize_layout_euclidean` does, with `eons = eps` and
    `eonns = epns`, clock `i` of `runEpochs` is `runClocks` — so `clock_inv`, `visits_proportional`,
    `neg_clock_inv`, `negatives_proportional` are statements about the optimiser's state. -/
theorem run_clock (T : Transc α) (rnd : α → α) (P : Params α) (hd tl : Array Nat)
    (eps epns : Array α) (alpha0 : α) (N : Nat) (s : State α)
    (i : Nat) (hi : i < eps.size) (h1 : i < s.eons.size) (h2 : i < s.eonns.size)
    (he : s.eons[i]! = eps[i]!) (hn : s.eonns[i]! = epns[i]!) :
    (runEpochs T rnd P hd tl eps epns alpha0 N s).eons[i]! = (runClocks T eps[i]! epns[i]! N).eons
    ∧ (runEpochs T rnd P hd tl eps epns alpha0 N s).eonns[i]!
        = (runClocks T eps[i]! epns[i]! N).eonns := by
  have h := run_clock_gen T rnd P hd tl eps epns (alphaAt alpha0 N) (fun _ _ => none) N s i hi h1 h2
  simp only [clkAt, Prod.mk.injEq, he, hn] at h
  exact ⟨h.1, h.2.1⟩

theorem run_clock_dens (T : Transc α) (rnd : α → α) (P : Params α) (hd tl : Array Nat)
    (eps epns : Array α) (alpha0 : α) (N : Nat) (densmap : Bool) (lambda frac : α)
    (corf : Nat → State α → Nat → α → α) (s : State α)
    (i : Nat) (hi : i < eps.size) (h1 : i < s.eons.size) (h2 : i < s.eonns.size)
    (he : s.eons[i]! = eps[i]!) (hn : s.eonns[i]! = epns[i]!) :
    (runEpochsDens T rnd P hd tl eps epns alpha0 N densmap lambda frac corf s).eons[i]!
        = (runClocks T eps[i]! epns[i]! N).eons
    ∧ (runEpochsDens T rnd P hd tl eps epns alpha0 N densmap lambda frac corf s).eonns[i]!
        = (runClocks T eps[i]! epns[i]! N).eonns := by
  have h := run_clock_gen T rnd P hd tl eps epns (alphaAt alpha0 N)
    (fun n s => if densmapFlag densmap lambda frac n N then some (corf n s) else none) N s i hi h1 h2
  simp only [clkAt, Prod.mk.injEq, he, hn] at h
  exact ⟨h.1, h.2.1⟩

end ModelClocks

/-! ### the same for the generic kernel -/

section GenClocks
variable {α : Type} [Add α] [Sub α] [Mul α] [Div α] [Neg α] [LT α] [LE α]
  [DecidableLT α] [DecidableLE α] [OfNat α 0] [OfNat α 1] [NatCast α] [Inhabited α]

theorem genAttractMove_clk (T : Transc α) (rnd : α → α) (P : Params α) (eps6 alpha : α)
    (metric : Array α → Array α → α × Array α) (j k : Nat) (s : State α) :
    clk (genAttractMove T rnd P eps6 alpha metric j k s) = clk s := by
  unfold genAttractMove
  apply foldl_proj_mem clk
  intro t d _
  dsimp only
  split_ifs
  · rw [setTail_clk]; rfl
  · rfl

theorem genNegSample_clk (T : Transc α) (rnd : α → α) (P : Params α) (eps6 alpha : α)
    (metric : Array α → Array α → α × Array α) (j : Nat) (s : State α) :
    clk (genNegSample T rnd P eps6 alpha metric j s) = clk s := by
  unfold genNegSample
  dsimp only
  split_ifs <;> first
    | rfl
    | exact foldl_setHead_clk _ _ _ _

theorem genEdgeStep_clk (T : Transc α) (rnd : α → α) (P : Params α) (eps6 : α)
    (metric : Array α → Array α → α × Array α) (hd tl : Array Nat)
    (eps epns : Array α) (alpha : α) (n : Nat) (s : State α) (i : Nat) :
    clk (genEdgeStep T rnd P eps6 metric hd tl eps epns alpha n s i)
      = if s.eons[i]! ≤ (n : α) then
          (s.eons.set! i (s.eons[i]! + eps[i]!),
           s.eonns.set! i (negClockStep T epns[i]! (s.eonns[i]!, 0) n).1)
        else clk s := by
  unfold genEdgeStep
  split_ifs with h
  · dsimp only
    simp only [clk]
    have e1 : ∀ (l : List Nat) (t : State α),
        clk (l.foldl (fun s _ => genNegSample T rnd P eps6 alpha metric hd[i]! s) t) = clk t :=
      fun l t => foldl_proj_mem clk _ l
        (fun t _ _ => genNegSample_clk T rnd P eps6 alpha metric _ t) t
    have hA := genAttractMove_clk T rnd P eps6 alpha metric hd[i]! tl[i]! s
    generalize genAttractMove T rnd P eps6 alpha metric hd[i]! tl[i]! s = A at hA ⊢
    simp only [clk, Prod.mk.injEq] at hA
    obtain ⟨hA1, hA2⟩ := hA
    have hC := e1 (List.range (T.trunc ((↑n - A.eonns[i]!) / epns[i]!)).toNat)
      { head := A.head, tail := A.tail, eons := A.eons.set! i (A.eons[i]! + eps[i]!),
        eonns := A.eonns, rng := A.rng }
    generalize List.foldl (fun s x => genNegSample T rnd P eps6 alpha metric hd[i]! s) _ _ = C
      at hC ⊢
    simp only [clk, Prod.mk.injEq] at hC
    obtain ⟨hC1, hC2⟩ := hC
    rw [hC1, hC2, hA1, hA2]
    rfl
  · rfl

theorem genEdgeStep_clkAt_ne (T : Transc α) (rnd : α → α) (P : Params α) (eps6 : α)
    (metric : Array α → Array α → α × Array α) (hd tl : Array Nat)
    (eps epns : Array α) (alpha : α) (n : Nat) (s : State α)
    (i x : Nat) (hx : x ≠ i) :
    clkAt i (genEdgeStep T rnd P eps6 metric hd tl eps epns alpha n s x) = clkAt i s := by
  have h := genEdgeStep_clk T rnd P eps6 metric hd tl eps epns alpha n s x
  simp only [clk] at h
  split_ifs at h with hv
  · simp only [Prod.mk.injEq] at h
    simp only [clkAt, h.1, h.2, getElem!_set!_ne _ _ _ _ hx, size_set!]
  · simp only [Prod.mk.injEq] at h
    simp only [clkAt, h.1, h.2]

theorem genEdgeStep_clkAt_self (T : Transc α) (rnd : α → α) (P : Params α) (eps6 : α)
    (metric : Array α → Array α → α × Array α) (hd tl : Array Nat)
    (eps epns : Array α) (alpha : α) (n : Nat) (s : State α)
    (i : Nat) (h1 : i < s.eons.size) (h2 : i < s.eonns.size) (c d : Nat) :
    clkAt i (genEdgeStep T rnd P eps6 metric hd tl eps epns alpha n s i)
      = ((clocksStep T eps[i]! epns[i]! ⟨s.eons[i]!, s.eonns[i]!, c, d⟩ n).eons,
         (clocksStep T eps[i]! epns[i]! ⟨s.eons[i]!, s.eonns[i]!, c, d⟩ n).eonns,
         s.eons.size, s.eonns.size) := by
  have h := genEdgeStep_clk T rnd P eps6 metric hd tl eps epns alpha n s i
  simp only [clk] at h
  unfold clocksStep
  split_ifs at h ⊢ with hv
  · simp only [Prod.mk.injEq] at h
    simp only [clkAt, h.1, h.2, getElem!_set!_self _ _ _ h1, getElem!_set!_self _ _ _ h2, size_set!]
    rfl
  · simp only [Prod.mk.injEq] at h
    simp only [clkAt, h.1, h.2]

theorem gen_epoch_clock (T : Transc α) (rnd : α → α) (P : Params α) (eps6 : α)
    (metric : Array α → Array α → α × Array α) (hd tl : Array Nat)
    (eps epns : Array α) (alpha : α) (n : Nat) (s : State α)
    (i : Nat) (hi : i < eps.size) (h1 : i < s.eons.size) (h2 : i < s.eonns.size) (c d : Nat) :
    clkAt i (genEpoch T rnd P eps6 metric hd tl eps epns alpha n s)
      = ((clocksStep T eps[i]! epns[i]! ⟨s.eons[i]!, s.eonns[i]!, c, d⟩ n).eons,
         (clocksStep T eps[i]! epns[i]! ⟨s.eons[i]!, s.eonns[i]!, c, d⟩ n).eonns,
         s.eons.size, s.eonns.size) := by
  unfold genEpoch
  exact foldl_range_single (clkAt i) (fun p => i < p.2.2.1 ∧ i < p.2.2.2)
    (genEdgeStep T rnd P eps6 metric hd tl eps epns alpha n)
    (fun p => ((clocksStep T eps[i]! epns[i]! ⟨p.1, p.2.1, c, d⟩ n).eons,
         (clocksStep T eps[i]! epns[i]! ⟨p.1, p.2.1, c, d⟩ n).eonns, p.2.2.1, p.2.2.2))
    i eps.size hi
    (fun t x hx => genEdgeStep_clkAt_ne T rnd P eps6 metric hd tl eps epns alpha n t i x hx)
    (fun t ht => genEdgeStep_clkAt_self T rnd P eps6 metric hd tl eps epns alpha n t i ht.1 ht.2 c d)
    s ⟨h1, h2⟩

theorem gen_run_clock_gen (T : Transc α) (rnd : α → α) (P : Params α) (eps6 : α)
    (metric : Array α → Array α → α × Array α) (hd tl : Array Nat)
    (eps epns : Array α) (al : Nat → α) (N : Nat)
    (s : State α) (i : Nat) (hi : i < eps.size) (h1 : i < s.eons.size) (h2 : i < s.eonns.size) :
    clkAt i ((List.range N).foldl
        (fun s n => genEpoch T rnd P eps6 metric hd tl eps epns (al n) n s) s)
      = (((List.range N).foldl (clocksStep T eps[i]! epns[i]!) ⟨s.eons[i]!, s.eonns[i]!, 0, 0⟩).eons,
         ((List.range N).foldl (clocksStep T eps[i]! epns[i]!) ⟨s.eons[i]!, s.eonns[i]!, 0, 0⟩).eonns,
         s.eons.size, s.eonns.size) := by
  induction N with
  | zero => rfl
  | succ N ih =>
    simp only [List.range_succ, List.foldl_append, List.foldl_cons, List.foldl_nil]
    set t := List.foldl (fun s n => genEpoch T rnd P eps6 metric hd tl eps epns (al n) n s)
      s (List.range N) with ht
    set k := (List.range N).foldl (clocksStep T eps[i]! epns[i]!) ⟨s.eons[i]!, s.eonns[i]!, 0, 0⟩
      with hk
    simp only [clkAt, Prod.mk.injEq] at ih
    obtain ⟨e1, e2, e3, e4⟩ := ih
    rw [gen_epoch_clock T rnd P eps6 metric hd tl eps epns (al N) N t i hi (by omega) (by omega)
      k.visits k.drawn, e1, e2, e3, e4]

/-- the generic kernel runs the same two clocks. -/
theorem gen_run_clock (T : Transc α) (rnd : α → α) (P : Params α) (eps6 : α)
    (metric : Array α → Array α → α × Array α) (hd tl : Array Nat)
    (eps epns : Array α) (alpha0 : α) (N : Nat) (s : State α)
    (i : Nat) (hi : i < eps.size) (h1 : i < s.eons.size) (h2 : i < s.eonns.size)
    (he : s.eons[i]! = eps[i]!) (hn : s.eonns[i]! = epns[i]!) :
    (genRunEpochs T rnd P eps6 metric hd tl eps epns alpha0 N s).eons[i]!
        = (runClocks T eps[i]! epns[i]! N).eons
    ∧ (genRunEpochs T rnd P eps6 metric hd tl eps epns alpha0 N s).eonns[i]!
        = (runClocks T eps[i]! epns[i]! N).eonns := by
  have h := gen_run_clock_gen T rnd P eps6 metric hd tl eps epns (alphaAt alpha0 N) N s i hi h1 h2
  simp only [clkAt, Prod.mk.injEq, he, hn] at h
  exact ⟨h.1, h.2.1⟩

end GenClocks

/-- over ℝ, for an edge with period `eps[i] ≥ 1` and `epns[i] = eps[i] / rate`, `rate ≥ 1`:
    the optimiser's own clock entries after `N` epochs, in closed form. -/
theorem run_clock_real (rnd : ℝ → ℝ) (P : Params ℝ) (hd tl : Array Nat)
    (eps epns : Array ℝ) (alpha0 : ℝ) (N : Nat) (s : State ℝ) (rate : ℝ)
    (i : Nat) (hi : i < eps.size) (h1 : i < s.eons.size) (h2 : i < s.eonns.size)
    (he : s.eons[i]! = eps[i]!) (hn : s.eonns[i]! = epns[i]!)
    (hr : 1 ≤ rate) (hp : 1 ≤ eps[i]!) (hq : epns[i]! = eps[i]! / rate) :
    let s' := runEpochs realT rnd P hd tl eps epns alpha0 N s
    let k := runClocks realT eps[i]! (eps[i]! / rate) N
    s'.eons[i]! = ((k.visits : ℝ) + 1) * eps[i]!
      ∧ s'.eonns[i]! = ((k.drawn : ℝ) + 1) * (eps[i]! / rate)
      ∧ s'.eonns[i]! ≤ s'.eons[i]! ∧ (N : ℝ) - 1 < s'.eons[i]!
      ∧ rate * k.visits - 2 < k.drawn ∧ (k.drawn : ℝ) ≤ rate * k.visits + (rate - 1) := by
  intro s' k
  obtain ⟨r1, r2⟩ := run_clock realT rnd P hd tl eps epns alpha0 N s i hi h1 h2 he hn
  obtain ⟨i1, i2, i3, i4, i5, i6⟩ := clocks_inv eps[i]! rate hp hr N
  rw [hq] at r1 r2
  change s'.eons[i]! = k.eons at r1
  change s'.eonns[i]! = k.eonns at r2
  rw [r1, r2]
  exact ⟨i1, i3, i4, i2, i5, by
    change (k.drawn : ℝ) + 1 ≤ rate * (k.visits + 1) at i6; linarith⟩

/-! ### (C04 c) an isolated new point never perturbs another point -/

theorem modify_set!_comm {β : Type} (a : Array β) (j v : Nat) (f : β → β) (r : β) (h : j ≠ v) :
    (a.set! v r).modify j f = (a.modify j f).set! v r := by
  apply Array.ext_getElem?
  intro k
  simp only [Array.set!_eq_setIfInBounds, Array.getElem?_modify, Array.getElem?_setIfInBounds,
    Array.size_modify]
  by_cases h1 : j = k
  · subst h1
    simp [Ne.symm h]
  · simp [h1]

section NonInterf
variable {α : Type} [Add α] [Sub α] [Mul α] [Div α] [Neg α] [LT α] [LE α]
  [DecidableLT α] [DecidableLE α] [OfNat α 0] [OfNat α 1] [NatCast α] [Inhabited α]

/-- the state with head row `v` overwritten by `r` (any row: NaNs, garbage, …). -/
def withHeadRow (s : State α) (v : Nat) (r : Array α) : State α :=
  { s with head := s.head.set! v r }

theorem W_head_get (s : State α) (v : Nat) (r : Array α) (j : Nat) (hj : j ≠ v) :
    (withHeadRow s v r).head[j]! = s.head[j]! :=
  getElem!_set!_ne _ _ _ _ (Ne.symm hj)

theorem W_tailRow (P : Params α) (ha : P.aliased = false) (s : State α) (v : Nat) (r : Array α)
    (k : Nat) : tailRow P (withHeadRow s v r) k = tailRow P s k := by
  unfold tailRow
  simp only [ha, Bool.false_eq_true, if_false]
  rfl

theorem W_setHead (s : State α) (v : Nat) (r : Array α) (j d : Nat) (x : α) (hj : j ≠ v) :
    setHead (withHeadRow s v r) j d x = withHeadRow (setHead s j d x) v r := by
  unfold setHead withHeadRow
  simp only [modify_set!_comm _ _ _ _ _ hj]

theorem W_setTail (P : Params α) (ha : P.aliased = false) (s : State α) (v : Nat) (r : Array α)
    (k d : Nat) (x : α) :
    setTail P (withHeadRow s v r) k d x = withHeadRow (setTail P s k d x) v r := by
  unfold setTail
  simp only [ha, Bool.false_eq_true, if_false]
  rfl

theorem foldl_comm {σ β : Type} (W : σ → σ) (f : σ → β → σ) (h : ∀ t x, f (W t) x = W (f t x))
    (l : List β) (s : σ) : l.foldl f (W s) = W (l.foldl f s) := by
  induction l generalizing s with
  | nil => rfl
  | cons x l ih => simp only [List.foldl_cons]; rw [h, ih]

theorem attractMove_W (rnd : α → α) (P : Params α) (ha : P.aliased = false) (alpha gc : α)
    (cor : Option α) (j k v : Nat) (hj : j ≠ v) (r : Array α) (s : State α) :
    attractMove rnd P alpha gc cor j k (withHeadRow s v r)
      = withHeadRow (attractMove rnd P alpha gc cor j k s) v r := by
  unfold attractMove
  apply foldl_comm (fun t => withHeadRow t v r)
  intro t d
  dsimp only
  rw [W_head_get _ _ _ _ hj, W_tailRow P ha, W_setHead _ _ _ _ _ _ hj]
  split_ifs
  · rw [W_tailRow P ha, W_setTail P ha]
  · rfl

/-- `negSample` after the draw (`k` the drawn vertex, the state already carrying the new rng). -/
def negCore (T : Transc α) (rnd : α → α) (P : Params α) (alpha : α) (j k : Nat) (s : State α) :
    State α :=
  let d2 := rdist rnd s.head[j]! (tailRow P s k) P.dim
  if 0 < d2 then
    let gc := repulseCoeff T P.a P.b P.gamma d2
    (List.range P.dim).foldl (fun s d =>
      let cur := (s.head[j]!)[d]!
      let oth := (tailRow P s k)[d]!
      let g := if 0 < gc then clip (gc * (cur - oth)) else 0
      setHead s j d (rnd (cur + g * alpha))) s
  else s

theorem negSample_eq (T : Transc α) (rnd : α → α) (P : Params α) (alpha : α) (j : Nat)
    (s : State α) :
    negSample T rnd P alpha j s = negCore T rnd P alpha j (Rng.drawVertex s.rng[j]! P.nVertices).2
      { s with rng := s.rng.set! j (Rng.drawVertex s.rng[j]! P.nVertices).1 } := rfl

theorem negCore_W (T : Transc α) (rnd : α → α) (P : Params α) (ha : P.aliased = false)
    (alpha : α) (j k v : Nat) (hj : j ≠ v) (r : Array α) (s : State α) :
    negCore T rnd P alpha j k (withHeadRow s v r) = withHeadRow (negCore T rnd P alpha j k s) v r := by
  unfold negCore
  dsimp only
  rw [W_head_get _ _ _ _ hj, W_tailRow P ha]
  by_cases h : 0 < rdist rnd s.head[j]! (tailRow P s k) P.dim
  · rw [if_pos h, if_pos h]
    apply foldl_comm (fun t => withHeadRow t v r)
    intro t d
    rw [W_head_get _ _ _ _ hj, W_tailRow P ha, W_setHead _ _ _ _ _ _ hj]
  · rw [if_neg h, if_neg h]

theorem negSample_W (T : Transc α) (rnd : α → α) (P : Params α) (ha : P.aliased = false)
    (alpha : α) (j v : Nat) (hj : j ≠ v) (r : Array α) (s : State α) :
    negSample T rnd P alpha j (withHeadRow s v r)
      = withHeadRow (negSample T rnd P alpha j s) v r := by
  rw [negSample_eq, negSample_eq]
  exact negCore_W T rnd P ha alpha j _ v hj r
    { s with rng := s.rng.set! j (Rng.drawVertex s.rng[j]! P.nVertices).1 }

def bumpEons (eps : Array α) (i : Nat) (s : State α) : State α :=
  { s with eons := s.eons.set! i (s.eons[i]! + eps[i]!) }

def bumpEonns (T : Transc α) (epns : Array α) (i : Nat) (nNeg : Int) (s : State α) : State α :=
  { s with eonns := s.eonns.set! i (s.eonns[i]! + T.ofInt nNeg * epns[i]!) }

/-- the part of `edgeStep` after the attractive move. -/
def edgeRest (T : Transc α) (rnd : α → α) (P : Params α) (eps epns : Array α) (alpha : α)
    (n j i : Nat) (s : State α) : State α :=
  let nNeg := T.trunc (((n : α) - s.eonns[i]!) / epns[i]!)
  bumpEonns T epns i nNeg
    ((List.range nNeg.toNat).foldl (fun s _ => negSample T rnd P alpha j s) (bumpEons eps i s))

theorem edgeStep_eq (T : Transc α) (rnd : α → α) (P : Params α) (hd tl : Array Nat)
    (eps epns : Array α) (alpha : α) (n : Nat) (cor : Option (Nat → α → α)) (s : State α) (i : Nat) :
    edgeStep T rnd P hd tl eps epns alpha n cor s i
      = if s.eons[i]! ≤ (n : α) then
          edgeRest T rnd P eps epns alpha n hd[i]! i
            (attractMove rnd P alpha
              (attractCoeff T P.a P.b (rdist rnd s.head[hd[i]!]! (tailRow P s tl[i]!) P.dim))
              (cor.map (fun f => f i (rdist rnd s.head[hd[i]!]! (tailRow P s tl[i]!) P.dim)))
              hd[i]! tl[i]! s)
        else s := rfl

theorem edgeRest_W (T : Transc α) (rnd : α → α) (P : Params α) (ha : P.aliased = false)
    (eps epns : Array α) (alpha : α) (n j i v : Nat) (hj : j ≠ v) (r : Array α) (s : State α) :
    edgeRest T rnd P eps epns alpha n j i (withHeadRow s v r)
      = withHeadRow (edgeRest T rnd P eps epns alpha n j i s) v r := by
  unfold edgeRest
  have e0 : (withHeadRow s v r).eonns = s.eonns := rfl
  have e1 : bumpEons eps i (withHeadRow s v r) = withHeadRow (bumpEons eps i s) v r := rfl
  have e2 : ∀ (z : Int) (t : State α),
      bumpEonns T epns i z (withHeadRow t v r) = withHeadRow (bumpEonns T epns i z t) v r :=
    fun _ _ => rfl
  dsimp only
  rw [e0, e1, foldl_comm (fun t => withHeadRow t v r) _
    (fun t _ => negSample_W T rnd P ha alpha j v hj r t), e2]

theorem edgeStep_W (T : Transc α) (rnd : α → α) (P : Params α) (ha : P.aliased = false)
    (hd tl : Array Nat) (eps epns : Array α) (alpha : α) (n : Nat) (cor : Option (Nat → α → α))
    (i v : Nat) (hj : hd[i]! ≠ v) (r : Array α) (s : State α) :
    edgeStep T rnd P hd tl eps epns alpha n cor (withHeadRow s v r) i
      = withHeadRow (edgeStep T rnd P hd tl eps epns alpha n cor s i) v r := by
  rw [edgeStep_eq, edgeStep_eq, W_head_get _ _ _ _ hj, W_tailRow P ha,
    attractMove_W rnd P ha _ _ _ _ _ v hj, edgeRest_W T rnd P ha _ _ _ _ _ _ v hj]
  have e : (withHeadRow s v r).eons = s.eons := rfl
  rw [e]
  split_ifs <;> rfl

/--
  **C04(c), non-interference.**  With separate buffers (`aliased = false`, as in `transform`), if
  `v` is the head of no edge then overwriting head row `v` — with NaNs or anything else — commutes
  with an epoch: every other head row, the whole tail buffer, both clock arrays and all rng states
  evolve exactly as if row `v` had not been changed.  (The attractive moves read `head[hd[i]]` and
  the tail; negative samples read only the tail.)
-/
theorem head_row_irrelevant_epoch (T : Transc α) (rnd : α → α) (P : Params α)
    (ha : P.aliased = false) (hd tl : Array Nat) (eps epns : Array α) (alpha : α) (n : Nat)
    (cor : Option (Nat → α → α)) (v : Nat) (hh : ∀ i < eps.size, hd[i]! ≠ v) (r : Array α)
    (s : State α) :
    epoch T rnd P hd tl eps epns alpha n cor (withHeadRow s v r)
      = withHeadRow (epoch T rnd P hd tl eps epns alpha n cor s) v r := by
  unfold epoch
  have key : ∀ (l : List Nat), (∀ i ∈ l, i < eps.size) → ∀ t : State α,
      l.foldl (edgeStep T rnd P hd tl eps epns alpha n cor) (withHeadRow t v r)
        = withHeadRow (l.foldl (edgeStep T rnd P hd tl eps epns alpha n cor) t) v r := by
    intro l
    induction l with
    | nil => intro _ t; rfl
    | cons x l ih =>
      intro hl t
      simp only [List.foldl_cons]
      rw [edgeStep_W T rnd P ha hd tl eps epns alpha n cor x v
        (hh x (hl x List.mem_cons_self)) r t]
      exact ih (fun i hi => hl i (List.mem_cons_of_mem _ hi)) _
  exact key _ (fun i hi => List.mem_range.1 hi) s

/-- the whole optimisation (plain UMAP epoch loop). -/
theorem head_row_irrelevant (T : Transc α) (rnd : α → α) (P : Params α)
    (ha : P.aliased = false) (hd tl : Array Nat) (eps epns : Array α) (alpha0 : α) (N : Nat)
    (v : Nat) (hh : ∀ i < eps.size, hd[i]! ≠ v) (r : Array α) (s : State α) :
    runEpochs T rnd P hd tl eps epns alpha0 N (withHeadRow s v r)
      = withHeadRow (runEpochs T rnd P hd tl eps epns alpha0 N s) v r := by
  unfold runEpochs
  exact foldl_comm (fun t => withHeadRow t v r) _
    (fun t n => head_row_irrelevant_epoch T rnd P ha hd tl eps epns _ n none v hh r t) _ s

/-- in particular every other head row and the tail buffer do not depend on row `v` at all. -/
theorem other_rows_independent (T : Transc α) (rnd : α → α) (P : Params α)
    (ha : P.aliased = false) (hd tl : Array Nat) (eps epns : Array α) (alpha0 : α) (N : Nat)
    (v : Nat) (hh : ∀ i < eps.size, hd[i]! ≠ v) (r : Array α) (s : State α) (u : Nat) (hu : u ≠ v) :
    (runEpochs T rnd P hd tl eps epns alpha0 N (withHeadRow s v r)).head[u]!
        = (runEpochs T rnd P hd tl eps epns alpha0 N s).head[u]!
    ∧ (runEpochs T rnd P hd tl eps epns alpha0 N (withHeadRow s v r)).tail
        = (runEpochs T rnd P hd tl eps epns alpha0 N s).tail := by
  rw [head_row_irrelevant T rnd P ha hd tl eps epns alpha0 N v hh r s]
  exact ⟨W_head_get _ _ _ _ hu, rfl⟩

end NonInterf

/-! ### the per-write bounds on the model: one attractive move shifts a coordinate by ≤ 4α (8α) -/

theorem getElem!_modify_self {β : Type} [Inhabited β] (a : Array β) (j : Nat) (f : β → β)
    (h : j < a.size) : (a.modify j f)[j]! = f a[j]! := by
  rw [getElem!_def, getElem!_def, Array.getElem?_modify, if_pos rfl]
  simp [h]

/-- relational version of `foldl_range_single`. -/
theorem foldl_range_single_rel {σ γ : Type} (π : σ → γ) (Q : γ → Prop) (R : γ → γ → Prop)
    (f : σ → Nat → σ) (i N : Nat) (hi : i < N) (hne : ∀ t x, x ≠ i → π (f t x) = π t)
    (hstep : ∀ t, Q (π t) → R (π t) (π (f t i))) (s : σ) (hs : Q (π s)) :
    R (π s) (π ((List.range N).foldl f s)) := by
  induction N with
  | zero => omega
  | succ N ih =>
    rw [List.range_succ, List.foldl_append]
    simp only [List.foldl_cons, List.foldl_nil]
    by_cases hN : i = N
    · subst hN
      have hp : π ((List.range i).foldl f s) = π s :=
        foldl_proj_mem π f _ (fun t x hx => hne t x (by have := List.mem_range.1 hx; omega)) s
      have := hstep ((List.range i).foldl f s) (by rw [hp]; exact hs)
      rw [hp] at this
      exact this
    · rw [hne _ N (fun h => hN h.symm)]
      exact ih (by omega)

section CoordMove
variable {K : Type} [Field K] [LinearOrder K] [IsStrictOrderedRing K] [Inhabited K]

/-- coordinate `(j, d)` of the head buffer, with the two sizes that keep it in bounds. -/
def coordAt (j d : Nat) (s : State K) : K × Nat × Nat :=
  ((s.head[j]!)[d]!, s.head.size, (s.head[j]!).size)

theorem setHead_coordAt_ne (s : State K) (j d d' : Nat) (x : K) (h : d' ≠ d) :
    coordAt j d (setHead s j d' x) = coordAt j d s := by
  unfold coordAt setHead
  by_cases hj : j < s.head.size
  · simp only [getElem!_modify_self _ _ _ hj, getElem!_set!_ne _ _ _ _ h, size_set!,
      Array.size_modify]
  · have : s.head.modify j (fun row => row.set! d' x) = s.head := by
      apply Array.ext_getElem?
      intro k
      rw [Array.getElem?_modify]
      split_ifs with hk
      · subst hk
        rw [Array.getElem?_eq_none (by omega)]; rfl
      · rfl
    simp only [this]

theorem setHead_coordAt_self (s : State K) (j d : Nat) (x : K) (hj : j < s.head.size)
    (hd : d < (s.head[j]!).size) :
    coordAt j d (setHead s j d x) = (x, s.head.size, (s.head[j]!).size) := by
  unfold coordAt setHead
  simp only [getElem!_modify_self _ _ _ hj, getElem!_set!_self _ _ _ hd, size_set!,
    Array.size_modify]

/--
  **(d) / C17 on the model** (exact arithmetic, `move_other = False`): one attractive move changes
  coordinate `d < dim` of the head row `j` by at most `4 α` without the density term and by at most
  `8 α` with it.
-/
theorem attractMove_coord_le (P : Params K) (hm : P.moveOther = false) (alpha gc : K)
    (ha : 0 ≤ alpha) (cor : Option K) (j k d : Nat) (s : State K) (hd : d < P.dim)
    (hj : j < s.head.size) (hdj : d < (s.head[j]!).size) :
    |((attractMove id P alpha gc cor j k s).head[j]!)[d]! - (s.head[j]!)[d]!|
      ≤ (if cor.isSome then 8 else 4) * alpha := by
  unfold attractMove
  have := foldl_range_single_rel (coordAt j d) (fun p => j < p.2.1 ∧ d < p.2.2)
    (fun p q => |q.1 - p.1| ≤ (if cor.isSome then 8 else 4) * alpha)
    (fun s d =>
      let cur := (s.head[j]!)[d]!
      let oth := (tailRow P s k)[d]!
      let g0 := clip (gc * (cur - oth))
      let g := match cor with
        | none => g0
        | some c => g0 + clip (((2 : Nat) : K) * c * (cur - oth))
      let s := setHead s j d (id (cur + g * alpha))
      if P.moveOther then
        let oth' := (tailRow P s k)[d]!
        setTail P s k d (id (oth' + (-g) * alpha))
      else s) d P.dim hd ?_ ?_ s ⟨hj, hdj⟩
  · exact this
  · intro t x hx
    simp only [hm, Bool.false_eq_true, if_false]
    exact setHead_coordAt_ne t j d x _ hx
  · intro t ht
    simp only [hm, Bool.false_eq_true, if_false]
    rw [setHead_coordAt_self t j d _ ht.1 ht.2]
    simp only [coordAt, id]
    cases cor with
    | none =>
      simp only [Option.isSome_none, Bool.false_eq_true, if_false]
      exact move_le_four_alpha _ _ _ _ ha
    | some c =>
      simp only [Option.isSome_some, if_true]
      exact dens_term_bounded _ _ _ _ _ ha

end CoordMove

/-! ### non-interference for the generic kernel -/

section GenNonInterf
variable {α : Type} [Add α] [Sub α] [Mul α] [Div α] [Neg α] [LT α] [LE α]
  [DecidableLT α] [DecidableLE α] [OfNat α 0] [OfNat α 1] [NatCast α] [Inhabited α]

theorem genAttractMove_W (T : Transc α) (rnd : α → α) (P : Params α) (ha : P.aliased = false)
    (eps6 alpha : α) (metric : Array α → Array α → α × Array α) (j k v : Nat) (hj : j ≠ v)
    (r : Array α) (s : State α) :
    genAttractMove T rnd P eps6 alpha metric j k (withHeadRow s v r)
      = withHeadRow (genAttractMove T rnd P eps6 alpha metric j k s) v r := by
  unfold genAttractMove
  dsimp only
  rw [W_head_get _ _ _ _ hj, W_tailRow P ha]
  apply foldl_comm (fun t => withHeadRow t v r)
  intro t d
  rw [W_head_get _ _ _ _ hj, W_setHead _ _ _ _ _ _ hj]
  split_ifs
  · rw [W_tailRow P ha, W_setTail P ha]
  · rfl

/-- `genNegSample` after the draw. -/
def genNegCore (T : Transc α) (rnd : α → α) (P : Params α) (eps6 alpha : α)
    (metric : Array α → Array α → α × Array α) (j k : Nat) (s : State α) : State α :=
  let (d, g) := metric s.head[j]! (tailRow P s k)
  if ¬ (0 < d) ∧ j = k then s else
  let w := wl T P.a P.b d
  let gc := P.gamma * ((2 : Nat) : α) * P.b * w / (d + eps6)
  (List.range P.dim).foldl (fun s dd =>
    let c := (s.head[j]!)[dd]!
    setHead s j dd (rnd (c + clip (gc * g[dd]!) * alpha))) s

theorem genNegSample_eq (T : Transc α) (rnd : α → α) (P : Params α) (eps6 alpha : α)
    (metric : Array α → Array α → α × Array α) (j : Nat) (s : State α) :
    genNegSample T rnd P eps6 alpha metric j s
      = genNegCore T rnd P eps6 alpha metric j (Rng.drawVertex s.rng[j]! P.nVertices).2
          { s with rng := s.rng.set! j (Rng.drawVertex s.rng[j]! P.nVertices).1 } := rfl

theorem genNegCore_W (T : Transc α) (rnd : α → α) (P : Params α) (ha : P.aliased = false)
    (eps6 alpha : α) (metric : Array α → Array α → α × Array α) (j k v : Nat) (hj : j ≠ v)
    (r : Array α) (s : State α) :
    genNegCore T rnd P eps6 alpha metric j k (withHeadRow s v r)
      = withHeadRow (genNegCore T rnd P eps6 alpha metric j k s) v r := by
  unfold genNegCore
  dsimp only
  rw [W_head_get _ _ _ _ hj, W_tailRow P ha]
  by_cases h : ¬ (0 < (metric s.head[j]! (tailRow P s k)).1) ∧ j = k
  · rw [if_pos h, if_pos h]
  · rw [if_neg h, if_neg h]
    apply foldl_comm (fun t => withHeadRow t v r)
    intro t d
    rw [W_head_get _ _ _ _ hj, W_setHead _ _ _ _ _ _ hj]

theorem genNegSample_W (T : Transc α) (rnd : α → α) (P : Params α) (ha : P.aliased = false)
    (eps6 alpha : α) (metric : Array α → Array α → α × Array α) (j v : Nat) (hj : j ≠ v)
    (r : Array α) (s : State α) :
    genNegSample T rnd P eps6 alpha metric j (withHeadRow s v r)
      = withHeadRow (genNegSample T rnd P eps6 alpha metric j s) v r := by
  rw [genNegSample_eq, genNegSample_eq]
  exact genNegCore_W T rnd P ha eps6 alpha metric j _ v hj r
    { s with rng := s.rng.set! j (Rng.drawVertex s.rng[j]! P.nVertices).1 }

def genEdgeRest (T : Transc α) (rnd : α → α) (P : Params α) (eps6 : α)
    (metric : Array α → Array α → α × Array α) (eps epns : Array α) (alpha : α)
    (n j i : Nat) (s : State α) : State α :=
  let nNeg := T.trunc (((n : α) - s.eonns[i]!) / epns[i]!)
  bumpEonns T epns i nNeg
    ((List.range nNeg.toNat).foldl (fun s _ => genNegSample T rnd P eps6 alpha metric j s)
      (bumpEons eps i s))

theorem genEdgeStep_eq (T : Transc α) (rnd : α → α) (P : Params α) (eps6 : α)
    (metric : Array α → Array α → α × Array α) (hd tl : Array Nat)
    (eps epns : Array α) (alpha : α) (n : Nat) (s : State α) (i : Nat) :
    genEdgeStep T rnd P eps6 metric hd tl eps epns alpha n s i
      = if s.eons[i]! ≤ (n : α) then
          genEdgeRest T rnd P eps6 metric eps epns alpha n hd[i]! i
            (genAttractMove T rnd P eps6 alpha metric hd[i]! tl[i]! s)
        else s := rfl

theorem genEdgeRest_W (T : Transc α) (rnd : α → α) (P : Params α) (ha : P.aliased = false)
    (eps6 : α) (metric : Array α → Array α → α × Array α)
    (eps epns : Array α) (alpha : α) (n j i v : Nat) (hj : j ≠ v) (r : Array α) (s : State α) :
    genEdgeRest T rnd P eps6 metric eps epns alpha n j i (withHeadRow s v r)
      = withHeadRow (genEdgeRest T rnd P eps6 metric eps epns alpha n j i s) v r := by
  unfold genEdgeRest
  have e0 : (withHeadRow s v r).eonns = s.eonns := rfl
  have e1 : bumpEons eps i (withHeadRow s v r) = withHeadRow (bumpEons eps i s) v r := rfl
  have e2 : ∀ (z : Int) (t : State α),
      bumpEonns T epns i z (withHeadRow t v r) = withHeadRow (bumpEonns T epns i z t) v r :=
    fun _ _ => rfl
  dsimp only
  rw [e0, e1, foldl_comm (fun t => withHeadRow t v r) _
    (fun t _ => genNegSample_W T rnd P ha eps6 alpha metric j v hj r t), e2]

theorem genEdgeStep_W (T : Transc α) (rnd : α → α) (P : Params α) (ha : P.aliased = false)
    (eps6 : α) (metric : Array α → Array α → α × Array α)
    (hd tl : Array Nat) (eps epns : Array α) (alpha : α) (n : Nat)
    (i v : Nat) (hj : hd[i]! ≠ v) (r : Array α) (s : State α) :
    genEdgeStep T rnd P eps6 metric hd tl eps epns alpha n (withHeadRow s v r) i
      = withHeadRow (genEdgeStep T rnd P eps6 metric hd tl eps epns alpha n s i) v r := by
  rw [genEdgeStep_eq, genEdgeStep_eq,
    genAttractMove_W T rnd P ha _ _ _ _ _ v hj, genEdgeRest_W T rnd P ha _ _ _ _ _ _ _ _ v hj]
  have e : (withHeadRow s v r).eons = s.eons := rfl
  rw [e]
  split_ifs <;> rfl

theorem gen_head_row_irrelevant_epoch (T : Transc α) (rnd : α → α) (P : Params α)
    (ha : P.aliased = false) (eps6 : α) (metric : Array α → Array α → α × Array α)
    (hd tl : Array Nat) (eps epns : Array α) (alpha : α) (n : Nat)
    (v : Nat) (hh : ∀ i < eps.size, hd[i]! ≠ v) (r : Array α) (s : State α) :
    genEpoch T rnd P eps6 metric hd tl eps epns alpha n (withHeadRow s v r)
      = withHeadRow (genEpoch T rnd P eps6 metric hd tl eps epns alpha n s) v r := by
  unfold genEpoch
  have key : ∀ (l : List Nat), (∀ i ∈ l, i < eps.size) → ∀ t : State α,
      l.foldl (genEdgeStep T rnd P eps6 metric hd tl eps epns alpha n) (withHeadRow t v r)
        = withHeadRow (l.foldl (genEdgeStep T rnd P eps6 metric hd tl eps epns alpha n) t) v r := by
    intro l
    induction l with
    | nil => intro _ t; rfl
    | cons x l ih =>
      intro hl t
      simp only [List.foldl_cons]
      rw [genEdgeStep_W T rnd P ha eps6 metric hd tl eps epns alpha n x v
        (hh x (hl x List.mem_cons_self)) r t]
      exact ih (fun i hi => hl i (List.mem_cons_of_mem _ hi)) _
  exact key _ (fun i hi => List.mem_range.1 hi) s

/-- **C04(c), non-interference, generic kernel**: for any output metric whatsoever. -/
theorem gen_head_row_irrelevant (T : Transc α) (rnd : α → α) (P : Params α)
    (ha : P.aliased = false) (eps6 : α) (metric : Array α → Array α → α × Array α)
    (hd tl : Array Nat) (eps epns : Array α) (alpha0 : α) (N : Nat)
    (v : Nat) (hh : ∀ i < eps.size, hd[i]! ≠ v) (r : Array α) (s : State α) :
    genRunEpochs T rnd P eps6 metric hd tl eps epns alpha0 N (withHeadRow s v r)
      = withHeadRow (genRunEpochs T rnd P eps6 metric hd tl eps epns alpha0 N s) v r := by
  unfold genRunEpochs
  exact foldl_comm (fun t => withHeadRow t v r) _
    (fun t n => gen_head_row_irrelevant_epoch T rnd P ha eps6 metric hd tl eps epns _ n v hh r t) _ s

end GenNonInterf

/-! ### non-vacuity of the buffer theorems -/

/-- a toy `Transc ℚ` (only `pow`, `trunc`, `ofInt` are used by the SGD kernels). -/
def toyT : Transc ℚ where
  exp := id
  log := id
  sqrt := id
  pow := fun _ _ => 1
  sin := id
  cos := id
  asin := id
  acosh := id
  trunc := fun x => if 0 ≤ x then ⌊x⌋ else ⌈x⌉
  ofInt := fun z => (z : ℚ)

def toyP : Params ℚ := { a := 1, b := 1, gamma := 1, dim := 2, nVertices := 2,
                         moveOther := false, aliased := false }

/-- three new points (the third, `v = 2`, has no edge) against two reference points. -/
def toyS : State ℚ :=
  { head := #[#[0, 0], #[3, 0], #[7, 7]], tail := #[#[1, 0], #[0, 1]],
    eons := #[1, 1], eonns := #[1/5, 1/5], rng := #[(1, 2, 3), (4, 5, 6), (7, 8, 9)] }

-- the hypotheses of `head_untouched` / `head_row_irrelevant` hold for `v = 2`:
example : ∀ i < (#[(1 : ℚ), 1] : Array ℚ).size, (#[0, 1] : Array Nat)[i]! ≠ 2 := by decide
example : toyP.aliased = true ∧ toyP.moveOther = true →
    ∀ i < (#[(1 : ℚ), 1] : Array ℚ).size, (#[1, 0] : Array Nat)[i]! ≠ 2 := by decide

-- and the epoch is not the identity: row 0 moves, row 2 stays
example : (epoch toyT id toyP #[0, 1] #[1, 0] #[1, 1] #[1/5, 1/5] 1 1 none toyS).head[0]!
    ≠ toyS.head[0]! := by decide +kernel
example : (epoch toyT id toyP #[0, 1] #[1, 0] #[1, 1] #[1/5, 1/5] 1 1 none toyS).head[2]!
    = toyS.head[2]! := by decide +kernel

-- generic kernel, with a toy output metric (distance 1, gradient `x - y`)
def toyMetric (x y : Array ℚ) : ℚ × Array ℚ := (1, #[x[0]! - y[0]!, x[1]! - y[1]!])

example : (genEpoch toyT id toyP 0 toyMetric #[0, 1] #[1, 0] #[1, 1] #[1/5, 1/5] 1 1 toyS).head[0]!
    ≠ toyS.head[0]! := by decide +kernel
example : (genEpoch toyT id toyP 0 toyMetric #[0, 1] #[1, 0] #[1, 1] #[1/5, 1/5] 1 1 toyS).head[2]!
    = toyS.head[2]! := by decide +kernel
example : (genEpoch toyT id toyP 0 toyMetric #[0, 1] #[1, 0] #[1, 1] #[1/5, 1/5] 1 1 toyS).tail
    = toyS.tail := by decide +kernel

-- hypotheses of `run_clock` (edge 0) and of `attractMove_coord_le` (row 0, coordinate 1)
example : 0 < (#[(1 : ℚ), 1] : Array ℚ).size ∧ 0 < toyS.eons.size ∧ 0 < toyS.eonns.size
    ∧ toyS.eons[0]! = (#[(1 : ℚ), 1] : Array ℚ)[0]!
    ∧ toyS.eonns[0]! = (#[(1 / 5 : ℚ), 1 / 5] : Array ℚ)[0]! := by decide +kernel
example : toyP.moveOther = false ∧ 1 < toyP.dim ∧ 0 < toyS.head.size
    ∧ 1 < (toyS.head[0]!).size := by decide +kernel
-- the clocks do move: edge 0 is visited in epoch 1 and 4 negatives are drawn (⌊1/(1/5)⌋ - 1)
example : (epoch toyT id toyP #[0, 1] #[1, 0] #[1, 1] #[1/5, 1/5] 1 1 none toyS).eons[0]! = 2
    ∧ (epoch toyT id toyP #[0, 1] #[1, 0] #[1, 1] #[1/5, 1/5] 1 1 none toyS).eonns[0]! = 1 := by
  decide +kernel

end C07
end Umap
