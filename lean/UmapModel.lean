import UmapModel.Scalar
import UmapModel.Knn
import UmapModel.Graph
import UmapModel.Relations
import UmapModel.Api
import UmapModel.Rng
import UmapModel.Sgd
