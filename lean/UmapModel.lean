import UmapModel.Scalar
import UmapModel.Knn
import UmapModel.Graph
import UmapModel.Relations
import UmapModel.Api
