import UmapProofs.Basic
