import UmapProofs.Basic
import UmapProofs.GraphLemmas
import UmapProofs.GradLemmas
