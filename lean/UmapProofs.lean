import UmapProofs.Basic
import UmapProofs.GraphLemmas
import UmapProofs.GradLemmas
import UmapProofs.AssembleLemmas
