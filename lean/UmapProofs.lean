import UmapProofs.Basic
import UmapProofs.GraphLemmas
import UmapProofs.GradLemmas
import UmapProofs.AssembleLemmas
import UmapProofs.SrcLemmas
import UmapProofs.SrcLemmasD
import UmapProofs.SrcLemmasE
import UmapProofs.SparseSrcSpec
