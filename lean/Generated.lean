-- root of the Generated library (rewritten from the live /repo by harness/regen.py)
import Generated.Constants
import Generated.Registry
import Generated.KnnDecision
import Generated.Seeded
import Generated.DistSrc
import Generated.RunCommon
import Generated.DistSrcRun
import Generated.SparseSrc
import Generated.SparseSrcRun
import Generated.LayoutSrc
import Generated.LayoutSrcRun
import Generated.UmapSrc
import Generated.UmapSrcRun
import Generated.UtilsSrc
