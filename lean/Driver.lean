/-
  Driver — line protocol over the executable model (no Mathlib: links as `umapdrv`).

  One operation per input line, one output line per operation.  Tokens are separated by
  single spaces.  Floats cross the boundary as the decimal value of their IEEE-754 bit
  pattern (`Float.toBits` / `Float.ofBits`), so the transfer is exact; `inf` denotes +∞ where
  a distance may be infinite, and `-1` a skipped neighbour index.
  Unknown or malformed operations answer `bad-op` (never a default value).
-/
import UmapModel

open Umap

abbrev P := StateT (Array String × Nat) (Except String)

def tok : P String := do
  let (a, i) ← get
  if h : i < a.size then
    set (a, i + 1); pure a[i]
  else throw "eof"

def pNat : P Nat := do
  let t ← tok
  match t.toNat? with
  | some n => pure n
  | none => throw s!"nat:{t}"

def pInt : P Int := do
  let t ← tok
  match t.toInt? with
  | some n => pure n
  | none => throw s!"int:{t}"

def pFloat : P Float := do
  let n ← pNat
  pure (Float.ofBits n.toUInt64)

/-- float or `inf` -/
def pDist : P (Option Float) := do
  let t ← tok
  if t == "inf" then pure none else
  match t.toNat? with
  | some n => pure (some (Float.ofBits n.toUInt64))
  | none => throw s!"dist:{t}"

/-- nat or `-1` -/
def pIdx : P (Option Nat) := do
  let t ← tok
  if t == "-1" then pure none else
  match t.toNat? with
  | some n => pure (some n)
  | none => throw s!"idx:{t}"

def pMany {β} (n : Nat) (p : P β) : P (List β) := do
  let mut acc : Array β := #[]
  for _ in [0:n] do
    acc := acc.push (← p)
  pure acc.toList

def pMat {β} (r c : Nat) (p : P β) : P (List (List β)) := pMany r (pMany c p)

def fb (x : Float) : String := toString x.toBits.toNat

def fExt : Ext Float → String
  | .fin x => fb x
  | .inf => "inf"
  | .nan => "nan"

def pExt : P (Ext Float) := do
  let t ← tok
  if t == "inf" then pure .inf
  else if t == "nan" then pure .nan
  else match t.toNat? with
    | some n => pure (.fin (Float.ofBits n.toUInt64))
    | none => throw s!"ext:{t}"

def join (xs : List String) : String := " ".intercalate xs

def tol : Float := 1e-5
def minScale : Float := 1e-3

def fCoo (A : Graph.Coo Float) : String :=
  let srt := A.toArray.qsort (fun a b => a.1 < b.1 || (a.1 == b.1 && a.2.1 < b.2.1))
  join (toString srt.size :: srt.toList.map (fun t => s!"{t.1} {t.2.1} {fb t.2.2}"))

def pCoo : P (Graph.Coo Float) := do
  let n ← pNat
  pMany n (do let i ← pNat; let j ← pNat; let v ← pFloat; pure (i, j, v))

/-- smooth_knn_dist: `knn <target> <lcIdx> <lcFrac> <nIter> <nrows> <ncols> dists…`
    → per row `sigma rho`. -/
def opKnn : P String := do
  let target ← pFloat
  let lcIdx ← pNat
  let lcFrac ← pFloat
  let nIter ← pNat
  let r ← pNat; let c ← pNat
  let rows ← pMat r c pDist
  let out := Knn.smoothKnn floatT tol minScale target lcIdx lcFrac nIter rows
  pure (join (out.map (fun (s, rh) => s!"{fb s} {fExt rh}")))

/-- directed memberships: `members <bipartite 0/1> <nrows> <ncols> idx… dists… sigmas… rhos…`
    → `nan` or COO. -/
def opMembers : P String := do
  let bip ← pNat
  let r ← pNat; let c ← pNat
  let idx ← pMat r c pIdx
  let ds ← pMat r c pDist
  let sig ← pMany r pFloat
  let rho ← pMany r pExt
  let rows := (idx.zip (ds.zip (sig.zip rho))).zipIdx.map fun ((ix, d, s, rh), i) =>
    Knn.memberRow floatT (bip == 1) i s rh ix d
  match Graph.assemble rows with
  | none => pure "nan"
  | some A => pure (fCoo A)

/-- full graph stage from a kNN table:
    `graph <r> <target> <lcIdx> <lcFrac> <nrows> <ncols> idx… dists…` → `nan` or COO. -/
def opGraph : P String := do
  let r ← pFloat
  let target ← pFloat
  let lcIdx ← pNat
  let lcFrac ← pFloat
  let n ← pNat; let c ← pNat
  let idx ← pMat n c pIdx
  let ds ← pMat n c pDist
  match Graph.graphOfKnn floatT tol minScale target lcIdx lcFrac 64 r idx ds with
  | none => pure "nan"
  | some G => pure (fCoo G)

/-- the exact neighbour stage: `exactstage <hasThr 0/1> <thr> <k> <n> <n*n distances>` →
    `n*k` indices (`-1` = skipped) followed by `n*k` distances (`inf` = skipped). -/
def opExactStage : P String := do
  let hasThr ← pNat
  let thr ← pFloat
  let k ← pNat
  let n ← pNat
  let D ← pMat n n pFloat
  let (idx, ds) := KnnStage.exactStage (if hasThr == 1 then some thr else none) k D
  let fi := idx.flatten.map (fun o => match o with | some j => toString j | none => "-1")
  let fd := ds.flatten.map (fun o => match o with | some d => fb d | none => "inf")
  pure (join (fi ++ fd))

/-- the scheduling stage: `schedule <n> <m> <m weights>` → the periods of the kept edges. -/
def opSchedule : P String := do
  let n ← pNat
  let m ← pNat
  let ws ← pMany m pFloat
  pure (join ((Schedule.schedule n ws).map fb))

/-- `unique=True` on sparse rows: `uniquerows <nrows> { <len> (col val)* }` → for every row the index of the
    first row with the same key (`index[inverse[i]]` of `csr_unique`). -/
def opUniqueRows : P String := do
  let n ← pNat
  let rows ← pMany n (do
    let len ← pNat
    pMany len (do let c ← pNat; let v ← pFloat; pure (c, v)))
  let keys := rows.map (fun r => (SparseRow.key r).map (fun p => (p.1, p.2.toBits)))
  let rep := keys.map (fun k => keys.findIdx (fun k' => k' == k))
  pure (join (rep.map toString))

/-- `truncatek <n> <k>` → effective number of neighbours. -/
def opTruncateK : P String := do
  let n ← pNat; let k ← pNat
  pure (toString (Pipeline.truncateK n k))

/-- `expansion <maxCoord> <maxAbs>` → the `noisy_scale_coords` factor. -/
def opExpansion : P String := do
  let mc ← pFloat; let ma ← pFloat
  pure (fb (Pipeline.expansion mc ma))

/-- `rescale10 <min> <max> <m> <m values>` → one embedding axis rescaled to `[0, 10]`. -/
def opRescale10 : P String := do
  let mn ← pFloat; let mx ← pFloat
  let m ← pNat
  let xs ← pMany m pFloat
  pure (join (xs.map (fun x => fb (Pipeline.rescale10 mn mx x))))

/-- `symmetrize <r> COO` -/
def opSym : P String := do
  let r ← pFloat
  let A ← pCoo
  pure (fCoo (Graph.symmetrize r A))

/-- `relations <pinned 0/1> <w> <maxN> <L> { <len> (k v)* }^L` → the tensor, flattened, `-1` for none. -/
def opRelations : P String := do
  let pinned ← pNat
  let w ← pNat
  let maxN ← pNat
  let L ← pNat
  let dicts ← pMany L (do
    let n ← pNat
    pMany n (do let k ← pNat; let v ← pNat; pure (k, v)))
  let t := Relations.expandRelations (pinned == 1) dicts w maxN
  let flat := t.flatten.flatten
  pure (join (flat.map (fun o => match o with | some v => toString v | none => "-1")))

def pData : P Api.Data := do
  let n ← pNat
  pMany n (do let i ← pNat; let r ← pNat; pure (i, r))

/-- `api <stale 0/1> <cols> <feats> <x: data> <nops> ops…` with ops `T data` | `I rows` | `U id rows`
    → per op `E rows cols isTraining` | `V rows feats` | `U`, separated by `;`. -/
def opApi : P String := do
  let stale ← pNat
  let cols ← pNat
  let feats ← pNat
  let x ← pData
  let nops ← pNat
  let ops ← pMany nops (do
    let t ← tok
    match t with
    | "T" => do let y ← pData; pure (Api.Op.transform y)
    | "I" => do let z ← pNat; pure (Api.Op.inverseTransform z)
    | "U" => do let i ← pNat; let r ← pNat; pure (Api.Op.update (i, r))
    | _ => throw s!"apiop:{t}")
  let mut s := Api.fit x cols feats
  let mut outs : Array String := #[]
  for o in ops do
    let (s', out) := Api.step (stale == 1) s o
    s := s'
    outs := outs.push (match out with
      | .embedding r c t => s!"E {r} {c} {if t then 1 else 0}"
      | .inverse r f => s!"V {r} {f}"
      | .updated => "U")
  pure (" ; ".intercalate outs.toList)

/-- `knndecision <pinned> <cols> <k> <rows> <n> <force>` → `ignore` | `use <cols> <force>` -/
def opKnnDecision : P String := do
  let pinned ← pNat
  let cols ← pNat; let k ← pNat; let rows ← pNat; let n ← pNat; let force ← pNat
  match Api.validatePrecomputedKnn (pinned == 1) cols k rows n (force == 1) with
  | .ignore => pure "ignore"
  | .use c f => pure s!"use {c} {if f then 1 else 0}"

def rnd32 (x : Float) : Float := x.toFloat32.toFloat

def pWord : P Rng.Word := do
  let z ← pInt
  pure (BitVec.ofInt 64 z)

def fWord (w : Rng.Word) : String := toString w.toInt

/-- `tau <s0> <s1> <s2> <count> <nVertices>` → `r_1 v_1 … r_count v_count s0' s1' s2'` -/
def opTau : P String := do
  let s0 ← pWord; let s1 ← pWord; let s2 ← pWord
  let count ← pNat
  let nv ← pNat
  let mut st : Rng.RState := (s0, s1, s2)
  let mut out : Array String := #[]
  for _ in [0:count] do
    let (st', r) := Rng.tauRandInt st
    st := st'
    out := out.push (toString r)
    out := out.push (toString (Rng.floorMod r nv))
  pure (join (out.toList ++ [fWord st.1, fWord st.2.1, fWord st.2.2]))

/-- `sgd <aliased> <moveOther> <dim> <nVertices> <nHead> <nTail> <nEdges> <a> <b> <gamma>
        <alphaMode 0=schedule 1=explicit> <alpha0-or-alpha> <N> <nStart> <nEnd>
        head… tail… hd… tl… eps… epns… eons… eonns… rng(3·nHead)`
    → `head… tail… eons… eonns… rng…` after epochs `nStart .. nEnd-1`. -/
def opSgd : P String := do
  let aliased ← pNat; let moveOther ← pNat
  let dim ← pNat; let nV ← pNat; let nH ← pNat; let nT ← pNat; let nE ← pNat
  let a ← pFloat; let b ← pFloat; let gamma ← pFloat
  let amode ← pNat; let alpha0 ← pFloat; let N ← pNat; let n0 ← pNat; let n1 ← pNat
  let head ← pMat nH dim pFloat
  let tail ← pMat nT dim pFloat
  let hd ← pMany nE pNat
  let tl ← pMany nE pNat
  let eps ← pMany nE pFloat
  let epns ← pMany nE pFloat
  let eons ← pMany nE pFloat
  let eonns ← pMany nE pFloat
  let rng ← pMany nH (do let x ← pWord; let y ← pWord; let z ← pWord; pure (x, y, z))
  let P : Sgd.Params Float := { a := a, b := b, gamma := gamma, dim := dim, nVertices := nV,
                                moveOther := moveOther == 1, aliased := aliased == 1 }
  let mut s : Sgd.State Float := { head := (head.map List.toArray).toArray, tail := (tail.map List.toArray).toArray,
                                   eons := eons.toArray, eonns := eonns.toArray, rng := rng.toArray }
  for n in [n0:n1] do
    let alpha := if amode == 1 then alpha0 else Sgd.alphaAt alpha0 N n
    s := Sgd.epoch floatT rnd32 P hd.toArray tl.toArray eps.toArray epns.toArray alpha n none s
  let fl := fun (m : Array (Array Float)) => (m.toList.map (fun r => r.toList.map fb)).flatten
  pure (join (fl s.head ++ fl s.tail ++ s.eons.toList.map fb ++ s.eonns.toList.map fb
    ++ (s.rng.toList.map (fun st => [fWord st.1, fWord st.2.1, fWord st.2.2])).flatten))

/-- `sgdgen <metric> <aliased> <moveOther> <dim> <nVertices> <nHead> <nTail> <nEdges> <a> <b> <gamma> <alpha0> <N>
        head… tail… hd… tl… eps… epns… rng(3·nHead)` → head… tail… after the whole run of the generic kernel. -/
def opSgdGen : P String := do
  let mname ← tok
  let aliased ← pNat; let moveOther ← pNat
  let dim ← pNat; let nV ← pNat; let nH ← pNat; let nT ← pNat; let nE ← pNat
  let a ← pFloat; let b ← pFloat; let gamma ← pFloat
  let alpha0 ← pFloat; let N ← pNat
  let head ← pMat nH dim pFloat
  let tail ← pMat nT dim pFloat
  let hd ← pMany nE pNat
  let tl ← pMany nE pNat
  let eps ← pMany nE pFloat
  let epns ← pMany nE pFloat
  let rng ← pMany nH (do let x ← pWord; let y ← pWord; let z ← pWord; pure (x, y, z))
  let metric : Array Float → Array Float → Float × Array Float ← match mname with
    | "euclidean" => pure (fun x y => let r := Grad.euclideanGrad floatT 1e-6 x.toList y.toList; (r.1, r.2.toArray))
    | "manhattan" => pure (fun x y => let r := Grad.manhattanGrad x.toList y.toList; (r.1, r.2.toArray))
    | "chebyshev" => pure (fun x y => let r := Grad.chebyshevGrad x.toList y.toList; (r.1, r.2.toArray))
    | _ => throw s!"sgdgen:{mname}"
  let P : Sgd.Params Float := { a := a, b := b, gamma := gamma, dim := dim, nVertices := nV,
                                moveOther := moveOther == 1, aliased := aliased == 1 }
  let s0 : Sgd.State Float := { head := (head.map List.toArray).toArray, tail := (tail.map List.toArray).toArray,
                                eons := eps.toArray, eonns := epns.toArray, rng := rng.toArray }
  let s := Sgd.genRunEpochs floatT rnd32 P 1e-6 metric hd.toArray tl.toArray eps.toArray epns.toArray alpha0 N s0
  let fl := fun (m : Array (Array Float)) => (m.toList.map (fun r => r.toList.map fb)).flatten
  pure (join (fl s.head ++ fl s.tail))

/-- `eps <nEpochs> <n> weights…` → make_epochs_per_sample -/
def opEps : P String := do
  let ne ← pNat
  let n ← pNat
  let ws ← pMany n pFloat
  pure (join ((Sgd.makeEpochsPerSample ws ne).map fb))

def piF : Float := 3.141592653589793

/-- `metric <name> <n> x… y… [extras]` → value -/
def opMetric : P String := do
  let name ← tok
  let n ← pNat
  let x ← pMany n pFloat
  let y ← pMany n pFloat
  let T := floatT
  let r : Option Float ← match name with
    | "euclidean" => pure (some (Metrics.euclidean T x y))
    | "manhattan" => pure (some (Metrics.manhattan x y))
    | "chebyshev" => pure (some (Metrics.chebyshev x y))
    | "minkowski" => do let p ← pFloat; pure (some (Metrics.minkowski T p x y))
    | "seuclidean" => do let sg ← pMany n pFloat; pure (some (Metrics.seuclidean T sg x y))
    | "wminkowski" => do
        let w ← pMany n pFloat; let p ← pFloat; pure (some (Metrics.wminkowski T w p x y))
    | "mahalanobis" => do let v ← pMat n n pFloat; pure (some (Metrics.mahalanobis T v x y))
    | "canberra" => pure (some (Metrics.canberra x y))
    | "braycurtis" => pure (some (Metrics.brayCurtis x y))
    | "cosine" => pure (some (Metrics.cosine T x y))
    | "correlation" => pure (some (Metrics.correlation T x y))
    | "hellinger" => pure (some (Metrics.hellinger T x y))
    | "haversine" => pure (Metrics.haversine T x y)
    | "poincare" => pure (some (Metrics.poincare T x y))
    | "symmetric_kl" => pure (some (Metrics.symmetricKl T 1e-11 x y))
    | "ll_dirichlet" => pure (some (Metrics.llDirichlet T piF 1e8 x y))
    | "hamming" => pure (some (Metrics.hamming x y))
    | "jaccard" => pure (some (Metrics.jaccardC (Metrics.counts x y)))
    | "matching" => pure (some (Metrics.matchingC (Metrics.counts x y)))
    | "dice" => pure (some (Metrics.diceC (Metrics.counts x y)))
    | "kulsinski" => pure (some (Metrics.kulsinskiC (Metrics.counts x y)))
    | "rogerstanimoto" => pure (some (Metrics.rogersTanimotoC (Metrics.counts x y)))
    | "russellrao" => pure (some (Metrics.russellRaoC (Metrics.counts x y)))
    | "sokalmichener" => pure (some (Metrics.sokalMichenerC (Metrics.counts x y)))
    | "sokalsneath" => pure (some (Metrics.sokalSneathC (Metrics.counts x y)))
    | "yule" => pure (some (Metrics.yuleC (Metrics.counts x y)))
    | _ => throw s!"metric:{name}"
  pure (match r with | some v => fb v | none => "err")

def pSVec : P (Sparse.SVec Float) := do
  let n ← pNat
  pMany n (do let i ← pNat; let v ← pFloat; pure (i, v))

/-- `smetric <name> <nfeat> <x: n (i v)*> <y: n (i v)*> [p]` → value -/
def opSMetric : P String := do
  let name ← tok
  let nf ← pNat
  let x ← pSVec
  let y ← pSVec
  let T := floatT
  let r : Float ← match name with
    | "euclidean" => pure (Sparse.sEuclidean T x y)
    | "manhattan" => pure (Sparse.sManhattan x y)
    | "chebyshev" => pure (Sparse.sChebyshev x y)
    | "minkowski" => do let p ← pFloat; pure (Sparse.sMinkowski T p x y)
    | "hamming" => pure (Sparse.sHamming nf x y)
    | "canberra" => pure (Sparse.sCanberra x y)
    | "braycurtis" => pure (Sparse.sBrayCurtis x y)
    | "jaccard" => pure (Sparse.sJaccard x y)
    | "matching" => pure (Sparse.sMatching nf x y)
    | "dice" => pure (Sparse.sDice x y)
    | "kulsinski" => pure (Sparse.sKulsinski nf x y)
    | "rogerstanimoto" => pure (Sparse.sRogersTanimoto nf x y)
    | "russellrao" => pure (Sparse.sRussellRao nf x y)
    | "sokalmichener" => pure (Sparse.sSokalMichener nf x y)
    | "sokalsneath" => pure (Sparse.sSokalSneath x y)
    | "cosine" => pure (Sparse.sCosine T x y)
    | "hellinger" => pure (Sparse.sHellinger T x y)
    | "correlation" => pure (Sparse.sCorrelation T nf x y)
    | "ll_dirichlet" => pure (Sparse.sLlDirichlet T piF 1e8 x y)
    | _ => throw s!"smetric:{name}"
  pure (fb r)

/-- `grad <name> <n> x… y… [extras]` → `d g…` -/
def opGrad : P String := do
  let name ← tok
  let n ← pNat
  let x ← pMany n pFloat
  let y ← pMany n pFloat
  let T := floatT
  let r : Option (Float × List Float) ← match name with
    | "euclidean" => pure (some (Grad.euclideanGrad T 1e-6 x y))
    | "seuclidean" => do let sg ← pMany n pFloat; pure (some (Grad.seuclideanGrad T 1e-6 sg x y))
    | "manhattan" => pure (some (Grad.manhattanGrad x y))
    | "chebyshev" => pure (some (Grad.chebyshevGrad x y))
    | "minkowski" => do let p ← pFloat; pure (some (Grad.minkowskiGrad T p x y))
    | "wminkowski" => do
        let w ← pMany n pFloat; let p ← pFloat; pure (some (Grad.wminkowskiGrad T w p x y))
    | "mahalanobis" => do let v ← pMat n n pFloat; pure (some (Grad.mahalanobisGrad T 1e-6 v x y))
    | "canberra" => pure (some (Grad.canberraGrad x y))
    | "braycurtis" => pure (some (Grad.brayCurtisGrad x y))
    | "cosine" => pure (some (Grad.cosineGrad T x y))
    | "correlation" => pure (some (Grad.correlationGrad T x y))
    | "hellinger" => pure (some (Grad.hellingerGrad T x y))
    | "haversine" => pure (Grad.haversineGrad T piF 1e-6 x y)
    | "hyperboloid" => pure (some (Grad.hyperboloidGrad T 1e-8 x y))
    | "symmetric_kl" => pure (some (Grad.symmetricKlGrad T 1e-11 x y))
    | "spherical_gaussian_energy" => pure (Grad.sphericalGaussianEnergyGrad T piF x y)
    | "diagonal_gaussian_energy" => pure (Grad.diagonalGaussianEnergyGrad T piF x y)
    | _ => throw s!"grad:{name}"
  pure (match r with | some (d, g) => join (fb d :: g.map fb) | none => "err")

/-- `heap <program> <mask>` → protected buffers written under the resolution encoded by `mask` -/
def opHeap : P String := do
  let name ← tok
  let m ← pNat
  let prog ← match name with
    | "layout" => pure (Heap.layoutStage 0 6)
    | "layout-pinned" => pure (Heap.layoutStagePinned 0 6)
    | "fit" => pure Heap.fitProg
    | "transform" => pure Heap.transformProg
    | "inverse" => pure Heap.inverseProg
    | "sub" => pure Heap.subProg
    | "sub-pinned" => pure Heap.subProgPinned
    | "addmul" => pure Heap.addMulProg
    | "update" => pure Heap.updateProg
    | _ => throw s!"heap:{name}"
  let s := Heap.run (fun site => (m >>> site) % 2 == 1) prog (Heap.init Heap.nProt)
  let w := (s.written.filter (fun b => 1 ≤ b && b ≤ Heap.nProt)).eraseDups
  pure (join ("w" :: w.map toString))

def pLabels : P (List (Option Int)) := do
  let n ← pNat
  pMany n (do
    let t ← tok
    if t == "n" then pure none else
    match t.toInt? with
    | some z => pure (some z)
    | none => throw s!"label:{t}")

/-- `fastint <ud> <fd> labels COO` → COO (same order of positions; zeros kept) -/
def opFastInt : P String := do
  let ud ← pFloat; let fd ← pFloat
  let labels ← pLabels
  let A ← pCoo
  pure (fCoo (Graph.fastIntersection floatT labels ud fd A))

/-- `catint <ud> <fd> labels COO` → categorical intersection incl. reset_local_connectivity -/
def opCatInt : P String := do
  let ud ← pFloat; let fd ← pFloat
  let labels ← pLabels
  let A ← pCoo
  pure (fCoo (Graph.categoricalIntersection floatT labels ud fd A))

def fOptCoo : Option (Graph.Coo Float) → String
  | some A => fCoo A
  | none => "err"

/-- `ssetunion COO COO` -/
def opSsetUnion : P String := do
  let A ← pCoo; let B ← pCoo
  pure (fOptCoo (Graph.ssetUnion 1e-8 A B))

/-- `ssetint <rightComplement 0/1> <w> COO COO` -/
def opSsetInt : P String := do
  let rc ← pNat; let w ← pFloat
  let A ← pCoo; let B ← pCoo
  pure (fOptCoo (Graph.ssetIntersection floatT 1e-8 1e-4 (rc == 1) w A B))

/-- `reset_local_connectivity(simplicial_set, reset_local_metric)`: `resetlc <metric 0/1> <n> COO` -/
def opResetLc : P String := do
  let metric ← pNat
  let n ← pNat
  let A ← pCoo
  if metric == 0 then pure (fCoo (Graph.resetLocalConnectivity A)) else
  let N := Graph.rowMaxNormalize A
  -- reset_local_metrics: each CSR row re-calibrated to total log2(15) by `reprocess_row`
  let target := Float.log2 15.0
  let rows := (List.range n).map (fun i =>
    let row := N.filter (·.1 == i)
    let vals := Graph.reprocessRow floatT 1e-5 target 32 (row.map (·.2.2))
    (row.zip vals).map (fun (t, v) => (t.1, t.2.1, v)))
  pure (fCoo (Graph.unionTranspose rows.flatten))

/-- `laplacian <n> COO` → COO of `I - D^-1/2 A D^-1/2` -/
def opLaplacian : P String := do
  let n ← pNat
  let A ← pCoo
  pure (fCoo (Spectral.laplacian floatT A n))

/-- `select <dim> <m> vals…` → `argsort(vals)[1:dim+1]` -/
def opSelect : P String := do
  let dim ← pNat
  let m ← pNat
  let vals ← pMany m pFloat
  pure (join ((Spectral.selectOrder vals dim).map toString))

/-- `ranks <n> labels…` → rank of each row within its label -/
def opRanks : P String := do
  let n ← pNat
  let labels ← pMany n pNat
  pure (join ((List.range n).map (fun r => toString (Spectral.rankInLabel labels r))))

/-- `radii <n> <m> (j k mu d)*` → `log(1e-8 + ro/mu_sum)` per vertex -/
def opRadii : P String := do
  let n ← pNat
  let m ← pNat
  let es ← pMany m (do let j ← pNat; let k ← pNat; let mu ← pFloat; let d ← pFloat; pure (j, k, mu, d))
  pure (join ((List.range n).map (fun i => fb (Radii.radius floatT 1e-8 es i))))

/-- `densflag <densmap 0/1> <lambda> <frac> <N>` → the flag for n = 0..N-1 -/
def opDensFlag : P String := do
  let dm ← pNat; let lam ← pFloat; let fr ← pFloat; let N ← pNat
  pure (join ((List.range N).map (fun n => if Sgd.densmapFlag (dm == 1) lam fr n N then "1" else "0")))

/-- `prepeats <nEpochs> <n> weights…` → parametric edge repeats -/
def opPRepeats : P String := do
  let ne ← pNat
  let n ← pNat
  let ws ← pMany n pFloat
  pure (join ((Sgd.parametricRepeats floatT ws ne).map toString))

/-- `initupdate <nOrig> <dim> <nRows> <k> init(nRows*dim) indices(nRows*k)` → the new rows after init_update -/
def opInitUpdate : P String := do
  let nOrig ← pNat; let dim ← pNat; let nRows ← pNat; let k ← pNat
  let init ← pMat nRows dim pFloat
  let idx ← pMat nRows k pNat
  let orig := fun j => init.getD j []
  let out := (List.range (nRows - nOrig)).map (fun t =>
    let i := nOrig + t
    Pipeline.initUpdateRow nOrig dim orig (init.getD i []) (idx.getD i []))
  pure (join (out.flatten.map fb))

def dispatch (op : String) : P String :=
  match op with
  | "knn" => opKnn
  | "members" => opMembers
  | "graph" => opGraph
  | "sym" => opSym
  | "exactstage" => opExactStage
  | "schedule" => opSchedule
  | "truncatek" => opTruncateK
  | "expansion" => opExpansion
  | "rescale10" => opRescale10
  | "uniquerows" => opUniqueRows
  | "relations" => opRelations
  | "api" => opApi
  | "metric" => opMetric
  | "smetric" => opSMetric
  | "grad" => opGrad
  | "heap" => opHeap
  | "initupdate" => opInitUpdate
  | "prepeats" => opPRepeats
  | "radii" => opRadii
  | "densflag" => opDensFlag
  | "laplacian" => opLaplacian
  | "select" => opSelect
  | "ranks" => opRanks
  | "fastint" => opFastInt
  | "catint" => opCatInt
  | "ssetunion" => opSsetUnion
  | "ssetint" => opSsetInt
  | "resetlc" => opResetLc
  | "tau" => opTau
  | "sgd" => opSgd
  | "sgdgen" => opSgdGen
  | "eps" => opEps
  | "knndecision" => opKnnDecision
  | "ping" => pure "pong"
  | _ => throw "unknown"

def runLine (line : String) : String :=
  let toks := (line.splitOn " ").filter (· ≠ "") |>.toArray
  if h : 0 < toks.size then
    match (dispatch toks[0]).run (toks, 1) with
    | .ok (s, (a, i)) => if i == a.size then s else "bad-op trailing"
    | .error e => s!"bad-op {e}"
  else "bad-op empty"

partial def loop (h : IO.FS.Stream) (out : IO.FS.Stream) : IO Unit := do
  let line ← h.getLine
  if line.isEmpty then return ()
  out.putStrLn (runLine (line.trimAscii.toString))
  loop h out

def main : IO Unit := do
  let out ← IO.getStdout
  loop (← IO.getStdin) out
  out.flush
