import UmapProps.C01
import UmapProps.C02
import UmapProps.C19
import UmapProps.C20
import UmapProps.C10
import UmapProps.C07
import UmapProps.C12
import UmapProps.C09
