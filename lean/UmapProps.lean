import UmapProps.C01
import UmapProps.C02
import UmapProps.C19
