import UmapProps.C02
