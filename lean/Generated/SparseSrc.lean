/- GENERATED from the source text of umap/sparse.py in the live /repo by harness/translate.py — do not edit.
   One Lean definition per numba kernel, obtained by a purely syntactic translation of the function's AST
   (loops -> folds over `List.range`, `x[i]` -> `x.getD i 0`, `e ** 2` -> `sq e`, float literals -> exact decimal
   fractions).  `UmapProps/C13Src*.lean` proves each of them equal to the hand-written model the property theorems
   are about; a change to the source changes this file and that proof is re-checked. -/
import UmapModel.Scalar

set_option linter.unusedVariables false

namespace Umap
namespace SrcSparse

section
variable {α : Type} [Add α] [Sub α] [Mul α] [Div α] [Neg α] [LT α] [LE α]
  [DecidableLT α] [DecidableLE α] [OfNat α 0] [OfNat α 1] [NatCast α] [IntCast α]

/-- `e ** 2` -/
def sq (a : α) : α := a * a
/-- `e ** 3` -/
def cube (a : α) : α := a * a * a
/-- a Python bool used as a number -/
def b2s (b : Bool) : α := if b then 1 else 0
/-- `range(lo, hi)` -/
def rangeFrom (lo hi : Nat) : List Nat := (List.range (hi - lo)).map (lo + ·)
/-- `while c: body` with explicit fuel (the translator supplies the sum of the lengths the condition mentions + 1);
    when the fuel runs out the current state is returned -/
def whileN {σ : Type} : Nat → (σ → Bool) → (σ → σ) → σ → σ
  | 0, _, _, s => s
  | n + 1, c, f, s => if c s then whileN n c f (f s) else s
/-- `np.sort` on an index array (contract: ascending, stable) -/
def sortN (l : List Nat) : List Nat := l.mergeSort (fun a b => decide (a ≤ b))
/-- boolean-mask indexing `a[flag]` (contract: the entries whose flag is set, in order) -/
def maskSel {β : Type} (a : List β) (flag : List Bool) : List β := ((a.zip flag).filter (·.2)).map (·.1)


/-- `norm` (umap/sparse.py:2) -/
def norm (T : Transc α) (vec : List α) : α :=
  let result : α := 0
  let result := (List.range vec.length).foldl (fun (st : α) (i : Nat) =>
      let result := st
      let result := result + (sq (vec.getD i 0))
      result) result
  (T.sqrt result)

/-- `arr_unique` (umap/sparse.py:37) -/
def arrUnique (arr : List Nat) : List Nat :=
  let aux : List Nat := (sortN arr)
  let flag : List Bool := ((List.replicate 1 true) ++ (List.zipWith (fun a b => a != b) ((aux).drop 1) (aux).dropLast))
  (maskSel aux flag)

/-- `arr_union` (umap/sparse.py:45) -/
def arrUnion (ar1 : List Nat) (ar2 : List Nat) : List Nat :=
  if (ar1.length == 0) then
    ar2
  else
    if (ar2.length == 0) then
      ar1
    else
      (arrUnique (ar1 ++ ar2))

/-- `arr_intersect` (umap/sparse.py:57) -/
def arrIntersect (ar1 : List Nat) (ar2 : List Nat) : List Nat :=
  let aux : List Nat := (ar1 ++ ar2)
  let aux := sortN aux
  (maskSel (aux).dropLast (List.zipWith (fun a b => a == b) ((aux).drop 1) (aux).dropLast))

/-- `sparse_sum` (umap/sparse.py:64) -/
def sparseSum (ind1 : List Nat) (data1 : List α) (ind2 : List Nat) (data2 : List α) : (List Nat) × (List α) :=
  let result_ind : List Nat := (arrUnion ind1 ind2)
  let result_data : List α := (List.replicate result_ind.length (0 : α))
  let i1 : Nat := 0
  let i2 : Nat := 0
  let nnz : Nat := 0
  let (i1, i2, result_ind, result_data, nnz) := whileN (ind1.length + ind2.length + 1)
      (fun (st : Nat × Nat × (List Nat) × (List α) × Nat) =>
      let i1 := st.1
      let i2 := st.2.1
      let result_ind := st.2.2.1
      let result_data := st.2.2.2.1
      let nnz := st.2.2.2.2
      ((decide (i1 < ind1.length)) && (decide (i2 < ind2.length))))
      (fun (st : Nat × Nat × (List Nat) × (List α) × Nat) =>
      let i1 := st.1
      let i2 := st.2.1
      let result_ind := st.2.2.1
      let result_data := st.2.2.2.1
      let nnz := st.2.2.2.2
      let j1 : Nat := (ind1.getD i1 0)
      let j2 : Nat := (ind2.getD i2 0)
      let (val, result_ind, result_data, nnz, i1, i2) := (
        if (j1 == j2) then
          let val : α := ((data1.getD i1 0) + (data2.getD i2 0))
          let (result_ind, result_data, nnz) := (
            if (!(eqV val 0)) then
              let result_ind := result_ind.set nnz j1
              let result_data := result_data.set nnz val
              let nnz := nnz + 1
              (result_ind, result_data, nnz)
            else
              (result_ind, result_data, nnz))
          let i1 := i1 + 1
          let i2 := i2 + 1
          (val, result_ind, result_data, nnz, i1, i2)
        else
          let (val, result_ind, result_data, nnz, i1, i2) := (
            if j1 < j2 then
              let val : α := (data1.getD i1 0)
              let (result_ind, result_data, nnz) := (
                if (!(eqV val 0)) then
                  let result_ind := result_ind.set nnz j1
                  let result_data := result_data.set nnz val
                  let nnz := nnz + 1
                  (result_ind, result_data, nnz)
                else
                  (result_ind, result_data, nnz))
              let i1 := i1 + 1
              (val, result_ind, result_data, nnz, i1, i2)
            else
              let val : α := (data2.getD i2 0)
              let (result_ind, result_data, nnz) := (
                if (!(eqV val 0)) then
                  let result_ind := result_ind.set nnz j2
                  let result_data := result_data.set nnz val
                  let nnz := nnz + 1
                  (result_ind, result_data, nnz)
                else
                  (result_ind, result_data, nnz))
              let i2 := i2 + 1
              (val, result_ind, result_data, nnz, i1, i2))
          (val, result_ind, result_data, nnz, i1, i2))
      (i1, i2, result_ind, result_data, nnz))
      (i1, i2, result_ind, result_data, nnz)
  let (result_ind, result_data, nnz, i1) := whileN (ind1.length + 1)
      (fun (st : (List Nat) × (List α) × Nat × Nat) =>
      let result_ind := st.1
      let result_data := st.2.1
      let nnz := st.2.2.1
      let i1 := st.2.2.2
      (decide (i1 < ind1.length)))
      (fun (st : (List Nat) × (List α) × Nat × Nat) =>
      let result_ind := st.1
      let result_data := st.2.1
      let nnz := st.2.2.1
      let i1 := st.2.2.2
      let val : α := (data1.getD i1 0)
      let (result_ind, result_data, nnz) := (
        if (!(eqV val 0)) then
          let result_ind := result_ind.set nnz (ind1.getD i1 0)
          let result_data := result_data.set nnz val
          let nnz := nnz + 1
          (result_ind, result_data, nnz)
        else
          (result_ind, result_data, nnz))
      let i1 := i1 + 1
      (result_ind, result_data, nnz, i1))
      (result_ind, result_data, nnz, i1)
  let (result_ind, result_data, nnz, i2) := whileN (ind2.length + 1)
      (fun (st : (List Nat) × (List α) × Nat × Nat) =>
      let result_ind := st.1
      let result_data := st.2.1
      let nnz := st.2.2.1
      let i2 := st.2.2.2
      (decide (i2 < ind2.length)))
      (fun (st : (List Nat) × (List α) × Nat × Nat) =>
      let result_ind := st.1
      let result_data := st.2.1
      let nnz := st.2.2.1
      let i2 := st.2.2.2
      let val : α := (data2.getD i2 0)
      let (result_ind, result_data, nnz) := (
        if (!(eqV val 0)) then
          let result_ind := result_ind.set nnz (ind2.getD i2 0)
          let result_data := result_data.set nnz val
          let nnz := nnz + 1
          (result_ind, result_data, nnz)
        else
          (result_ind, result_data, nnz))
      let i2 := i2 + 1
      (result_ind, result_data, nnz, i2))
      (result_ind, result_data, nnz, i2)
  let result_ind : List Nat := ((result_ind).take nnz)
  let result_data : List α := ((result_data).take nnz)
  (result_ind, result_data)

/-- `sparse_diff` (umap/sparse.py:125) -/
def sparseDiff (ind1 : List Nat) (data1 : List α) (ind2 : List Nat) (data2 : List α) : (List Nat) × (List α) :=
  (sparseSum ind1 data1 ind2 ((data2).map (fun a => -a)))

/-- `sparse_mul` (umap/sparse.py:130) -/
def sparseMul (ind1 : List Nat) (data1 : List α) (ind2 : List Nat) (data2 : List α) : (List Nat) × (List α) :=
  let result_ind : List Nat := (arrIntersect ind1 ind2)
  let result_data : List α := (List.replicate result_ind.length (0 : α))
  let i1 : Nat := 0
  let i2 : Nat := 0
  let nnz : Nat := 0
  let (i1, i2, result_ind, result_data, nnz) := whileN (ind1.length + ind2.length + 1)
      (fun (st : Nat × Nat × (List Nat) × (List α) × Nat) =>
      let i1 := st.1
      let i2 := st.2.1
      let result_ind := st.2.2.1
      let result_data := st.2.2.2.1
      let nnz := st.2.2.2.2
      ((decide (i1 < ind1.length)) && (decide (i2 < ind2.length))))
      (fun (st : Nat × Nat × (List Nat) × (List α) × Nat) =>
      let i1 := st.1
      let i2 := st.2.1
      let result_ind := st.2.2.1
      let result_data := st.2.2.2.1
      let nnz := st.2.2.2.2
      let j1 : Nat := (ind1.getD i1 0)
      let j2 : Nat := (ind2.getD i2 0)
      let (result_ind, result_data, nnz, i1, i2) := (
        if (j1 == j2) then
          let val : α := ((data1.getD i1 0) * (data2.getD i2 0))
          let (result_ind, result_data, nnz) := (
            if (!(eqV val 0)) then
              let result_ind := result_ind.set nnz j1
              let result_data := result_data.set nnz val
              let nnz := nnz + 1
              (result_ind, result_data, nnz)
            else
              (result_ind, result_data, nnz))
          let i1 := i1 + 1
          let i2 := i2 + 1
          (result_ind, result_data, nnz, i1, i2)
        else
          let (i1, i2) := (
            if j1 < j2 then
              let i1 := i1 + 1
              (i1, i2)
            else
              let i2 := i2 + 1
              (i1, i2))
          (result_ind, result_data, nnz, i1, i2))
      (i1, i2, result_ind, result_data, nnz))
      (i1, i2, result_ind, result_data, nnz)
  let result_ind : List Nat := ((result_ind).take nnz)
  let result_data : List α := ((result_data).take nnz)
  (result_ind, result_data)

/-- `sparse_euclidean` (umap/sparse.py:253) -/
def sparseEuclidean (T : Transc α) (ind1 : List Nat) (data1 : List α) (ind2 : List Nat) (data2 : List α) : α :=
  let (aux_inds, aux_data) := (sparseDiff ind1 data1 ind2 data2)
  let result : α := 0
  let result := (List.range aux_data.length).foldl (fun (st : α) (i : Nat) =>
      let result := st
      let result := result + (sq (aux_data.getD i 0))
      result) result
  (T.sqrt result)

/-- `sparse_manhattan` (umap/sparse.py:262) -/
def sparseManhattan (ind1 : List Nat) (data1 : List α) (ind2 : List Nat) (data2 : List α) : α :=
  let (aux_inds, aux_data) := (sparseDiff ind1 data1 ind2 data2)
  let result : α := 0
  let result := (List.range aux_data.length).foldl (fun (st : α) (i : Nat) =>
      let result := st
      let result := result + (absV (aux_data.getD i 0))
      result) result
  result

/-- `sparse_chebyshev` (umap/sparse.py:271) -/
def sparseChebyshev (ind1 : List Nat) (data1 : List α) (ind2 : List Nat) (data2 : List α) : α :=
  let (aux_inds, aux_data) := (sparseDiff ind1 data1 ind2 data2)
  let result : α := 0
  let result := (List.range aux_data.length).foldl (fun (st : α) (i : Nat) =>
      let result := st
      let result : α := (maxV result (absV (aux_data.getD i 0)))
      result) result
  result

/-- `sparse_minkowski` (umap/sparse.py:280) -/
def sparseMinkowski (T : Transc α) (ind1 : List Nat) (data1 : List α) (ind2 : List Nat) (data2 : List α) (p : α) : α :=
  let (aux_inds, aux_data) := (sparseDiff ind1 data1 ind2 data2)
  let result : α := 0
  let result := (List.range aux_data.length).foldl (fun (st : α) (i : Nat) =>
      let result := st
      let result := result + (T.pow (absV (aux_data.getD i 0)) p)
      result) result
  (T.pow result (1 / p))

/-- `sparse_hamming` (umap/sparse.py:289) -/
def sparseHamming (ind1 : List Nat) (data1 : List α) (ind2 : List Nat) (data2 : List α) (n_features : Nat) : α :=
  let num_not_equal : Nat := (((sparseDiff ind1 data1 ind2 data2)).1).length
  (((num_not_equal : Nat) : α) / ((n_features : Nat) : α))

/-- `sparse_canberra` (umap/sparse.py:295) -/
def sparseCanberra (ind1 : List Nat) (data1 : List α) (ind2 : List Nat) (data2 : List α) : α :=
  let abs_data1 : List α := ((data1).map absV)
  let abs_data2 : List α := ((data2).map absV)
  let (denom_inds, denom_data) := (sparseSum ind1 abs_data1 ind2 abs_data2)
  let denom_data : List α := ((denom_data).map (fun b => 1 / b))
  let (numer_inds, numer_data) := (sparseDiff ind1 data1 ind2 data2)
  let numer_data : List α := ((numer_data).map absV)
  let (val_inds, val_data) := (sparseMul numer_inds numer_data denom_inds denom_data)
  (sumL val_data)

/-- `sparse_bray_curtis` (umap/sparse.py:309) -/
def sparseBrayCurtis (ind1 : List Nat) (data1 : List α) (ind2 : List Nat) (data2 : List α) : α :=
  let (denom_inds, denom_data) := (sparseSum ind1 data1 ind2 data2)
  let denom_data : List α := ((denom_data).map absV)
  if (denom_data.length == 0) then
    0
  else
    let denominator : α := (sumL denom_data)
    if (eqV denominator 0) then
      0
    else
      let (numer_inds, numer_data) := (sparseDiff ind1 data1 ind2 data2)
      let numer_data : List α := ((numer_data).map absV)
      let numerator : α := (sumL numer_data)
      (numerator / denominator)

/-- `sparse_jaccard` (umap/sparse.py:330) -/
def sparseJaccard (ind1 : List Nat) (data1 : List α) (ind2 : List Nat) (data2 : List α) : α :=
  let num_non_zero : Nat := ((arrUnion ind1 ind2)).length
  let num_equal : Nat := ((arrIntersect ind1 ind2)).length
  if (num_non_zero == 0) then
    0
  else
    ((((((num_non_zero : Nat) : Int) - ((num_equal : Nat) : Int)) : Int) : α) / ((num_non_zero : Nat) : α))

/-- `sparse_matching` (umap/sparse.py:341) -/
def sparseMatching (ind1 : List Nat) (data1 : List α) (ind2 : List Nat) (data2 : List α) (n_features : Nat) : α :=
  let num_true_true : Nat := ((arrIntersect ind1 ind2)).length
  let num_non_zero : Nat := ((arrUnion ind1 ind2)).length
  let num_not_equal : Int := (((num_non_zero : Nat) : Int) - ((num_true_true : Nat) : Int))
  (((num_not_equal : Int) : α) / ((n_features : Nat) : α))

/-- `sparse_dice` (umap/sparse.py:350) -/
def sparseDice (ind1 : List Nat) (data1 : List α) (ind2 : List Nat) (data2 : List α) : α :=
  let num_true_true : Nat := ((arrIntersect ind1 ind2)).length
  let num_non_zero : Nat := ((arrUnion ind1 ind2)).length
  let num_not_equal : Int := (((num_non_zero : Nat) : Int) - ((num_true_true : Nat) : Int))
  if (num_not_equal == ((0 : Nat) : Int)) then
    0
  else
    (((num_not_equal : Int) : α) / ((((2 : Nat) : α) * ((num_true_true : Nat) : α)) + ((num_not_equal : Int) : α)))

/-- `sparse_kulsinski` (umap/sparse.py:362) -/
def sparseKulsinski (ind1 : List Nat) (data1 : List α) (ind2 : List Nat) (data2 : List α) (n_features : Nat) : α :=
  let num_true_true : Nat := ((arrIntersect ind1 ind2)).length
  let num_non_zero : Nat := ((arrUnion ind1 ind2)).length
  let num_not_equal : Int := (((num_non_zero : Nat) : Int) - ((num_true_true : Nat) : Int))
  if (num_not_equal == ((0 : Nat) : Int)) then
    0
  else
    (((((num_not_equal - ((num_true_true : Nat) : Int)) + ((n_features : Nat) : Int)) : Int) : α) / (((num_not_equal + ((n_features : Nat) : Int)) : Int) : α))

/-- `sparse_rogers_tanimoto` (umap/sparse.py:376) -/
def sparseRogersTanimoto (ind1 : List Nat) (data1 : List α) (ind2 : List Nat) (data2 : List α) (n_features : Nat) : α :=
  let num_true_true : Nat := ((arrIntersect ind1 ind2)).length
  let num_non_zero : Nat := ((arrUnion ind1 ind2)).length
  let num_not_equal : Int := (((num_non_zero : Nat) : Int) - ((num_true_true : Nat) : Int))
  ((((2 : Nat) : α) * ((num_not_equal : Int) : α)) / (((((n_features : Nat) : Int) + num_not_equal) : Int) : α))

/-- `sparse_russellrao` (umap/sparse.py:385) -/
def sparseRussellrao (ind1 : List Nat) (data1 : List α) (ind2 : List Nat) (data2 : List α) (n_features : Nat) : α :=
  if ((ind1.length == ind2.length) && (((List.zipWith (fun a b => a == b) ind1 ind2)).all id)) then
    0
  else
    let num_true_true : Nat := ((arrIntersect ind1 ind2)).length
    if ((eqV ((num_true_true : Nat) : α) (((data1).countP (fun a => !(eqV a 0)) : Nat) : α)) && (eqV ((num_true_true : Nat) : α) (((data2).countP (fun a => !(eqV a 0)) : Nat) : α))) then
      0
    else
      ((((((n_features : Nat) : Int) - ((num_true_true : Nat) : Int)) : Int) : α) / ((n_features : Nat) : α))

/-- `sparse_sokal_michener` (umap/sparse.py:398) -/
def sparseSokalMichener (ind1 : List Nat) (data1 : List α) (ind2 : List Nat) (data2 : List α) (n_features : Nat) : α :=
  let num_true_true : Nat := ((arrIntersect ind1 ind2)).length
  let num_non_zero : Nat := ((arrUnion ind1 ind2)).length
  let num_not_equal : Int := (((num_non_zero : Nat) : Int) - ((num_true_true : Nat) : Int))
  ((((2 : Nat) : α) * ((num_not_equal : Int) : α)) / (((((n_features : Nat) : Int) + num_not_equal) : Int) : α))

/-- `sparse_sokal_sneath` (umap/sparse.py:407) -/
def sparseSokalSneath (ind1 : List Nat) (data1 : List α) (ind2 : List Nat) (data2 : List α) : α :=
  let num_true_true : Nat := ((arrIntersect ind1 ind2)).length
  let num_non_zero : Nat := ((arrUnion ind1 ind2)).length
  let num_not_equal : Int := (((num_non_zero : Nat) : Int) - ((num_true_true : Nat) : Int))
  if (num_not_equal == ((0 : Nat) : Int)) then
    0
  else
    (((num_not_equal : Int) : α) / (((1 / ((2 : Nat) : α)) * ((num_true_true : Nat) : α)) + ((num_not_equal : Int) : α)))

/-- `sparse_cosine` (umap/sparse.py:419) -/
def sparseCosine (T : Transc α) (ind1 : List Nat) (data1 : List α) (ind2 : List Nat) (data2 : List α) : α :=
  let (aux_inds, aux_data) := (sparseMul ind1 data1 ind2 data2)
  let result : α := 0
  let norm1 : α := (norm T data1)
  let norm2 : α := (norm T data2)
  let result := (List.range aux_data.length).foldl (fun (st : α) (i : Nat) =>
      let result := st
      let result := result + (aux_data.getD i 0)
      result) result
  if ((eqV norm1 0) && (eqV norm2 0)) then
    0
  else
    if ((eqV norm1 0) || (eqV norm2 0)) then
      1
    else
      (1 - (result / (norm1 * norm2)))

/-- `sparse_hellinger` (umap/sparse.py:437) -/
def sparseHellinger (T : Transc α) (ind1 : List Nat) (data1 : List α) (ind2 : List Nat) (data2 : List α) : α :=
  let (aux_inds, aux_data) := (sparseMul ind1 data1 ind2 data2)
  let result : α := 0
  let norm1 : α := (sumL data1)
  let norm2 : α := (sumL data2)
  let sqrt_norm_prod : α := (T.sqrt (norm1 * norm2))
  let result := (List.range aux_data.length).foldl (fun (st : α) (i : Nat) =>
      let result := st
      let result := result + (T.sqrt (aux_data.getD i 0))
      result) result
  if ((eqV norm1 0) && (eqV norm2 0)) then
    0
  else
    if ((eqV norm1 0) || (eqV norm2 0)) then
      1
    else
      if sqrt_norm_prod < result then
        0
      else
        (T.sqrt (1 - (result / sqrt_norm_prod)))

/-- `sparse_correlation` (umap/sparse.py:458) -/
def sparseCorrelation (T : Transc α) (ind1 : List Nat) (data1 : List α) (ind2 : List Nat) (data2 : List α) (n_features : Nat) : α :=
  let mu_x : α := 0
  let mu_y : α := 0
  let dot_product : α := 0
  if ((ind1.length == 0) && (ind2.length == 0)) then
    0
  else
    let mu_x := (List.range data1.length).foldl (fun (st : α) (i : Nat) =>
        let mu_x := st
        let mu_x := mu_x + (data1.getD i 0)
        mu_x) mu_x
    let mu_y := (List.range data2.length).foldl (fun (st : α) (i : Nat) =>
        let mu_y := st
        let mu_y := mu_y + (data2.getD i 0)
        mu_y) mu_y
    let mu_x := mu_x / ((n_features : Nat) : α)
    let mu_y := mu_y / ((n_features : Nat) : α)
    let shifted_data1 : List α := (List.replicate data1.length (0 : α))
    let shifted_data2 : List α := (List.replicate data2.length (0 : α))
    let shifted_data1 := (List.range data1.length).foldl (fun (st : (List α)) (i : Nat) =>
        let shifted_data1 := st
        let shifted_data1 := shifted_data1.set i ((data1.getD i 0) - mu_x)
        shifted_data1) shifted_data1
    let shifted_data2 := (List.range data2.length).foldl (fun (st : (List α)) (i : Nat) =>
        let shifted_data2 := st
        let shifted_data2 := shifted_data2.set i ((data2.getD i 0) - mu_y)
        shifted_data2) shifted_data2
    let norm1 : α := (T.sqrt ((sq (norm T shifted_data1)) + ((((((n_features : Nat) : Int) - ((ind1.length : Nat) : Int)) : Int) : α) * (sq mu_x))))
    let norm2 : α := (T.sqrt ((sq (norm T shifted_data2)) + ((((((n_features : Nat) : Int) - ((ind2.length : Nat) : Int)) : Int) : α) * (sq mu_y))))
    let (dot_prod_inds, dot_prod_data) := (sparseMul ind1 shifted_data1 ind2 shifted_data2)
    let common_indices : List Nat := (arrIntersect ind1 ind2)
    let dot_product := (List.range dot_prod_data.length).foldl (fun (st : α) (i : Nat) =>
        let dot_product := st
        let dot_product := dot_product + (dot_prod_data.getD i 0)
        dot_product) dot_product
    let dot_product := (List.range ind1.length).foldl (fun (st : α) (i : Nat) =>
        let dot_product := st
        let dot_product := (
          if (!((common_indices).contains (ind1.getD i 0))) then
            let dot_product := dot_product - ((shifted_data1.getD i 0) * mu_y)
            dot_product
          else
            dot_product)
        dot_product) dot_product
    let dot_product := (List.range ind2.length).foldl (fun (st : α) (i : Nat) =>
        let dot_product := st
        let dot_product := (
          if (!((common_indices).contains (ind2.getD i 0))) then
            let dot_product := dot_product - ((shifted_data2.getD i 0) * mu_x)
            dot_product
          else
            dot_product)
        dot_product) dot_product
    let all_indices : List Nat := (arrUnion ind1 ind2)
    let dot_product := dot_product + ((mu_x * mu_y) * (((((n_features : Nat) : Int) - ((all_indices.length : Nat) : Int)) : Int) : α))
    if ((eqV norm1 0) && (eqV norm2 0)) then
      0
    else
      if (eqV dot_product 0) then
        1
      else
        (1 - (dot_product / (norm1 * norm2)))

/-- `approx_log_Gamma` (umap/sparse.py:521) -/
def approxLogGamma (T : Transc α) (pi : α) (x : α) : α :=
  if (eqV x 1) then
    0
  else
    ((((x * (T.log x)) - x) + ((1 / ((2 : Nat) : α)) * (T.log ((((2 : Nat) : α) * pi) / x)))) + (1 / (x * ((12 : Nat) : α))))

/-- `log_beta` (umap/sparse.py:535) -/
def logBeta (T : Transc α) (pi : α) (x : α) (y : α) : α :=
  let a : α := (minV x y)
  let b : α := (maxV x y)
  if b < ((5 : Nat) : α) then
    let value : α := (-(T.log b))
    let value := (rangeFrom 1 ((T.trunc a)).toNat).foldl (fun (st : α) (i : Nat) =>
        let value := st
        let value := value + ((T.log ((i : Nat) : α)) - (T.log (b + ((i : Nat) : α))))
        value) value
    value
  else
    (((approxLogGamma T pi x) + (approxLogGamma T pi y)) - (approxLogGamma T pi (x + y)))

/-- `log_single_beta` (umap/sparse.py:548) -/
def logSingleBeta (T : Transc α) (pi : α) (x : α) : α :=
  ((((T.log ((2 : Nat) : α)) * (((-((2 : Nat) : α)) * x) + (1 / ((2 : Nat) : α)))) + ((1 / ((2 : Nat) : α)) * (T.log ((((2 : Nat) : α) * pi) / x)))) + ((1 / ((8 : Nat) : α)) / x))

/-- `sparse_ll_dirichlet` (umap/sparse.py:559) -/
def sparseLlDirichlet (T : Transc α) (pi : α) (ind1 : List Nat) (data1 : List α) (ind2 : List Nat) (data2 : List α) : α :=
  let n1 : α := (sumL data1)
  let n2 : α := (sumL data2)
  if ((eqV n1 0) && (eqV n2 0)) then
    0
  else
    if ((eqV n1 0) || (eqV n2 0)) then
      ((100000000 : Nat) : α)
    else
      let log_b : α := 0
      let i1 : Nat := 0
      let i2 : Nat := 0
      let (i1, i2, log_b) := whileN (ind1.length + ind2.length + 1)
          (fun (st : Nat × Nat × α) =>
          let i1 := st.1
          let i2 := st.2.1
          let log_b := st.2.2
          ((decide (i1 < ind1.length)) && (decide (i2 < ind2.length))))
          (fun (st : Nat × Nat × α) =>
          let i1 := st.1
          let i2 := st.2.1
          let log_b := st.2.2
          let j1 : Nat := (ind1.getD i1 0)
          let j2 : Nat := (ind2.getD i2 0)
          let (log_b, i1, i2) := (
            if (j1 == j2) then
              let log_b := (
                if (!(eqV ((data1.getD i1 0) * (data2.getD i2 0)) 0)) then
                  let log_b := log_b + (logBeta T pi (data1.getD i1 0) (data2.getD i2 0))
                  log_b
                else
                  log_b)
              let i1 := i1 + 1
              let i2 := i2 + 1
              (log_b, i1, i2)
            else
              let (i1, i2) := (
                if j1 < j2 then
                  let i1 := i1 + 1
                  (i1, i2)
                else
                  let i2 := i2 + 1
                  (i1, i2))
              (log_b, i1, i2))
          (i1, i2, log_b))
          (i1, i2, log_b)
      let self_denom1 : α := 0
      let self_denom1 := (data1).foldl (fun (st : α) (d1 : α) =>
          let self_denom1 := st
          let self_denom1 := self_denom1 + (logSingleBeta T pi d1)
          self_denom1) self_denom1
      let self_denom2 : α := 0
      let self_denom2 := (data2).foldl (fun (st : α) (d2 : α) =>
          let self_denom2 := st
          let self_denom2 := self_denom2 + (logSingleBeta T pi d2)
          self_denom2) self_denom2
      (T.sqrt (maxV 0 (((1 / n2) * ((log_b - (logBeta T pi n1 n2)) - (self_denom2 - (logSingleBeta T pi n2)))) + ((1 / n1) * ((log_b - (logBeta T pi n2 n1)) - (self_denom1 - (logSingleBeta T pi n1)))))))

end
end SrcSparse
end Umap
