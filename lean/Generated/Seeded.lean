/- GENERATED from the live /repo package by harness/regen.py — do not edit.
   Observed on a tiny fit + transform: (seed kind, seeded?, n_jobs requested, n_jobs in force, parallel flag given to the
   layout stage in fit, parallel flag given to the layout optimiser in transform). -/
namespace Umap.Generated

def seededTable : List (String × Bool × Int × Int × Bool × Bool) := [
(("none", false, (1 : Int), (1 : Int), true, true)),
  (("none", false, (-1 : Int), (-1 : Int), true, true)),
  (("none", false, (4 : Int), (4 : Int), true, true)),
  (("zero", true, (1 : Int), (1 : Int), false, false)),
  (("zero", true, (-1 : Int), (1 : Int), false, false)),
  (("zero", true, (4 : Int), (1 : Int), false, false)),
  (("int", true, (1 : Int), (1 : Int), false, false)),
  (("int", true, (-1 : Int), (1 : Int), false, false)),
  (("int", true, (4 : Int), (1 : Int), false, false))]

end Umap.Generated
