/- GENERATED from the source text of umap/distances.py in the live /repo by harness/translate.py — do not edit.
   One Lean definition per numba kernel, obtained by a purely syntactic translation of the function's AST
   (loops -> folds over `List.range`, `x[i]` -> `x.getD i 0`, `e ** 2` -> `sq e`, float literals -> exact decimal
   fractions).  `UmapProps/C12Src.lean / C14Src.lean` proves each of them equal to the hand-written model the property theorems
   are about; a change to the source changes this file and that proof is re-checked. -/
import UmapModel.Scalar

set_option linter.unusedVariables false

namespace Umap
namespace Src

section
variable {α : Type} [Add α] [Sub α] [Mul α] [Div α] [Neg α] [LT α] [LE α]
  [DecidableLT α] [DecidableLE α] [OfNat α 0] [OfNat α 1] [NatCast α]

/-- `e ** 2` -/
def sq (a : α) : α := a * a
/-- `e ** 3` -/
def cube (a : α) : α := a * a * a
/-- a Python bool used as a number -/
def b2s (b : Bool) : α := if b then 1 else 0
/-- `range(lo, hi)` -/
def rangeFrom (lo hi : Nat) : List Nat := (List.range (hi - lo)).map (lo + ·)


/-- `sign` (umap/distances.py:15) -/
def sign (a : α) : α :=
  if a < 0 then
    (-1)
  else
    1

/-- `euclidean` (umap/distances.py:23) -/
def euclidean (T : Transc α) (x : List α) (y : List α) : α :=
  let result : α := 0
  let result := (List.range x.length).foldl (fun (st : α) (i : Nat) =>
      let result := st
      let result := result + (sq ((x.getD i 0) - (y.getD i 0)))
      result) result
  (T.sqrt result)

/-- `standardised_euclidean` (umap/distances.py:52) -/
def standardisedEuclidean (T : Transc α) (x : List α) (y : List α) (sigma : List α) : α :=
  let result : α := 0
  let result := (List.range x.length).foldl (fun (st : α) (i : Nat) =>
      let result := st
      let result := result + ((sq ((x.getD i 0) - (y.getD i 0))) / (sigma.getD i 0))
      result) result
  (T.sqrt result)

/-- `manhattan` (umap/distances.py:83) -/
def manhattan (x : List α) (y : List α) : α :=
  let result : α := 0
  let result := (List.range x.length).foldl (fun (st : α) (i : Nat) =>
      let result := st
      let result := result + (absV ((x.getD i 0) - (y.getD i 0)))
      result) result
  result

/-- `chebyshev` (umap/distances.py:112) -/
def chebyshev (x : List α) (y : List α) : α :=
  let result : α := 0
  let result := (List.range x.length).foldl (fun (st : α) (i : Nat) =>
      let result := st
      let result : α := (maxV result (absV ((x.getD i 0) - (y.getD i 0))))
      result) result
  result

/-- `minkowski` (umap/distances.py:146) -/
def minkowski (T : Transc α) (x : List α) (y : List α) (p : α) : α :=
  let result : α := 0
  let result := (List.range x.length).foldl (fun (st : α) (i : Nat) =>
      let result := st
      let result := result + (T.pow (absV ((x.getD i 0) - (y.getD i 0))) p)
      result) result
  (T.pow result (1 / p))

/-- `weighted_minkowski` (umap/distances.py:230) -/
def weightedMinkowski (T : Transc α) (x : List α) (y : List α) (w : List α) (p : α) : α :=
  let result : α := 0
  let result := (List.range x.length).foldl (fun (st : α) (i : Nat) =>
      let result := st
      let result := result + ((w.getD i 0) * (T.pow (absV ((x.getD i 0) - (y.getD i 0))) p))
      result) result
  (T.pow result (1 / p))

/-- `mahalanobis` (umap/distances.py:277) -/
def mahalanobis (T : Transc α) (x : List α) (y : List α) (vinv : List (List α)) : α :=
  let result : α := 0
  let diff : List α := (List.replicate x.length (0 : α))
  let diff := (List.range x.length).foldl (fun (st : (List α)) (i : Nat) =>
      let diff := st
      let diff := diff.set i ((x.getD i 0) - (y.getD i 0))
      diff) diff
  let result := (List.range x.length).foldl (fun (st : α) (i : Nat) =>
      let result := st
      let tmp : α := 0
      let tmp := (List.range x.length).foldl (fun (st : α) (j : Nat) =>
          let tmp := st
          let tmp := tmp + (((vinv.getD i []).getD j 0) * (diff.getD j 0))
          tmp) tmp
      let result := result + (tmp * (diff.getD i 0))
      result) result
  (T.sqrt result)

/-- `hamming` (umap/distances.py:316) -/
def hamming (x : List α) (y : List α) : α :=
  let result : α := 0
  let result := (List.range x.length).foldl (fun (st : α) (i : Nat) =>
      let result := st
      let result := (
        if (!(eqV (x.getD i 0) (y.getD i 0))) then
          let result := result + 1
          result
        else
          result)
      result) result
  (result / ((x.length : Nat) : α))

/-- `canberra` (umap/distances.py:326) -/
def canberra (x : List α) (y : List α) : α :=
  let result : α := 0
  let result := (List.range x.length).foldl (fun (st : α) (i : Nat) =>
      let result := st
      let denominator : α := ((absV (x.getD i 0)) + (absV (y.getD i 0)))
      let result := (
        if 0 < denominator then
          let result := result + ((absV ((x.getD i 0) - (y.getD i 0))) / denominator)
          result
        else
          result)
      result) result
  result

/-- `bray_curtis` (umap/distances.py:353) -/
def brayCurtis (x : List α) (y : List α) : α :=
  let numerator : α := 0
  let denominator : α := 0
  let (numerator, denominator) := (List.range x.length).foldl (fun (st : α × α) (i : Nat) =>
      let numerator := st.1
      let denominator := st.2
      let numerator := numerator + (absV ((x.getD i 0) - (y.getD i 0)))
      let denominator := denominator + (absV ((x.getD i 0) + (y.getD i 0)))
      (numerator, denominator)) (numerator, denominator)
  if 0 < denominator then
    (numerator / denominator)
  else
    0

/-- `jaccard` (umap/distances.py:385) -/
def jaccard (x : List α) (y : List α) : α :=
  let num_non_zero : α := 0
  let num_equal : α := 0
  let (num_non_zero, num_equal) := (List.range x.length).foldl (fun (st : α × α) (i : Nat) =>
      let num_non_zero := st.1
      let num_equal := st.2
      let x_true : Bool := (!(eqV (x.getD i 0) 0))
      let y_true : Bool := (!(eqV (y.getD i 0) 0))
      let num_non_zero := num_non_zero + (b2s (x_true || y_true))
      let num_equal := num_equal + (b2s (x_true && y_true))
      (num_non_zero, num_equal)) (num_non_zero, num_equal)
  if (eqV num_non_zero 0) then
    0
  else
    ((num_non_zero - num_equal) / num_non_zero)

/-- `matching` (umap/distances.py:401) -/
def matching (x : List α) (y : List α) : α :=
  let num_not_equal : α := 0
  let num_not_equal := (List.range x.length).foldl (fun (st : α) (i : Nat) =>
      let num_not_equal := st
      let x_true : Bool := (!(eqV (x.getD i 0) 0))
      let y_true : Bool := (!(eqV (y.getD i 0) 0))
      let num_not_equal := num_not_equal + (b2s (xor x_true y_true))
      num_not_equal) num_not_equal
  (num_not_equal / ((x.length : Nat) : α))

/-- `dice` (umap/distances.py:412) -/
def dice (x : List α) (y : List α) : α :=
  let num_true_true : α := 0
  let num_not_equal : α := 0
  let (num_true_true, num_not_equal) := (List.range x.length).foldl (fun (st : α × α) (i : Nat) =>
      let num_true_true := st.1
      let num_not_equal := st.2
      let x_true : Bool := (!(eqV (x.getD i 0) 0))
      let y_true : Bool := (!(eqV (y.getD i 0) 0))
      let num_true_true := num_true_true + (b2s (x_true && y_true))
      let num_not_equal := num_not_equal + (b2s (xor x_true y_true))
      (num_true_true, num_not_equal)) (num_true_true, num_not_equal)
  if (eqV num_not_equal 0) then
    0
  else
    (num_not_equal / ((((2 : Nat) : α) * num_true_true) + num_not_equal))

/-- `kulsinski` (umap/distances.py:428) -/
def kulsinski (x : List α) (y : List α) : α :=
  let num_true_true : α := 0
  let num_not_equal : α := 0
  let (num_true_true, num_not_equal) := (List.range x.length).foldl (fun (st : α × α) (i : Nat) =>
      let num_true_true := st.1
      let num_not_equal := st.2
      let x_true : Bool := (!(eqV (x.getD i 0) 0))
      let y_true : Bool := (!(eqV (y.getD i 0) 0))
      let num_true_true := num_true_true + (b2s (x_true && y_true))
      let num_not_equal := num_not_equal + (b2s (xor x_true y_true))
      (num_true_true, num_not_equal)) (num_true_true, num_not_equal)
  if (eqV num_not_equal 0) then
    0
  else
    (((num_not_equal - num_true_true) + ((x.length : Nat) : α)) / (num_not_equal + ((x.length : Nat) : α)))

/-- `rogers_tanimoto` (umap/distances.py:446) -/
def rogersTanimoto (x : List α) (y : List α) : α :=
  let num_not_equal : α := 0
  let num_not_equal := (List.range x.length).foldl (fun (st : α) (i : Nat) =>
      let num_not_equal := st
      let x_true : Bool := (!(eqV (x.getD i 0) 0))
      let y_true : Bool := (!(eqV (y.getD i 0) 0))
      let num_not_equal := num_not_equal + (b2s (xor x_true y_true))
      num_not_equal) num_not_equal
  ((((2 : Nat) : α) * num_not_equal) / (((x.length : Nat) : α) + num_not_equal))

/-- `russellrao` (umap/distances.py:457) -/
def russellrao (x : List α) (y : List α) : α :=
  let num_true_true : α := 0
  let num_true_true := (List.range x.length).foldl (fun (st : α) (i : Nat) =>
      let num_true_true := st
      let x_true : Bool := (!(eqV (x.getD i 0) 0))
      let y_true : Bool := (!(eqV (y.getD i 0) 0))
      let num_true_true := num_true_true + (b2s (x_true && y_true))
      num_true_true) num_true_true
  if ((eqV num_true_true (((x).countP (fun a => !(eqV a 0)) : Nat) : α)) && (eqV num_true_true (((y).countP (fun a => !(eqV a 0)) : Nat) : α))) then
    0
  else
    ((((x.length : Nat) : α) - num_true_true) / ((x.length : Nat) : α))

/-- `sokal_michener` (umap/distances.py:471) -/
def sokalMichener (x : List α) (y : List α) : α :=
  let num_not_equal : α := 0
  let num_not_equal := (List.range x.length).foldl (fun (st : α) (i : Nat) =>
      let num_not_equal := st
      let x_true : Bool := (!(eqV (x.getD i 0) 0))
      let y_true : Bool := (!(eqV (y.getD i 0) 0))
      let num_not_equal := num_not_equal + (b2s (xor x_true y_true))
      num_not_equal) num_not_equal
  ((((2 : Nat) : α) * num_not_equal) / (((x.length : Nat) : α) + num_not_equal))

/-- `sokal_sneath` (umap/distances.py:482) -/
def sokalSneath (x : List α) (y : List α) : α :=
  let num_true_true : α := 0
  let num_not_equal : α := 0
  let (num_true_true, num_not_equal) := (List.range x.length).foldl (fun (st : α × α) (i : Nat) =>
      let num_true_true := st.1
      let num_not_equal := st.2
      let x_true : Bool := (!(eqV (x.getD i 0) 0))
      let y_true : Bool := (!(eqV (y.getD i 0) 0))
      let num_true_true := num_true_true + (b2s (x_true && y_true))
      let num_not_equal := num_not_equal + (b2s (xor x_true y_true))
      (num_true_true, num_not_equal)) (num_true_true, num_not_equal)
  if (eqV num_not_equal 0) then
    0
  else
    (num_not_equal / (((1 / ((2 : Nat) : α)) * num_true_true) + num_not_equal))

/-- `haversine` (umap/distances.py:498) -/
def haversine (T : Transc α) (x : List α) (y : List α) : Option (α) :=
  if (x.length != 2) then
    none
  else
    let sin_lat : α := (T.sin ((1 / ((2 : Nat) : α)) * ((x.getD 0 0) - (y.getD 0 0))))
    let sin_long : α := (T.sin ((1 / ((2 : Nat) : α)) * ((x.getD 1 0) - (y.getD 1 0))))
    let result : α := (T.sqrt ((sq sin_lat) + (((T.cos (x.getD 0 0)) * (T.cos (y.getD 0 0))) * (sq sin_long))))
    some (((2 : Nat) : α) * (T.asin result))

/-- `yule` (umap/distances.py:538) -/
def yule (x : List α) (y : List α) : α :=
  let num_true_true : α := 0
  let num_true_false : α := 0
  let num_false_true : α := 0
  let (num_true_true, num_true_false, num_false_true) := (List.range x.length).foldl (fun (st : α × α × α) (i : Nat) =>
      let num_true_true := st.1
      let num_true_false := st.2.1
      let num_false_true := st.2.2
      let x_true : Bool := (!(eqV (x.getD i 0) 0))
      let y_true : Bool := (!(eqV (y.getD i 0) 0))
      let num_true_true := num_true_true + (b2s (x_true && y_true))
      let num_true_false := num_true_false + (b2s (x_true && (!y_true)))
      let num_false_true := num_false_true + (b2s ((!x_true) && y_true))
      (num_true_true, num_true_false, num_false_true)) (num_true_true, num_true_false, num_false_true)
  let num_false_false : α := (((((x.length : Nat) : α) - num_true_true) - num_true_false) - num_false_true)
  if ((eqV num_true_false 0) || (eqV num_false_true 0)) then
    0
  else
    (((((2 : Nat) : α) * num_true_false) * num_false_true) / ((num_true_true * num_false_false) + (num_true_false * num_false_true)))

/-- `cosine` (umap/distances.py:560) -/
def cosine (T : Transc α) (x : List α) (y : List α) : α :=
  let result : α := 0
  let norm_x : α := 0
  let norm_y : α := 0
  let (result, norm_x, norm_y) := (List.range x.length).foldl (fun (st : α × α × α) (i : Nat) =>
      let result := st.1
      let norm_x := st.2.1
      let norm_y := st.2.2
      let result := result + ((x.getD i 0) * (y.getD i 0))
      let norm_x := norm_x + (sq (x.getD i 0))
      let norm_y := norm_y + (sq (y.getD i 0))
      (result, norm_x, norm_y)) (result, norm_x, norm_y)
  if ((eqV norm_x 0) && (eqV norm_y 0)) then
    0
  else
    if ((eqV norm_x 0) || (eqV norm_y 0)) then
      1
    else
      (1 - (result / (T.sqrt (norm_x * norm_y))))

/-- `correlation` (umap/distances.py:601) -/
def correlation (T : Transc α) (x : List α) (y : List α) : α :=
  let mu_x : α := 0
  let mu_y : α := 0
  let norm_x : α := 0
  let norm_y : α := 0
  let dot_product : α := 0
  let (mu_x, mu_y) := (List.range x.length).foldl (fun (st : α × α) (i : Nat) =>
      let mu_x := st.1
      let mu_y := st.2
      let mu_x := mu_x + (x.getD i 0)
      let mu_y := mu_y + (y.getD i 0)
      (mu_x, mu_y)) (mu_x, mu_y)
  let mu_x := mu_x / ((x.length : Nat) : α)
  let mu_y := mu_y / ((x.length : Nat) : α)
  let (norm_x, norm_y, dot_product) := (List.range x.length).foldl (fun (st : α × α × α) (i : Nat) =>
      let norm_x := st.1
      let norm_y := st.2.1
      let dot_product := st.2.2
      let shifted_x : α := ((x.getD i 0) - mu_x)
      let shifted_y : α := ((y.getD i 0) - mu_y)
      let norm_x := norm_x + (sq shifted_x)
      let norm_y := norm_y + (sq shifted_y)
      let dot_product := dot_product + (shifted_x * shifted_y)
      (norm_x, norm_y, dot_product)) (norm_x, norm_y, dot_product)
  if ((eqV norm_x 0) && (eqV norm_y 0)) then
    0
  else
    if (eqV dot_product 0) then
      1
    else
      (1 - (dot_product / (T.sqrt (norm_x * norm_y))))

/-- `hellinger` (umap/distances.py:631) -/
def hellinger (T : Transc α) (x : List α) (y : List α) : α :=
  let result : α := 0
  let l1_norm_x : α := 0
  let l1_norm_y : α := 0
  let (result, l1_norm_x, l1_norm_y) := (List.range x.length).foldl (fun (st : α × α × α) (i : Nat) =>
      let result := st.1
      let l1_norm_x := st.2.1
      let l1_norm_y := st.2.2
      let result := result + (T.sqrt ((x.getD i 0) * (y.getD i 0)))
      let l1_norm_x := l1_norm_x + (x.getD i 0)
      let l1_norm_y := l1_norm_y + (y.getD i 0)
      (result, l1_norm_x, l1_norm_y)) (result, l1_norm_x, l1_norm_y)
  if ((eqV l1_norm_x 0) && (eqV l1_norm_y 0)) then
    0
  else
    if ((eqV l1_norm_x 0) || (eqV l1_norm_y 0)) then
      1
    else
      (T.sqrt (maxV (1 - (result / (T.sqrt (l1_norm_x * l1_norm_y)))) 0))

/-- `poincare` (umap/distances.py:193) -/
def poincare (T : Transc α) (u : List α) (v : List α) : α :=
  let sq_u_norm : α := (sumL (List.zipWith (fun a b => a * b) u u))
  let sq_v_norm : α := (sumL (List.zipWith (fun a b => a * b) v v))
  let sq_dist : α := (sumL (((List.zipWith (fun a b => a - b) u v)).map sq))
  (T.acosh (1 + (((2 : Nat) : α) * (sq_dist / ((1 - sq_u_norm) * (1 - sq_v_norm))))))

/-- `approx_log_Gamma` (umap/distances.py:694) -/
def approxLogGamma (T : Transc α) (pi : α) (x : α) : α :=
  if (eqV x 1) then
    0
  else
    ((((x * (T.log x)) - x) + ((1 / ((2 : Nat) : α)) * (T.log ((((2 : Nat) : α) * pi) / x)))) + (1 / (x * ((12 : Nat) : α))))

/-- `log_beta` (umap/distances.py:706) -/
def logBeta (T : Transc α) (pi : α) (x : α) (y : α) : α :=
  let a : α := (minV x y)
  let b : α := (maxV x y)
  if b < ((5 : Nat) : α) then
    let value : α := (-(T.log b))
    let value := (rangeFrom 1 ((T.trunc a)).toNat).foldl (fun (st : α) (i : Nat) =>
        let value := st
        let value := value + ((T.log ((i : Nat) : α)) - (T.log (b + ((i : Nat) : α))))
        value) value
    value
  else
    (((approxLogGamma T pi x) + (approxLogGamma T pi y)) - (approxLogGamma T pi (x + y)))

/-- `log_single_beta` (umap/distances.py:719) -/
def logSingleBeta (T : Transc α) (pi : α) (x : α) : α :=
  ((((T.log ((2 : Nat) : α)) * (((-((2 : Nat) : α)) * x) + (1 / ((2 : Nat) : α)))) + ((1 / ((2 : Nat) : α)) * (T.log ((((2 : Nat) : α) * pi) / x)))) + ((1 / ((8 : Nat) : α)) / x))

/-- `ll_dirichlet` (umap/distances.py:732) -/
def llDirichlet (T : Transc α) (pi : α) (data1 : List α) (data2 : List α) : α :=
  let n1 : α := (sumL data1)
  let n2 : α := (sumL data2)
  if ((eqV n1 0) && (eqV n2 0)) then
    0
  else
    if ((eqV n1 0) || (eqV n2 0)) then
      ((100000000 : Nat) : α)
    else
      let log_b : α := 0
      let self_denom1 : α := 0
      let self_denom2 : α := 0
      let (log_b, self_denom1, self_denom2) := (List.range data1.length).foldl (fun (st : α × α × α) (i : Nat) =>
          let log_b := st.1
          let self_denom1 := st.2.1
          let self_denom2 := st.2.2
          let (log_b, self_denom1, self_denom2) := (
            if (((9 : Nat) : α) / ((10 : Nat) : α)) < ((data1.getD i 0) * (data2.getD i 0)) then
              let log_b := log_b + (logBeta T pi (data1.getD i 0) (data2.getD i 0))
              let self_denom1 := self_denom1 + (logSingleBeta T pi (data1.getD i 0))
              let self_denom2 := self_denom2 + (logSingleBeta T pi (data2.getD i 0))
              (log_b, self_denom1, self_denom2)
            else
              let self_denom1 := (
                if (((9 : Nat) : α) / ((10 : Nat) : α)) < (data1.getD i 0) then
                  let self_denom1 := self_denom1 + (logSingleBeta T pi (data1.getD i 0))
                  self_denom1
                else
                  self_denom1)
              let self_denom2 := (
                if (((9 : Nat) : α) / ((10 : Nat) : α)) < (data2.getD i 0) then
                  let self_denom2 := self_denom2 + (logSingleBeta T pi (data2.getD i 0))
                  self_denom2
                else
                  self_denom2)
              (log_b, self_denom1, self_denom2))
          (log_b, self_denom1, self_denom2)) (log_b, self_denom1, self_denom2)
      (T.sqrt (maxV 0 (((1 / n2) * ((log_b - (logBeta T pi n1 n2)) - (self_denom2 - (logSingleBeta T pi n2)))) + ((1 / n1) * ((log_b - (logBeta T pi n2 n1)) - (self_denom1 - (logSingleBeta T pi n1)))))))

/-- `symmetric_kl` (umap/distances.py:780) -/
def symmetricKl (T : Transc α) (x : List α) (y : List α) (z : α) : α :=
  let n : Nat := x.length
  let x_sum : α := 0
  let y_sum : α := 0
  let kl1 : α := 0
  let kl2 : α := 0
  let (x_sum, y_sum) := (List.range n).foldl (fun (st : α × α) (i : Nat) =>
      let x_sum := st.1
      let y_sum := st.2
      let x_sum := x_sum + ((x.getD i 0) + z)
      let y_sum := y_sum + ((y.getD i 0) + z)
      (x_sum, y_sum)) (x_sum, y_sum)
  let (kl1, kl2) := (List.range n).foldl (fun (st : α × α) (i : Nat) =>
      let kl1 := st.1
      let kl2 := st.2
      let px : α := (((x.getD i 0) + z) / x_sum)
      let py : α := (((y.getD i 0) + z) / y_sum)
      let kl1 := kl1 + (px * (T.log (px / py)))
      let kl2 := kl2 + (py * (T.log (py / px)))
      (kl1, kl2)) (kl1, kl2)
  ((kl1 + kl2) / ((2 : Nat) : α))

/-- `euclidean_grad` (umap/distances.py:36) -/
def euclideanGrad (T : Transc α) (x : List α) (y : List α) : α × (List α) :=
  let result : α := 0
  let result := (List.range x.length).foldl (fun (st : α) (i : Nat) =>
      let result := st
      let result := result + (sq ((x.getD i 0) - (y.getD i 0)))
      result) result
  let d : α := (T.sqrt result)
  let grad : List α := (((List.zipWith (fun a b => a - b) x y)).map (fun a => a / ((1 / ((1000000 : Nat) : α)) + d)))
  (d, grad)

/-- `standardised_euclidean_grad` (umap/distances.py:67) -/
def standardisedEuclideanGrad (T : Transc α) (x : List α) (y : List α) (sigma : List α) : α × (List α) :=
  let result : α := 0
  let result := (List.range x.length).foldl (fun (st : α) (i : Nat) =>
      let result := st
      let result := result + ((sq ((x.getD i 0) - (y.getD i 0))) / (sigma.getD i 0))
      result) result
  let d : α := (T.sqrt result)
  let grad : List α := (List.zipWith (fun a b => a / b) (List.zipWith (fun a b => a - b) x y) ((((sigma).map (fun b => d * b))).map (fun b => (1 / ((1000000 : Nat) : α)) + b)))
  (d, grad)

/-- `manhattan_grad` (umap/distances.py:97) -/
def manhattanGrad (x : List α) (y : List α) : α × (List α) :=
  let result : α := 0
  let grad : List α := (List.replicate x.length (0 : α))
  let (result, grad) := (List.range x.length).foldl (fun (st : α × (List α)) (i : Nat) =>
      let result := st.1
      let grad := st.2
      let result := result + (absV ((x.getD i 0) - (y.getD i 0)))
      let grad := grad.set i (signV ((x.getD i 0) - (y.getD i 0)))
      (result, grad)) (result, grad)
  (result, grad)

/-- `chebyshev_grad` (umap/distances.py:126) -/
def chebyshevGrad (x : List α) (y : List α) : α × (List α) :=
  let result : α := 0
  let max_i : Nat := 0
  let (result, max_i) := (List.range x.length).foldl (fun (st : α × Nat) (i : Nat) =>
      let result := st.1
      let max_i := st.2
      let v : α := (absV ((x.getD i 0) - (y.getD i 0)))
      let (result, max_i) := (
        if result < v then
          let result : α := v
          let max_i : Nat := i
          (result, max_i)
        else
          (result, max_i))
      (result, max_i)) (result, max_i)
  let grad : List α := (List.replicate x.length (0 : α))
  let grad := grad.set max_i (signV ((x.getD max_i 0) - (y.getD max_i 0)))
  (result, grad)

/-- `minkowski_grad` (umap/distances.py:165) -/
def minkowskiGrad (T : Transc α) (x : List α) (y : List α) (p : α) : α × (List α) :=
  let result : α := 0
  let result := (List.range x.length).foldl (fun (st : α) (i : Nat) =>
      let result := st
      let result := result + (T.pow (absV ((x.getD i 0) - (y.getD i 0))) p)
      result) result
  let scale := (
    if 0 < result then
      let scale : α := (T.pow result ((1 / p) - 1))
      scale
    else
      let scale : α := 0
      scale)
  let grad : List α := (List.replicate x.length (0 : α))
  let grad := (List.range x.length).foldl (fun (st : (List α)) (i : Nat) =>
      let grad := st
      let grad := grad.set i (((T.pow (absV ((x.getD i 0) - (y.getD i 0))) (p - 1)) * (signPM ((x.getD i 0) - (y.getD i 0)))) * scale)
      grad) grad
  ((T.pow result (1 / p)), grad)

/-- `weighted_minkowski_grad` (umap/distances.py:248) -/
def weightedMinkowskiGrad (T : Transc α) (x : List α) (y : List α) (w : List α) (p : α) : α × (List α) :=
  let result : α := 0
  let result := (List.range x.length).foldl (fun (st : α) (i : Nat) =>
      let result := st
      let result := result + ((w.getD i 0) * (T.pow (absV ((x.getD i 0) - (y.getD i 0))) p))
      result) result
  let scale := (
    if 0 < result then
      let scale : α := (T.pow result ((1 / p) - 1))
      scale
    else
      let scale : α := 0
      scale)
  let grad : List α := (List.replicate x.length (0 : α))
  let grad := (List.range x.length).foldl (fun (st : (List α)) (i : Nat) =>
      let grad := st
      let grad := grad.set i ((((w.getD i 0) * (T.pow (absV ((x.getD i 0) - (y.getD i 0))) (p - 1))) * (signPM ((x.getD i 0) - (y.getD i 0)))) * scale)
      grad) grad
  ((T.pow result (1 / p)), grad)

/-- `mahalanobis_grad` (umap/distances.py:295) -/
def mahalanobisGrad (T : Transc α) (x : List α) (y : List α) (vinv : List (List α)) : α × (List α) :=
  let result : α := 0
  let diff : List α := (List.replicate x.length (0 : α))
  let diff := (List.range x.length).foldl (fun (st : (List α)) (i : Nat) =>
      let diff := st
      let diff := diff.set i ((x.getD i 0) - (y.getD i 0))
      diff) diff
  let grad_tmp : List α := (List.replicate x.length (0 : α))
  let (grad_tmp, result) := (List.range x.length).foldl (fun (st : (List α) × α) (i : Nat) =>
      let grad_tmp := st.1
      let result := st.2
      let tmp : α := 0
      let (tmp, grad_tmp) := (List.range x.length).foldl (fun (st : α × (List α)) (j : Nat) =>
          let tmp := st.1
          let grad_tmp := st.2
          let tmp := tmp + (((vinv.getD i []).getD j 0) * (diff.getD j 0))
          let grad_tmp := grad_tmp.set i ((grad_tmp.getD i 0) + (((vinv.getD i []).getD j 0) * (diff.getD j 0)))
          (tmp, grad_tmp)) (tmp, grad_tmp)
      let result := result + (tmp * (diff.getD i 0))
      (grad_tmp, result)) (grad_tmp, result)
  let dist : α := (T.sqrt result)
  let grad : List α := ((grad_tmp).map (fun a => a / ((1 / ((1000000 : Nat) : α)) + dist)))
  (dist, grad)

/-- `canberra_grad` (umap/distances.py:337) -/
def canberraGrad (x : List α) (y : List α) : α × (List α) :=
  let result : α := 0
  let grad : List α := (List.replicate x.length (0 : α))
  let (result, grad) := (List.range x.length).foldl (fun (st : α × (List α)) (i : Nat) =>
      let result := st.1
      let grad := st.2
      let denominator : α := ((absV (x.getD i 0)) + (absV (y.getD i 0)))
      let (result, grad) := (
        if 0 < denominator then
          let result := result + ((absV ((x.getD i 0) - (y.getD i 0))) / denominator)
          let grad := grad.set i (((signV ((x.getD i 0) - (y.getD i 0))) / denominator) - (((absV ((x.getD i 0) - (y.getD i 0))) * (signV (x.getD i 0))) / (sq denominator)))
          (result, grad)
        else
          (result, grad))
      (result, grad)) (result, grad)
  (result, grad)

/-- `bray_curtis_grad` (umap/distances.py:367) -/
def brayCurtisGrad (x : List α) (y : List α) : α × (List α) :=
  let numerator : α := 0
  let denominator : α := 0
  let (numerator, denominator) := (List.range x.length).foldl (fun (st : α × α) (i : Nat) =>
      let numerator := st.1
      let denominator := st.2
      let numerator := numerator + (absV ((x.getD i 0) - (y.getD i 0)))
      let denominator := denominator + (absV ((x.getD i 0) + (y.getD i 0)))
      (numerator, denominator)) (numerator, denominator)
  let (dist, grad) := (
    if 0 < denominator then
      let dist : α := (numerator / denominator)
      let grad : List α := (((List.zipWith (fun a b => a - b) (((List.zipWith (fun a b => a - b) x y)).map signV) (((((List.zipWith (fun a b => a + b) x y)).map signV)).map (fun b => dist * b)))).map (fun a => a / denominator))
      (dist, grad)
    else
      let dist : α := 0
      let grad : List α := (List.replicate x.length (0 : α))
      (dist, grad))
  (dist, grad)

/-- `cosine_grad` (umap/distances.py:578) -/
def cosineGrad (T : Transc α) (x : List α) (y : List α) : α × (List α) :=
  let result : α := 0
  let norm_x : α := 0
  let norm_y : α := 0
  let (result, norm_x, norm_y) := (List.range x.length).foldl (fun (st : α × α × α) (i : Nat) =>
      let result := st.1
      let norm_x := st.2.1
      let norm_y := st.2.2
      let result := result + ((x.getD i 0) * (y.getD i 0))
      let norm_x := norm_x + (sq (x.getD i 0))
      let norm_y := norm_y + (sq (y.getD i 0))
      (result, norm_x, norm_y)) (result, norm_x, norm_y)
  let (dist, grad) := (
    if ((eqV norm_x 0) && (eqV norm_y 0)) then
      let dist : α := 0
      let grad : List α := (List.replicate x.length (0 : α))
      (dist, grad)
    else
      let (dist, grad) := (
        if ((eqV norm_x 0) || (eqV norm_y 0)) then
          let dist : α := 1
          let grad : List α := (List.replicate x.length (0 : α))
          (dist, grad)
        else
          let grad : List α := (((List.zipWith (fun a b => a - b) ((x).map (fun a => a * result)) ((y).map (fun a => a * norm_x)))).map (fun a => a / (T.sqrt ((cube norm_x) * norm_y))))
          let dist : α := (1 - (result / (T.sqrt (norm_x * norm_y))))
          (dist, grad))
      (dist, grad))
  (dist, grad)

/-- `correlation_grad` (umap/distances.py:840) -/
def correlationGrad (T : Transc α) (x : List α) (y : List α) : α × (List α) :=
  let mu_x : α := 0
  let mu_y : α := 0
  let norm_x : α := 0
  let norm_y : α := 0
  let dot_product : α := 0
  let (mu_x, mu_y) := (List.range x.length).foldl (fun (st : α × α) (i : Nat) =>
      let mu_x := st.1
      let mu_y := st.2
      let mu_x := mu_x + (x.getD i 0)
      let mu_y := mu_y + (y.getD i 0)
      (mu_x, mu_y)) (mu_x, mu_y)
  let mu_x := mu_x / ((x.length : Nat) : α)
  let mu_y := mu_y / ((x.length : Nat) : α)
  let (norm_x, norm_y, dot_product) := (List.range x.length).foldl (fun (st : α × α × α) (i : Nat) =>
      let norm_x := st.1
      let norm_y := st.2.1
      let dot_product := st.2.2
      let shifted_x : α := ((x.getD i 0) - mu_x)
      let shifted_y : α := ((y.getD i 0) - mu_y)
      let norm_x := norm_x + (sq shifted_x)
      let norm_y := norm_y + (sq shifted_y)
      let dot_product := dot_product + (shifted_x * shifted_y)
      (norm_x, norm_y, dot_product)) (norm_x, norm_y, dot_product)
  let (dist, grad) := (
    if ((eqV norm_x 0) && (eqV norm_y 0)) then
      let dist : α := 0
      let grad : List α := (List.replicate x.length (0 : α))
      (dist, grad)
    else
      let (dist, grad) := (
        if ((eqV norm_x 0) || (eqV norm_y 0)) then
          let dist : α := 1
          let grad : List α := (List.replicate x.length (0 : α))
          (dist, grad)
        else
          let norm : α := (T.sqrt (norm_x * norm_y))
          let cos : α := (dot_product / norm)
          let dist : α := (1 - cos)
          let grad : List α := (List.zipWith (fun a b => a - b) ((((x).map (fun a => a - mu_x))).map (fun a => a * (cos / norm_x))) ((((y).map (fun a => a - mu_y))).map (fun a => a / norm)))
          (dist, grad))
      (dist, grad))
  (dist, grad)

/-- `hellinger_grad` (umap/distances.py:651) -/
def hellingerGrad (T : Transc α) (x : List α) (y : List α) : α × (List α) :=
  let result : α := 0
  let l1_norm_x : α := 0
  let l1_norm_y : α := 0
  let grad_term : List α := (List.replicate x.length (0 : α))
  let (grad_term, result, l1_norm_x, l1_norm_y) := (List.range x.length).foldl (fun (st : (List α) × α × α × α) (i : Nat) =>
      let grad_term := st.1
      let result := st.2.1
      let l1_norm_x := st.2.2.1
      let l1_norm_y := st.2.2.2
      let grad_term := grad_term.set i (T.sqrt ((x.getD i 0) * (y.getD i 0)))
      let result := result + (grad_term.getD i 0)
      let l1_norm_x := l1_norm_x + (x.getD i 0)
      let l1_norm_y := l1_norm_y + (y.getD i 0)
      (grad_term, result, l1_norm_x, l1_norm_y)) (grad_term, result, l1_norm_x, l1_norm_y)
  let (dist, grad) := (
    if ((eqV l1_norm_x 0) && (eqV l1_norm_y 0)) then
      let dist : α := 0
      let grad : List α := (List.replicate x.length (0 : α))
      (dist, grad)
    else
      let (dist, grad) := (
        if ((eqV l1_norm_x 0) || (eqV l1_norm_y 0)) then
          let dist : α := 1
          let grad : List α := (List.replicate x.length (0 : α))
          (dist, grad)
        else
          let dist_denom : α := (T.sqrt (l1_norm_x * l1_norm_y))
          let dist : α := (T.sqrt (maxV (1 - (result / dist_denom)) 0))
          let grad := (
            if (eqV dist 0) then
              let grad : List α := (List.replicate x.length (0 : α))
              grad
            else
              let grad_denom : α := (((2 : Nat) : α) * dist)
              let grad_numer_const : α := ((l1_norm_y * result) / (((2 : Nat) : α) * (cube dist_denom)))
              let grad : List α := (List.replicate x.length (0 : α))
              let grad := (List.range x.length).foldl (fun (st : (List α)) (i : Nat) =>
                  let grad := st
                  let root_term := (
                    if (eqV (y.getD i 0) 0) then
                      let root_term : α := 0
                      root_term
                    else
                      let root_term : α := ((y.getD i 0) / ((((2 : Nat) : α) * (grad_term.getD i 0)) * dist_denom))
                      root_term)
                  let grad := grad.set i ((grad_numer_const - root_term) / grad_denom)
                  grad) grad
              grad)
          (dist, grad))
      (dist, grad))
  (dist, grad)

/-- `haversine_grad` (umap/distances.py:508) -/
def haversineGrad (T : Transc α) (pi : α) (x : List α) (y : List α) : Option (α × (List α)) :=
  if (x.length != 2) then
    none
  else
    let sin_lat : α := (T.sin ((1 / ((2 : Nat) : α)) * ((x.getD 0 0) - (y.getD 0 0))))
    let cos_lat : α := (T.cos ((1 / ((2 : Nat) : α)) * ((x.getD 0 0) - (y.getD 0 0))))
    let sin_long : α := (T.sin ((1 / ((2 : Nat) : α)) * ((x.getD 1 0) - (y.getD 1 0))))
    let cos_long : α := (T.cos ((1 / ((2 : Nat) : α)) * ((x.getD 1 0) - (y.getD 1 0))))
    let a_0 : α := (((T.cos ((x.getD 0 0) + (pi / ((2 : Nat) : α)))) * (T.cos ((y.getD 0 0) + (pi / ((2 : Nat) : α))))) * (sq sin_long))
    let a_1 : α := (a_0 + (sq sin_lat))
    let d : α := (((2 : Nat) : α) * (T.asin (T.sqrt (minV (maxV (absV a_1) 0) 1))))
    let denom : α := ((T.sqrt (absV (a_1 - 1))) * (T.sqrt (absV a_1)))
    let grad : List α := (([((sin_lat * cos_lat) - (((T.sin ((x.getD 0 0) + (pi / ((2 : Nat) : α)))) * (T.cos ((y.getD 0 0) + (pi / ((2 : Nat) : α))))) * (sq sin_long))), ((((T.cos ((x.getD 0 0) + (pi / ((2 : Nat) : α)))) * (T.cos ((y.getD 0 0) + (pi / ((2 : Nat) : α))))) * sin_long) * cos_long)]).map (fun a => a / (denom + (1 / ((1000000 : Nat) : α)))))
    some (d, grad)

/-- `hyperboloid_grad` (umap/distances.py:207) -/
def hyperboloidGrad (T : Transc α) (x : List α) (y : List α) : α × (List α) :=
  let s : α := (T.sqrt (1 + (sumL ((x).map sq))))
  let t : α := (T.sqrt (1 + (sumL ((y).map sq))))
  let B : α := (s * t)
  let B := (List.range x.length).foldl (fun (st : α) (i : Nat) =>
      let B := st
      let B := B - ((x.getD i 0) * (y.getD i 0))
      B) B
  let B := (
    if B ≤ 1 then
      let B : α := (1 + (1 / ((100000000 : Nat) : α)))
      B
    else
      B)
  let grad_coeff : α := (1 / ((T.sqrt (B - 1)) * (T.sqrt (B + 1))))
  let grad : List α := (List.replicate x.length (0 : α))
  let grad := (List.range x.length).foldl (fun (st : (List α)) (i : Nat) =>
      let grad := st
      let grad := grad.set i (grad_coeff * ((((x.getD i 0) * t) / s) - (y.getD i 0)))
      grad) grad
  ((T.acosh B), grad)

/-- `symmetric_kl_grad` (umap/distances.py:808) -/
def symmetricKlGrad (T : Transc α) (x : List α) (y : List α) (z : α) : α × (List α) :=
  let n : Nat := x.length
  let x_sum : α := 0
  let y_sum : α := 0
  let kl1 : α := 0
  let kl2 : α := 0
  let (x_sum, y_sum) := (List.range n).foldl (fun (st : α × α) (i : Nat) =>
      let x_sum := st.1
      let y_sum := st.2
      let x_sum := x_sum + ((x.getD i 0) + z)
      let y_sum := y_sum + ((y.getD i 0) + z)
      (x_sum, y_sum)) (x_sum, y_sum)
  let px : List α := ((((x).map (fun a => a + z))).map (fun a => a / x_sum))
  let py : List α := ((((y).map (fun a => a + z))).map (fun a => a / y_sum))
  let (kl1, kl2) := (List.range n).foldl (fun (st : α × α) (i : Nat) =>
      let kl1 := st.1
      let kl2 := st.2
      let kl1 := kl1 + ((px.getD i 0) * (T.log ((px.getD i 0) / (py.getD i 0))))
      let kl2 := kl2 + ((py.getD i 0) * (T.log ((py.getD i 0) / (px.getD i 0))))
      (kl1, kl2)) (kl1, kl2)
  let dist : α := ((kl1 + kl2) / ((2 : Nat) : α))
  let grad_p : List α := (((((List.zipWith (fun a b => a - b) (((List.zipWith (fun a b => a / b) px py)).map T.log) (List.zipWith (fun a b => a / b) py px))).map (fun a => a + 1))).map (fun a => a / ((2 : Nat) : α)))
  let grad : List α := ((((grad_p).map (fun a => a - (sumL (List.zipWith (fun a b => a * b) px grad_p))))).map (fun a => a / x_sum))
  (dist, grad)

/-- `spherical_gaussian_energy_grad` (umap/distances.py:905) -/
def sphericalGaussianEnergyGrad (T : Transc α) (pi : α) (x : List α) (y : List α) : α × (List α) :=
  let mu_1 : α := ((x.getD 0 0) - (y.getD 0 0))
  let mu_2 : α := ((x.getD 1 0) - (y.getD 1 0))
  let sigma : α := ((absV (x.getD 2 0)) + (absV (y.getD 2 0)))
  let sign_sigma : α := (signV (x.getD 2 0))
  let dist : α := (((((sq mu_1) + (sq mu_2)) / (((2 : Nat) : α) * sigma)) + (T.log sigma)) + (T.log (((2 : Nat) : α) * pi)))
  let grad : List α := (List.replicate 3 (0 : α))
  let grad := grad.set 0 (mu_1 / sigma)
  let grad := grad.set 1 (mu_2 / sigma)
  let grad := grad.set 2 (sign_sigma * ((1 / sigma) - (((sq mu_1) + (sq mu_2)) / (((2 : Nat) : α) * (sq sigma)))))
  (dist, grad)

/-- `diagonal_gaussian_energy_grad` (umap/distances.py:923) -/
def diagonalGaussianEnergyGrad (T : Transc α) (pi : α) (x : List α) (y : List α) : α × (List α) :=
  let mu_1 : α := ((x.getD 0 0) - (y.getD 0 0))
  let mu_2 : α := ((x.getD 1 0) - (y.getD 1 0))
  let sigma_11 : α := ((absV (x.getD 2 0)) + (absV (y.getD 2 0)))
  let sigma_12 : α := 0
  let sigma_22 : α := ((absV (x.getD 3 0)) + (absV (y.getD 3 0)))
  let det : α := (sigma_11 * sigma_22)
  let sign_s1 : α := (signV (x.getD 2 0))
  let sign_s2 : α := (signV (x.getD 3 0))
  if (eqV det 0) then
    (((sq mu_1) + (sq mu_2)), [0, 0, 1, 1])
  else
    let cross_term : α := (((2 : Nat) : α) * sigma_12)
    let m_dist : α := ((((absV sigma_22) * (sq mu_1)) - ((cross_term * mu_1) * mu_2)) + ((absV sigma_11) * (sq mu_2)))
    let dist : α := ((((m_dist / det) + (T.log (absV det))) / ((2 : Nat) : α)) + (T.log (((2 : Nat) : α) * pi)))
    let grad : List α := (List.replicate 4 (0 : α))
    let grad := grad.set 0 ((((((2 : Nat) : α) * sigma_22) * mu_1) - (cross_term * mu_2)) / (((2 : Nat) : α) * det))
    let grad := grad.set 1 ((((((2 : Nat) : α) * sigma_11) * mu_2) - (cross_term * mu_1)) / (((2 : Nat) : α) * det))
    let grad := grad.set 2 ((sign_s1 * ((sigma_22 * (det - m_dist)) + (det * (sq mu_2)))) / (((2 : Nat) : α) * (sq det)))
    let grad := grad.set 3 ((sign_s2 * ((sigma_11 * (det - m_dist)) + (det * (sq mu_1)))) / (((2 : Nat) : α) * (sq det)))
    (dist, grad)

end
end Src
end Umap
