/- GENERATED from the source text of umap/umap_.py in the live /repo by harness/translate.py — do not edit.
   One Lean definition per numba kernel, obtained by a purely syntactic translation of the function's AST
   (loops -> folds over `List.range`, `x[i]` -> `x.getD i 0`, `e ** 2` -> `sq e`, float literals -> exact decimal
   fractions).  `UmapProps/C01Src / C10Src / C11Src / C16Src / C18Src` proves each of them equal to the hand-written model the property theorems
   are about; a change to the source changes this file and that proof is re-checked. -/
import UmapModel.Scalar

set_option linter.unusedVariables false

namespace Umap
namespace SrcUmap

section
variable {α : Type} [Add α] [Sub α] [Mul α] [Div α] [Neg α] [LT α] [LE α]
  [DecidableLT α] [DecidableLE α] [OfNat α 0] [OfNat α 1] [NatCast α]

/-- `e ** 2` -/
def sq (a : α) : α := a * a
/-- `e ** 3` -/
def cube (a : α) : α := a * a * a
/-- a Python bool used as a number -/
def b2s (b : Bool) : α := if b then 1 else 0
/-- `range(lo, hi)` -/
def rangeFrom (lo hi : Nat) : List Nat := (List.range (hi - lo)).map (lo + ·)


/-- `_finite_mean` (umap/umap_.py:167) -/
def finiteMean (infv : α) (values : List α) : α :=
  let total : α := 0
  let count : Nat := 0
  let (total, count) := (values).foldl (fun (st : α × Nat) (v : α) =>
      let total := st.1
      let count := st.2
      let (total, count) := (
        if ((decide (v < infv)) && (decide ((-infv) < v))) then
          let total := total + v
          let count := count + 1
          (total, count)
        else
          (total, count))
      (total, count)) (total, count)
  if (count == 0) then
    0
  else
    (total / ((count : Nat) : α))

/-- `fast_intersection` (umap/umap_.py:660) -/
def fastIntersection (T : Transc α) (rows : List Nat) (cols : List Nat) (values : List α) (target : List Int) (unknown_dist : α) (far_dist : α) : List α :=
  let values := (List.range rows.length).foldl (fun (st : (List α)) (nz : Nat) =>
      let values := st
      let i : Nat := (rows.getD nz 0)
      let j : Nat := (cols.getD nz 0)
      let values := (
        if (((target.getD i 0) == (-1 : Int)) || ((target.getD j 0) == (-1 : Int))) then
          let values := values.set nz ((values.getD nz 0) * (T.exp (-unknown_dist)))
          values
        else
          let values := (
            if ((target.getD i 0) != (target.getD j 0)) then
              let values := values.set nz ((values.getD nz 0) * (T.exp (-far_dist)))
              values
            else
              values)
          values)
      values) values
  values

/-- `reprocess_row` (umap/umap_.py:746) -/
def reprocessRow (T : Transc α) (infv : α) (probabilities : List α) (k : α) (n_iters : Nat) : List α :=
  let target : α := ((T.log k) / (T.log ((2 : Nat) : α)))
  let lo : α := 0
  let hi : α := infv
  let mid : α := 1
  let brk0_ : Bool := false
  let (hi, mid, lo, brk0_) := (List.range n_iters).foldl (fun (st : α × α × α × Bool) (n : Nat) =>
      let hi := st.1
      let mid := st.2.1
      let lo := st.2.2.1
      let brk0_ := st.2.2.2
      if brk0_ then (hi, mid, lo, brk0_) else
        let psum : α := 0
        let psum := (List.range probabilities.length).foldl (fun (st : α) (j : Nat) =>
            let psum := st
            let psum := psum + (T.pow (probabilities.getD j 0) mid)
            psum) psum
        if (absV (psum - target)) < (1 / ((100000 : Nat) : α)) then
          let brk0_ : Bool := true
          (hi, mid, lo, brk0_)
        else
          let (hi, mid, lo) := (
            if psum < target then
              let hi : α := mid
              let mid : α := ((lo + hi) / ((2 : Nat) : α))
              (hi, mid, lo)
            else
              let lo : α := mid
              let mid := (
                if (eqV hi infv) then
                  let mid := mid * ((2 : Nat) : α)
                  mid
                else
                  let mid : α := ((lo + hi) / ((2 : Nat) : α))
                  mid)
              (hi, mid, lo))
          (hi, mid, lo, brk0_)) (hi, mid, lo, brk0_)
  ((probabilities).map (fun a => T.pow a mid))

/-- `init_transform` (umap/umap_.py:1363) -/
def initTransform (indices : List (List Nat)) (weights : List (List α)) (embedding : List (List α)) : List (List α) :=
  let result : List (List α) := (List.replicate indices.length (List.replicate ((embedding).getD 0 []).length (0 : α)))
  let result := (List.range indices.length).foldl (fun (st : (List (List α))) (i : Nat) =>
      let result := st
      let result := (List.range ((indices).getD 0 []).length).foldl (fun (st : (List (List α))) (j : Nat) =>
          let result := st
          let result := (List.range ((embedding).getD 0 []).length).foldl (fun (st : (List (List α))) (d : Nat) =>
              let result := st
              let result := result.set i ((result.getD i []).set d (((result.getD i []).getD d 0) + (((weights.getD i []).getD j 0) * ((embedding.getD ((indices.getD i []).getD j 0) []).getD d 0))))
              result) result
          result) result
      result) result
  result

/-- `init_update` (umap/umap_.py:1437) -/
def initUpdate (current_init : List (List α)) (n_original_samples : Nat) (indices : List (List Nat)) : List (List α) :=
  let current_init := (rangeFrom n_original_samples indices.length).foldl (fun (st : (List (List α))) (i : Nat) =>
      let current_init := st
      let n : Nat := 0
      let (n, current_init) := (List.range ((indices).getD 0 []).length).foldl (fun (st : Nat × (List (List α))) (j : Nat) =>
          let n := st.1
          let current_init := st.2
          let (n, current_init) := (List.range ((current_init).getD 0 []).length).foldl (fun (st : Nat × (List (List α))) (d : Nat) =>
              let n := st.1
              let current_init := st.2
              let (n, current_init) := (
                if ((indices.getD i []).getD j 0) < n_original_samples then
                  let n := n + 1
                  let current_init := current_init.set i ((current_init.getD i []).set d (((current_init.getD i []).getD d 0) + ((current_init.getD ((indices.getD i []).getD j 0) []).getD d 0)))
                  (n, current_init)
                else
                  (n, current_init))
              (n, current_init)) (n, current_init)
          (n, current_init)) (n, current_init)
      let current_init := (
        if n > 0 then
          let current_init := (List.range ((current_init).getD 0 []).length).foldl (fun (st : (List (List α))) (d : Nat) =>
              let current_init := st
              let current_init := current_init.set i ((current_init.getD i []).set d (((current_init.getD i []).getD d 0) / ((n : Nat) : α)))
              current_init) current_init
          current_init
        else
          current_init)
      current_init) current_init
  current_init

/-- `compute_membership_strengths` (umap/umap_.py:400) -/
def computeMembershipStrengths (T : Transc α) (knn_indices : List (List Int)) (knn_dists : List (List α)) (sigmas : List α) (rhos : List α) (return_dists : Bool) (bipartite : Bool) : (List Int) × (List Int) × (List α) × (List α) :=
  let n_samples : Nat := knn_indices.length
  let n_neighbors : Nat := ((knn_indices).getD 0 []).length
  let rows : List Int := (List.replicate ((knn_indices).length * ((knn_indices).getD 0 []).length) (0 : Int))
  let cols : List Int := (List.replicate ((knn_indices).length * ((knn_indices).getD 0 []).length) (0 : Int))
  let vals : List α := (List.replicate ((knn_indices).length * ((knn_indices).getD 0 []).length) (0 : α))
  let dists := (
    if return_dists then
      let dists : List α := (List.replicate ((knn_indices).length * ((knn_indices).getD 0 []).length) (0 : α))
      dists
    else
      let dists : List α := ([] : List α)
      dists)
  let (rows, cols, vals, dists) := (List.range n_samples).foldl (fun (st : (List Int) × (List Int) × (List α) × (List α)) (i : Nat) =>
      let rows := st.1
      let cols := st.2.1
      let vals := st.2.2.1
      let dists := st.2.2.2
      let (rows, cols, vals, dists) := (List.range n_neighbors).foldl (fun (st : (List Int) × (List Int) × (List α) × (List α)) (j : Nat) =>
          let rows := st.1
          let cols := st.2.1
          let vals := st.2.2.1
          let dists := st.2.2.2
          if (((knn_indices.getD i []).getD j 0) == (-1 : Int)) then
            (rows, cols, vals, dists)
          else
            let val := (
              if ((!bipartite) && (((knn_indices.getD i []).getD j 0) == ((i : Nat) : Int))) then
                let val : α := 0
                val
              else
                let val := (
                  if ((decide ((((knn_dists.getD i []).getD j 0) - (rhos.getD i 0)) ≤ 0)) || (eqV (sigmas.getD i 0) 0)) then
                    let val : α := 1
                    val
                  else
                    let val : α := (T.exp (-((((knn_dists.getD i []).getD j 0) - (rhos.getD i 0)) / (sigmas.getD i 0))))
                    val)
                val)
            let rows := rows.set ((i * n_neighbors) + j) ((i : Nat) : Int)
            let cols := cols.set ((i * n_neighbors) + j) ((knn_indices.getD i []).getD j 0)
            let vals := vals.set ((i * n_neighbors) + j) val
            let dists := (
              if return_dists then
                let dists := dists.set ((i * n_neighbors) + j) ((knn_dists.getD i []).getD j 0)
                dists
              else
                dists)
            (rows, cols, vals, dists)) (rows, cols, vals, dists)
      (rows, cols, vals, dists)) (rows, cols, vals, dists)
  (rows, cols, vals, dists)

end
end SrcUmap
end Umap
