/- GENERATED from the source text of umap/layouts.py in the live /repo by harness/translate.py — do not edit.
   One Lean definition per numba kernel, obtained by a purely syntactic translation of the function's AST
   (loops -> folds over `List.range`, `x[i]` -> `x.getD i 0`, `e ** 2` -> `sq e`, float literals -> exact decimal
   fractions).  `UmapProps/C07Src.lean` proves each of them equal to the hand-written model the property theorems
   are about; a change to the source changes this file and that proof is re-checked. -/
import UmapModel.Scalar

set_option linter.unusedVariables false

namespace Umap
namespace SrcLayout

section
variable {α : Type} [Add α] [Sub α] [Mul α] [Div α] [Neg α] [LT α] [LE α]
  [DecidableLT α] [DecidableLE α] [OfNat α 0] [OfNat α 1] [NatCast α]

/-- `e ** 2` -/
def sq (a : α) : α := a * a
/-- `e ** 3` -/
def cube (a : α) : α := a * a * a
/-- a Python bool used as a number -/
def b2s (b : Bool) : α := if b then 1 else 0
/-- `range(lo, hi)` -/
def rangeFrom (lo hi : Nat) : List Nat := (List.range (hi - lo)).map (lo + ·)


/-- `clip` (umap/layouts.py:10) -/
def clip (val : α) : α :=
  if ((4 : Nat) : α) < val then
    ((4 : Nat) : α)
  else
    if val < (-((4 : Nat) : α)) then
      (-((4 : Nat) : α))
    else
      val

/-- `rdist` (umap/layouts.py:42) -/
def rdist (x : List α) (y : List α) : α :=
  let result : α := 0
  let dim : Nat := x.length
  let result := (List.range dim).foldl (fun (st : α) (i : Nat) =>
      let result := st
      let diff : α := ((x.getD i 0) - (y.getD i 0))
      let result := result + (diff * diff)
      result) result
  result

end
end SrcLayout
end Umap
