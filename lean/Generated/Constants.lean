/- GENERATED from the live /repo package by harness/regen.py — do not edit. -/
namespace Umap.Generated

def smoothKTolerance : Rat := ((5902958103587057 : Rat) / 590295810358705651712)
def minKDistScale : Rat := ((1152921504606847 : Rat) / 1152921504606846976)
def smoothKnnNIter : Nat := 64
def reprocessNIters : Nat := 32
def reprocessK : Nat := 15
def int32Min : Int := -2147483647
def int32Max : Int := 2147483646
def disconnectionDistances : List (String × Rat) := [("bit_jaccard", ((1 : Rat) / 1)), ("correlation", ((2 : Rat) / 1)), ("cosine", ((2 : Rat) / 1)), ("dice", ((1 : Rat) / 1)), ("hellinger", ((1 : Rat) / 1)), ("jaccard", ((1 : Rat) / 1))]

end Umap.Generated
