/- GENERATED from the source text of umap/utils.py in the live /repo by harness/translate.py — do not edit.
   One Lean definition per numba kernel, obtained by a purely syntactic translation of the function's AST
   (loops -> folds over `List.range`, `x[i]` -> `x.getD i 0`, `e ** 2` -> `sq e`, float literals -> exact decimal
   fractions).  `UmapProps/C07Src.lean` proves each of them equal to the hand-written model the property theorems
   are about; a change to the source changes this file and that proof is re-checked. -/
import UmapModel.Scalar

set_option linter.unusedVariables false

namespace Umap
namespace SrcUtils

section
variable {α : Type} [Add α] [Sub α] [Mul α] [Div α] [Neg α] [LT α] [LE α]
  [DecidableLT α] [DecidableLE α] [OfNat α 0] [OfNat α 1] [NatCast α]

/-- `e ** 2` -/
def sq (a : α) : α := a * a
/-- `e ** 3` -/
def cube (a : α) : α := a * a * a
/-- a Python bool used as a number -/
def b2s (b : Bool) : α := if b then 1 else 0
/-- `range(lo, hi)` -/
def rangeFrom (lo hi : Nat) : List Nat := (List.range (hi - lo)).map (lo + ·)


/-- `tau_rand_int` (umap/utils.py:41) -/
def tauRandInt (state : List (BitVec 64)) : Int × (List (BitVec 64)) :=
  let state := state.set 0 (((((state.getD 0 0) &&& 4294967294#64) <<< 12) &&& 4294967295#64) ^^^ ((((((state.getD 0 0) <<< 13) &&& 4294967295#64) ^^^ (state.getD 0 0))).sshiftRight 19))
  let state := state.set 1 (((((state.getD 1 0) &&& 4294967288#64) <<< 4) &&& 4294967295#64) ^^^ ((((((state.getD 1 0) <<< 2) &&& 4294967295#64) ^^^ (state.getD 1 0))).sshiftRight 25))
  let state := state.set 2 (((((state.getD 2 0) &&& 4294967280#64) <<< 17) &&& 4294967295#64) ^^^ ((((((state.getD 2 0) <<< 3) &&& 4294967295#64) ^^^ (state.getD 2 0))).sshiftRight 11))
  ((((((state.getD 0 0) ^^^ (state.getD 1 0)) ^^^ (state.getD 2 0))).truncate 32 : BitVec 32).toInt, state)

end
end SrcUtils
end Umap
