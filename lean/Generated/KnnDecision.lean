/- GENERATED from the live /repo package by harness/regen.py — do not edit.
   Observed behaviour of UMAP._validate_parameters on the precomputed_knn abstraction grid:
   (cols, k, rows, n, force) ↦ (ignored, columns used, force flag afterwards). -/
namespace Umap.Generated

def knnDecisionTable : List (Nat × Nat × Nat × Nat × Bool × (Bool × Nat × Bool)) := [
((3, 5, 30, 30, false, (true, 0, false))),
  ((3, 5, 30, 30, true, (true, 0, true))),
  ((3, 5, 30, 31, false, (true, 0, false))),
  ((3, 5, 30, 31, true, (true, 0, true))),
  ((3, 5, 4096, 4096, false, (true, 0, false))),
  ((3, 5, 4096, 4096, true, (true, 0, true))),
  ((3, 5, 4096, 4000, false, (true, 0, false))),
  ((3, 5, 4096, 4000, true, (true, 0, true))),
  ((5, 5, 30, 30, false, (false, 5, true))),
  ((5, 5, 30, 30, true, (false, 5, true))),
  ((5, 5, 30, 31, false, (true, 0, false))),
  ((5, 5, 30, 31, true, (true, 0, true))),
  ((5, 5, 4096, 4096, false, (false, 5, false))),
  ((5, 5, 4096, 4096, true, (false, 5, true))),
  ((5, 5, 4096, 4000, false, (true, 0, false))),
  ((5, 5, 4096, 4000, true, (true, 0, true))),
  ((8, 5, 30, 30, false, (false, 5, true))),
  ((8, 5, 30, 30, true, (false, 5, true))),
  ((8, 5, 30, 31, false, (true, 0, false))),
  ((8, 5, 30, 31, true, (true, 0, true))),
  ((8, 5, 4096, 4096, false, (false, 5, false))),
  ((8, 5, 4096, 4096, true, (false, 5, true))),
  ((8, 5, 4096, 4000, false, (true, 0, false))),
  ((8, 5, 4096, 4000, true, (true, 0, true)))]

end Umap.Generated
