/-
  SrcDriver — line protocol over the *translated* kernels (Generated/DistSrc.lean run at `Float`), built as `srcdrv`.
  Used to validate the translator: the harness runs the Python function itself (`.py_func`, float64) and this
  executable on the same inputs and compares.  One operation per line:
      <python function name> <nargs> { s <bits> | v <len> <bits…> | m <rows> <cols> <bits…> | n <nat> | i <len> <nat…> }…
  answers the bit patterns of the result (`d g_0 g_1 …` for gradient kernels), `none` for a raised error,
  `bad-op` for anything malformed or a function that is not in the translated table.
-/
import Generated.DistSrcRun
import Generated.SparseSrcRun
import Generated.LayoutSrcRun
import Generated.UmapSrcRun

open Umap SrcRun

def parseArgs (t : Array String) : Option (List Arg) := Id.run do
  let mut i := 2
  let mut out : Array Arg := #[]
  let nargs := (t[1]!).toNat!
  for _ in [0:nargs] do
    let k := t[i]!
    if k == "s" then
      out := out.push (.s (Float.ofBits (t[i+1]!).toNat!.toUInt64)); i := i + 2
    else if k == "n" then
      out := out.push (.n (t[i+1]!).toNat!); i := i + 2
    else if k == "i" then
      let len := (t[i+1]!).toNat!
      let mut v : Array Nat := #[]
      for j in [0:len] do v := v.push (t[i+2+j]!).toNat!
      out := out.push (.i v.toList); i := i + 2 + len
    else if k == "z" then
      let len := (t[i+1]!).toNat!
      let mut v : Array Int := #[]
      for j in [0:len] do v := v.push (t[i+2+j]!).toInt!
      out := out.push (.z v.toList); i := i + 2 + len
    else if k == "b" then
      out := out.push (.b ((t[i+1]!) == "1")); i := i + 2
    else if k == "zm" then
      let r := (t[i+1]!).toNat!
      let c := (t[i+2]!).toNat!
      let mut rows : Array (List Int) := #[]
      for a in [0:r] do
        let mut v : Array Int := #[]
        for j in [0:c] do v := v.push (t[i+3+a*c+j]!).toInt!
        rows := rows.push v.toList
      out := out.push (.zm rows.toList); i := i + 3 + r * c
    else if k == "im" then
      let r := (t[i+1]!).toNat!
      let c := (t[i+2]!).toNat!
      let mut rows : Array (List Nat) := #[]
      for a in [0:r] do
        let mut v : Array Nat := #[]
        for j in [0:c] do v := v.push (t[i+3+a*c+j]!).toNat!
        rows := rows.push v.toList
      out := out.push (.im rows.toList); i := i + 3 + r * c
    else if k == "v" then
      let len := (t[i+1]!).toNat!
      let mut v : Array Float := #[]
      for j in [0:len] do v := v.push (Float.ofBits (t[i+2+j]!).toNat!.toUInt64)
      out := out.push (.v v.toList); i := i + 2 + len
    else if k == "m" then
      let r := (t[i+1]!).toNat!
      let c := (t[i+2]!).toNat!
      let mut rows : Array (List Float) := #[]
      for a in [0:r] do
        let mut v : Array Float := #[]
        for j in [0:c] do v := v.push (Float.ofBits (t[i+3+a*c+j]!).toNat!.toUInt64)
        rows := rows.push v.toList
      out := out.push (.m rows.toList); i := i + 3 + r * c
    else return none
  return some out.toList

def wellFormed (t : Array String) : Bool :=
  t.size ≥ 2 && (t.toList.drop 1).all (fun s => s == "s" || s == "v" || s == "m" || s == "n" || s == "i" || s == "z" || s == "im" || s == "zm" || s == "b" || s.toInt?.isSome || s.toNat?.isSome)

def step (line : String) : String :=
  let t := (line.trimAscii.toString.splitOn " ").toArray
  if !wellFormed t then "bad-op" else
  match parseArgs t with
  | some a =>
    let r := run t[0]! a
    let r := if r == ["bad-op"] then runSparse t[0]! a else r
    let r := if r == ["bad-op"] then runLayout t[0]! a else r
    " ".intercalate (if r == ["bad-op"] then runUmap t[0]! a else r)
  | none => "bad-op"

partial def loop (h : IO.FS.Stream) : IO Unit := do
  let line ← h.getLine
  if line.isEmpty then return ()
  IO.println (step line)
  loop h

def main : IO Unit := do loop (← IO.getStdin)
