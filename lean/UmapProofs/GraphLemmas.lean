/-
  UmapProofs.GraphLemmas — lemmas about COO matrices (`lookup`, `positions`, `elimZeros`,
  `symmetrize`) shared by C04 / C16 / C18.
-/
import UmapProofs.Basic
import Mathlib.Tactic

namespace Umap
namespace Graph

variable {K : Type} [Field K] [LinearOrder K] [IsStrictOrderedRing K]

/-! ### positions -/

theorem mem_positions (A : Coo K) (i j : Nat) : (i, j) ∈ positions A ↔ ∃ v, (i, j, v) ∈ A := by
  unfold positions
  simp only [List.mem_eraseDups, List.mem_map, Prod.exists, Prod.mk.injEq]
  constructor
  · rintro ⟨a, b, v, h, rfl, rfl⟩; exact ⟨v, h⟩
  · rintro ⟨v, h⟩; exact ⟨i, j, v, h, rfl, rfl⟩

theorem nodup_eraseDups {β : Type} [BEq β] [LawfulBEq β] (l : List β) : l.eraseDups.Nodup := by
  induction h : l.length using Nat.strong_induction_on generalizing l with
  | _ n ih =>
    cases l with
    | nil => simp
    | cons a as =>
      rw [List.eraseDups_cons, List.nodup_cons]
      refine ⟨?_, ?_⟩
      · simp [List.mem_eraseDups, List.mem_filter]
      · apply ih (as.filter fun b => !b == a).length ?_ _ rfl
        subst h
        exact Nat.lt_succ_of_le (List.length_filter_le _ _)

theorem nodup_positions (A : Coo K) : (positions A).Nodup := nodup_eraseDups _

/-- `eraseDups` does nothing on a duplicate-free list. -/
theorem eraseDups_of_nodup {β : Type} [BEq β] [LawfulBEq β] (l : List β) (h : l.Nodup) :
    l.eraseDups = l := by
  induction l with
  | nil => simp
  | cons a as ih =>
    rw [List.nodup_cons] at h
    rw [List.eraseDups_cons]
    have hf : as.filter (fun b => !b == a) = as := by
      rw [List.filter_eq_self]
      intro b hb
      simp only [Bool.not_eq_eq_eq_not, Bool.not_true, beq_eq_false_iff_ne, ne_eq]
      rintro rfl; exact h.1 hb
    rw [hf, ih h.2]

/-! ### lookup -/

@[simp] theorem lookup_nil (i j : Nat) : lookup ([] : Coo K) i j = 0 := by
  simp [lookup]

theorem lookup_cons (t : Nat × Nat × K) (A : Coo K) (i j : Nat) :
    lookup (t :: A) i j = (if t.1 = i ∧ t.2.1 = j then t.2.2 else 0) + lookup A i j := by
  unfold lookup
  by_cases h : t.1 = i ∧ t.2.1 = j
  · have : (t.1 == i && t.2.1 == j) = true := by simp [h]
    rw [List.filter_cons_of_pos (p := fun t : Nat × Nat × K => t.1 == i && t.2.1 == j) this,
      List.map_cons, sumL_cons, if_pos h]
  · have : ¬ (t.1 == i && t.2.1 == j) = true := by simpa using h
    rw [List.filter_cons_of_neg (p := fun t : Nat × Nat × K => t.1 == i && t.2.1 == j) this,
      if_neg h, zero_add]

/-- a non-zero matrix value comes from a stored non-zero triple. -/
theorem lookup_ne_zero_mem (A : Coo K) (i j : Nat) (h : lookup A i j ≠ 0) :
    ∃ v, (i, j, v) ∈ A := by
  induction A with
  | nil => simp at h
  | cons t A ih =>
    rw [lookup_cons] at h
    by_cases ht : t.1 = i ∧ t.2.1 = j
    · obtain ⟨rfl, rfl⟩ := ht
      exact ⟨t.2.2, List.mem_cons_self⟩
    · rw [if_neg ht, zero_add] at h
      obtain ⟨v, hv⟩ := ih h
      exact ⟨v, List.mem_cons_of_mem _ hv⟩

theorem lookup_ne_zero_positions (A : Coo K) (i j : Nat) (h : lookup A i j ≠ 0) :
    (i, j) ∈ positions A := (mem_positions A i j).2 (lookup_ne_zero_mem A i j h)

/-- dropping stored zeros does not change the matrix. -/
theorem lookup_elimZeros (A : Coo K) (i j : Nat) : lookup (elimZeros A) i j = lookup A i j := by
  induction A with
  | nil => simp [elimZeros]
  | cons t A ih =>
    unfold elimZeros at ih ⊢
    by_cases hz : t.2.2 = 0
    · have : ¬ (!isZero t.2.2) = true := by simp [hz]
      rw [List.filter_cons_of_neg (p := fun t : Nat × Nat × K => !isZero t.2.2) this, ih,
        lookup_cons, hz]; simp
    · have : (!isZero t.2.2) = true := by
        cases hq : isZero t.2.2 with
        | false => rfl
        | true => exact absurd ((isZero_iff _).1 hq) hz
      rw [List.filter_cons_of_pos (p := fun t : Nat × Nat × K => !isZero t.2.2) this,
        lookup_cons, lookup_cons, ih]

/-- scaling every stored value by a factor that depends only on the position scales the matrix. -/
theorem lookup_map_scale (f : Nat → Nat → K) (A : Coo K) (i j : Nat) :
    lookup (A.map (fun t => (t.1, t.2.1, t.2.2 * f t.1 t.2.1))) i j = lookup A i j * f i j := by
  induction A with
  | nil => simp
  | cons t A ih =>
    rw [List.map_cons, lookup_cons, lookup_cons, ih]
    by_cases ht : t.1 = i ∧ t.2.1 = j
    · obtain ⟨rfl, rfl⟩ := ht
      simp only [and_self, if_true]; ring
    · simp only [if_neg ht]; ring

/-- non-negative stored values give non-negative matrix values. -/
theorem lookup_nonneg (A : Coo K) (h : ∀ t ∈ A, 0 ≤ t.2.2) (i j : Nat) : 0 ≤ lookup A i j := by
  induction A with
  | nil => simp
  | cons t A ih =>
    rw [lookup_cons]
    have h1 : 0 ≤ t.2.2 := h t List.mem_cons_self
    have h2 := ih (fun u hu => h u (List.mem_cons_of_mem _ hu))
    split_ifs <;> linarith

/-- no position is stored twice. -/
def NoDup (A : Coo K) : Prop := (A.map (fun t => (t.1, t.2.1))).Nodup

theorem lookup_eq_zero_of_not_mem (A : Coo K) (i j : Nat) (h : ∀ v, (i, j, v) ∉ A) :
    lookup A i j = 0 := by
  by_contra hc
  obtain ⟨v, hv⟩ := lookup_ne_zero_mem A i j hc
  exact h v hv

/-- without duplicates the matrix value is the stored value. -/
theorem lookup_of_mem_nodup (A : Coo K) (hA : NoDup A) (i j : Nat) (v : K) (h : (i, j, v) ∈ A) :
    lookup A i j = v := by
  induction A with
  | nil => simp at h
  | cons t A ih =>
    unfold NoDup at hA
    rw [List.map_cons, List.nodup_cons] at hA
    rw [lookup_cons]
    rcases List.mem_cons.1 h with rfl | h'
    · simp only [and_self, if_true]
      rw [lookup_eq_zero_of_not_mem, add_zero]
      intro w hw
      exact hA.1 (List.mem_map.2 ⟨_, hw, rfl⟩)
    · have : ¬ (t.1 = i ∧ t.2.1 = j) := by
        rintro ⟨rfl, rfl⟩
        exact hA.1 (List.mem_map.2 ⟨_, h', rfl⟩)
      rw [if_neg this, zero_add]
      exact ih hA.2 h'

/-! ### symmetrize -/

theorem mem_symmetrize_iff (r : K) (A : Coo K) (i j : Nat) (v : K) :
    (i, j, v) ∈ symmetrize r A ↔
      (i, j) ∈ positions (A ++ transposeC A) ∧ v = mix r (lookup A i j) (lookup A j i) ∧ v ≠ 0 := by
  unfold symmetrize elimZeros
  simp only [List.mem_filter, List.mem_map, Prod.exists, Bool.not_eq_true',
    Bool.not_eq_eq_eq_not, Bool.not_true, Prod.mk.injEq]
  constructor
  · rintro ⟨⟨a, b, hp, rfl, rfl, rfl⟩, hz⟩
    refine ⟨hp, rfl, ?_⟩
    intro h0
    rw [(isZero_iff _).2 h0] at hz
    exact Bool.noConfusion hz
  · rintro ⟨hp, rfl, hne⟩
    refine ⟨⟨i, j, hp, rfl, rfl, rfl⟩, ?_⟩
    cases hz : isZero (mix r (lookup A i j) (lookup A j i)) with
    | false => rfl
    | true => exact absurd ((isZero_iff _).1 hz) hne

theorem mem_positions_symm (A : Coo K) (i j : Nat) :
    (i, j) ∈ positions (A ++ transposeC A) ↔ (∃ v, (i, j, v) ∈ A) ∨ (∃ v, (j, i, v) ∈ A) := by
  rw [mem_positions]
  unfold transposeC
  simp only [List.mem_append, List.mem_map, Prod.mk.injEq, Prod.exists]
  constructor
  · rintro ⟨v, h | ⟨a, b, c, h, rfl, rfl, rfl⟩⟩
    · exact Or.inl ⟨v, h⟩
    · exact Or.inr ⟨_, h⟩
  · rintro (⟨v, h⟩ | ⟨v, h⟩)
    · exact ⟨v, Or.inl h⟩
    · exact ⟨v, Or.inr ⟨j, i, v, h, rfl, rfl, rfl⟩⟩

/-- a non-zero blend at a position where one directed strength is non-zero is stored. -/
theorem mem_symmetrize_of_ne (r : K) (A : Coo K) (i j : Nat)
    (hs : lookup A i j ≠ 0 ∨ lookup A j i ≠ 0)
    (hm : mix r (lookup A i j) (lookup A j i) ≠ 0) :
    (i, j, mix r (lookup A i j) (lookup A j i)) ∈ symmetrize r A := by
  rw [mem_symmetrize_iff]
  refine ⟨?_, rfl, hm⟩
  rw [mem_positions_symm]
  rcases hs with h | h
  · exact Or.inl (lookup_ne_zero_mem A i j h)
  · exact Or.inr (lookup_ne_zero_mem A j i h)

end Graph

/-! ### running maximum / minimum -/

section
variable {K : Type} [Field K] [LinearOrder K] [IsStrictOrderedRing K]

theorem maxL_cons (init x : K) (xs : List K) :
    maxL init (x :: xs) = maxL (if init < x then x else init) xs := rfl

theorem minL_cons (init x : K) (xs : List K) :
    minL init (x :: xs) = minL (if x < init then x else init) xs := rfl

theorem maxL_ge_init (init : K) (xs : List K) : init ≤ maxL init xs := by
  induction xs generalizing init with
  | nil => exact le_refl _
  | cons x xs ih =>
    rw [maxL_cons]
    refine le_trans ?_ (ih _)
    split_ifs with h
    · exact le_of_lt h
    · exact le_refl _

theorem le_maxL (init : K) (xs : List K) (x : K) (hx : x ∈ xs) : x ≤ maxL init xs := by
  induction xs generalizing init with
  | nil => simp at hx
  | cons y xs ih =>
    rw [maxL_cons]
    rcases List.mem_cons.1 hx with rfl | h
    · refine le_trans ?_ (maxL_ge_init _ _)
      split_ifs with h
      · exact le_refl _
      · exact not_lt.1 h
    · exact ih _ h

theorem maxL_mem (init : K) (xs : List K) : maxL init xs = init ∨ maxL init xs ∈ xs := by
  induction xs generalizing init with
  | nil => exact Or.inl rfl
  | cons y xs ih =>
    rw [maxL_cons]
    rcases ih (if init < y then y else init) with h | h
    · rw [h]
      split_ifs
      · exact Or.inr List.mem_cons_self
      · exact Or.inl rfl
    · exact Or.inr (List.mem_cons_of_mem _ h)

theorem minL_mem (init : K) (xs : List K) : minL init xs = init ∨ minL init xs ∈ xs := by
  induction xs generalizing init with
  | nil => exact Or.inl rfl
  | cons y xs ih =>
    rw [minL_cons]
    rcases ih (if y < init then y else init) with h | h
    · rw [h]
      split_ifs
      · exact Or.inr List.mem_cons_self
      · exact Or.inl rfl
    · exact Or.inr (List.mem_cons_of_mem _ h)

/-- the running minimum satisfies every predicate satisfied by all the candidates. -/
theorem minL_pred (P : K → Prop) (init : K) (xs : List K) (h0 : P init) (h : ∀ x ∈ xs, P x) :
    P (minL init xs) := by
  rcases minL_mem init xs with e | e
  · rw [e]; exact h0
  · exact h _ e

end
end Umap
