/-
  UmapProofs.UmapSrcLemmas — list / loop lemmas for the kernels of `Generated/UmapSrc.lean`
  (in-place updates of one slot of an array, nested `set` loops, loops with an invariant).
  Nothing here needs any algebra on the scalars.
-/
import UmapProofs.SrcLemmas
import Mathlib.Data.List.Basic
import Mathlib.Data.List.Zip
import Mathlib.Data.List.Range

namespace Umap
namespace UmapSrcLemmas
open SrcLemmas

variable {α β γ δ σ : Type}

/-- writing back what was read is a no-op -/
theorem set_getD_self (st : List β) (i : Nat) (d : β) : st.set i (st.getD i d) = st := by
  apply List.ext_getElem?
  intro j
  rw [List.getElem?_set]
  by_cases hj : i = j
  · subst hj
    by_cases hi : i < st.length
    · simp [hi, List.getD_eq_getElem?_getD]
    · simp [hi]
  · simp [hj]

theorem getD_set_self (st : List β) (i : Nat) (v d : β) (hi : i < st.length) :
    (st.set i v).getD i d = v := by
  simp [List.getD_eq_getElem?_getD, hi]

theorem getD_set_ne (st : List β) (i j : Nat) (v d : β) (hij : i ≠ j) :
    (st.set i v).getD j d = st.getD j d := by
  simp [List.getD_eq_getElem?_getD, hij]

/-- a loop that keeps rewriting slot `i` of an array is a loop on the slot's content -/
theorem foldl_slot (F : γ → β → β) (l : List γ) (i : Nat) (d : β) (st : List β) :
    l.foldl (fun st x => st.set i (F x (st.getD i d))) st
      = st.set i (l.foldl (fun r x => F x r) (st.getD i d)) := by
  induction l generalizing st with
  | nil => exact (set_getD_self st i d).symm
  | cons x l ih =>
    simp only [List.foldl_cons]
    rw [ih]
    by_cases hi : i < st.length
    · rw [getD_set_self _ _ _ _ hi, List.set_set]
    · have h1 : ∀ v, st.set i v = st := fun v => List.set_eq_of_length_le (by omega)
      rw [h1, h1, h1]

theorem length_foldl_set_any (G : List β → γ → Nat × β) (l : List γ) (s : List β) :
    (l.foldl (fun st x => st.set (G st x).1 (G st x).2) s).length = s.length := by
  induction l generalizing s with
  | nil => rfl
  | cons x l ih => simp only [List.foldl_cons]; rw [ih]; simp

/-- a loop that rewrites slot `i` at step `i` (each slot once) is an indexed map -/
theorem getElem?_foldl_range_set_self (H : Nat → β → β) (d : β) (k : Nat) (st : List β) (j : Nat) :
    ((List.range k).foldl (fun st i => st.set i (H i (st.getD i d))) st)[j]?
      = if j < k then st[j]?.map (H j) else st[j]? := by
  induction k with
  | zero => simp
  | succ k ih =>
    rw [List.range_succ, List.foldl_append]
    simp only [List.foldl_cons, List.foldl_nil]
    rw [List.getElem?_set]
    by_cases hj : k = j
    · subst hj
      simp only [if_true, Nat.lt_succ_self]
      rw [length_foldl_set_any (fun st i => (i, H i (st.getD i d)))]
      by_cases hk : k < st.length
      · have : ((List.range k).foldl (fun st i => st.set i (H i (st.getD i d))) st).getD k d
            = st.getD k d := by
          rw [List.getD_eq_getElem?_getD, ih, if_neg (Nat.lt_irrefl k), List.getD_eq_getElem?_getD]
        rw [this]
        simp [hk, List.getD_eq_getElem?_getD]
      · have : st[k]? = none := by simp; omega
        simp [hk]
    · rw [if_neg hj, ih]
      have : j < k + 1 ↔ j < k := by omega
      simp [this]

theorem foldl_range_set_self (H : Nat → β → β) (d : β) (st : List β) (n : Nat) (hn : st.length = n) :
    (List.range n).foldl (fun st i => st.set i (H i (st.getD i d))) st
      = (List.range n).map (fun i => H i (st.getD i d)) := by
  apply List.ext_getElem?
  intro j
  rw [getElem?_foldl_range_set_self]
  by_cases hj : j < n
  · have hj' : j < st.length := by omega
    simp [hj, hj', List.getD_eq_getElem?_getD]
  · have : st[j]? = none := by simp; omega
    simp [hj, this]

/-- replace the body of a loop by another one that agrees with it on the states satisfying an invariant -/
theorem foldl_congr_inv (P : σ → Prop) (f g : σ → γ → σ) (l : List γ) (s : σ) (h0 : P s)
    (hstep : ∀ s x, x ∈ l → P s → f s x = g s x ∧ P (g s x)) :
    l.foldl f s = l.foldl g s ∧ P (l.foldl g s) := by
  induction l generalizing s with
  | nil => exact ⟨rfl, h0⟩
  | cons x l ih =>
    simp only [List.foldl_cons]
    obtain ⟨e, hp⟩ := hstep s x (by simp) h0
    rw [e]
    exact ih _ hp (fun s y hy hs => hstep s y (by simp [hy]) hs)

/-- a guarded loop is a loop over the filtered list -/
theorem foldl_filter' (p : γ → Bool) (f : σ → γ → σ) (l : List γ) (s : σ) :
    (l.filter p).foldl f s = l.foldl (fun a x => if p x then f a x else a) s := by
  induction l generalizing s with
  | nil => rfl
  | cons x l ih =>
    by_cases hp : p x <;> simp [hp, ih]

theorem getD_map_range (n : Nat) (g : Nat → β) (d : Nat) (z : β) (hd : d < n) :
    ((List.range n).map g).getD d z = g d := by
  simp [List.getD_eq_getElem?_getD, hd]

/-- `for j in js: for d in range(dim): r[d] += c j d` computes, in every coordinate, the left-to-right sum -/
theorem row_accum [Add α] (l : List γ) (c : γ → Nat → α) (dim : Nat) (z : α) (r0 : List α)
    (hr : r0.length = dim) :
    l.foldl (fun r j => (List.range dim).foldl (fun r d => r.set d (r.getD d z + c j d)) r) r0
      = (List.range dim).map (fun d => l.foldl (fun acc j => acc + c j d) (r0.getD d z)) := by
  induction l generalizing r0 with
  | nil =>
    simp only [List.foldl_nil]
    apply List.ext_getElem
    · simp [hr]
    · intro i h1 h2
      simp [List.getD_eq_getElem?_getD, h1]
  | cons j l ih =>
    simp only [List.foldl_cons]
    rw [foldl_range_set_self (fun d v => v + c j d) z r0 dim hr, ih _ (by simp)]
    apply List.map_congr_left
    intro d hd
    rw [getD_map_range _ _ _ _ (List.mem_range.mp hd)]

/-- the triple loop `for i: for j: for d: a[i][d] += c i j d` on a zero matrix -/
theorem foldl_accum3 [Add α] (c : Nat → Nat → Nat → α) (N k dim : Nat) (z : α) :
    (List.range N).foldl (fun st i =>
        (List.range k).foldl (fun st j =>
          (List.range dim).foldl (fun st d =>
            st.set i ((st.getD i []).set d ((st.getD i []).getD d z + c i j d))) st) st)
        (List.replicate N (List.replicate dim z))
      = (List.range N).map (fun i => (List.range dim).map (fun d =>
          (List.range k).foldl (fun acc j => acc + c i j d) z)) := by
  have e1 : ∀ (i j : Nat) (st : List (List α)),
      (List.range dim).foldl (fun st d =>
            st.set i ((st.getD i []).set d ((st.getD i []).getD d z + c i j d))) st
        = st.set i ((List.range dim).foldl (fun r d => r.set d (r.getD d z + c i j d)) (st.getD i [])) :=
    fun i j st => foldl_slot (fun d r => r.set d (r.getD d z + c i j d)) _ i [] st
  simp only [e1]
  have e2 : ∀ (i : Nat) (st : List (List α)),
      (List.range k).foldl (fun st j =>
          st.set i ((List.range dim).foldl (fun r d => r.set d (r.getD d z + c i j d)) (st.getD i []))) st
        = st.set i ((List.range k).foldl (fun r j =>
            (List.range dim).foldl (fun r d => r.set d (r.getD d z + c i j d)) r) (st.getD i [])) :=
    fun i st => foldl_slot
      (fun j r => (List.range dim).foldl (fun r d => r.set d (r.getD d z + c i j d)) r) _ i [] st
  simp only [e2]
  rw [foldl_range_set_self (fun i r => (List.range k).foldl (fun r j =>
            (List.range dim).foldl (fun r d => r.set d (r.getD d z + c i j d)) r) r) [] _ N (by simp)]
  apply List.map_congr_left
  intro i hi
  have hi' : i < N := List.mem_range.mp hi
  have h0 : (List.replicate N (List.replicate dim z)).getD i [] = List.replicate dim z := by
    simp [List.getD_eq_getElem?_getD, hi']
  rw [h0, row_accum _ (c i) dim z _ (by simp)]
  apply List.map_congr_left
  intro d hd
  have hd' : d < dim := List.mem_range.mp hd
  have : (List.replicate dim z).getD d z = z := by simp [List.getD_eq_getElem?_getD, hd']
  rw [this]

theorem foldl_id (l : List γ) (s : σ) : l.foldl (fun s _ => s) s = s := by
  induction l with
  | nil => rfl
  | cons x l ih => simp only [List.foldl_cons]; exact ih

theorem foldl_count (l : List γ) (n0 : Nat) : l.foldl (fun n _ => n + 1) n0 = n0 + l.length := by
  induction l generalizing n0 with
  | nil => rfl
  | cons x l ih => simp only [List.foldl_cons, List.length_cons]; rw [ih]; omega

theorem map_range_getD_self (r : List β) (dim : Nat) (z : β) (hr : r.length = dim) :
    (List.range dim).map (fun d => r.getD d z) = r := by
  apply List.ext_getElem
  · simp [hr]
  · intro i h1 h2
    simp [List.getD_eq_getElem?_getD, h2]

/-- `for d in range(dim): n += 1; a[i][d] += o d` -/
theorem d_loop [Add α] (o : Nat → α) (z : α) (i dim n0 : Nat) (st : List (List α))
    (hr : (st.getD i []).length = dim) :
    (List.range dim).foldl (fun (s : Nat × List (List α)) d =>
        (s.1 + 1, s.2.set i ((s.2.getD i []).set d ((s.2.getD i []).getD d z + o d)))) (n0, st)
      = (n0 + dim, st.set i ((List.range dim).map (fun d => (st.getD i []).getD d z + o d))) := by
  rw [foldl_pair (List.range dim) (fun (n : Nat) _ => n + 1)
    (fun (st : List (List α)) d => st.set i ((st.getD i []).set d ((st.getD i []).getD d z + o d))) n0 st]
  rw [foldl_count, List.length_range,
    foldl_slot (fun d (r : List α) => r.set d (r.getD d z + o d)) (List.range dim) i [] st,
    foldl_range_set_self (fun d v => v + o d) z (st.getD i []) dim hr]

/-- `for x in l: for d in range(dim): if c x: n += 1; a[i][d] += o x d` — the counter ends at
    `count * dim`, row `i` accumulates the guarded terms left to right, the other rows are untouched. -/
theorem pair_loop [Add α] (c : γ → Prop) [DecidablePred c] (o : γ → Nat → α) (z : α) (i dim : Nat)
    (l : List γ) (n0 : Nat) (st : List (List α)) (hi : i < st.length)
    (hr : (st.getD i []).length = dim) :
    l.foldl (fun (s : Nat × List (List α)) x =>
        (List.range dim).foldl (fun (s : Nat × List (List α)) d =>
          if c x then (s.1 + 1, s.2.set i ((s.2.getD i []).set d ((s.2.getD i []).getD d z + o x d)))
          else s) s) (n0, st)
      = (n0 + (l.filter (fun x => decide (c x))).length * dim,
         st.set i ((List.range dim).map (fun d =>
           (l.filter (fun x => decide (c x))).foldl (fun acc x => acc + o x d) ((st.getD i []).getD d z)))) := by
  induction l generalizing n0 st with
  | nil =>
    simp only [List.foldl_nil, List.filter_nil, List.length_nil, Nat.zero_mul, Nat.add_zero]
    rw [map_range_getD_self _ _ _ hr, set_getD_self]
  | cons x l ih =>
    simp only [List.foldl_cons]
    by_cases hp : c x
    · simp only [hp, if_true]
      rw [d_loop (o x) z i dim n0 st hr]
      rw [ih _ _ (by simpa using hi) (by rw [getD_set_self _ _ _ _ hi]; simp)]
      have hf : (x :: l).filter (fun x => decide (c x)) = x :: l.filter (fun x => decide (c x)) := by
        simp [hp]
      rw [hf, List.length_cons, List.set_set, getD_set_self _ _ _ _ hi]
      refine Prod.ext ?_ ?_
      · simp only [Nat.succ_mul]; omega
      · simp only [List.foldl_cons]
        congr 1
        apply List.map_congr_left
        intro d hd
        rw [getD_map_range _ _ _ _ (List.mem_range.mp hd)]
    · simp only [hp, if_false]
      rw [foldl_id, ih _ _ hi hr]
      have hf : (x :: l).filter (fun x => decide (c x)) = l.filter (fun x => decide (c x)) := by
        simp [hp]
      rw [hf]

end UmapSrcLemmas
end Umap
