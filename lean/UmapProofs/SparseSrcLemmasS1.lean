/-
  UmapProofs.SparseSrcLemmasS1 — helper lemmas for `UmapProps/C13SrcCore.lean`:
  (A) facts about the model's structurally recursive `Sparse.merge`;
  (B) the sort-based index-array helpers `arrUnique / arrUnion / arrIntersect`;
  (C) buffer (`List.set` / `take`) lemmas and the fuel-bounded merge loops.
-/
import UmapModel.Sparse
import Generated.SparseSrc
import UmapProofs.SparseSrcSpec
import Mathlib.Tactic
import Mathlib.Data.List.Sort
import Mathlib.Data.Finset.Card

set_option linter.unusedSectionVars false
set_option linter.unusedVariables false

namespace Umap
namespace SparseSrcLemmasS1
open Sparse

/-! ### (A) the model's merge -/
section A
variable {α : Type}

/-- the optional single cell -/
def cell (i : Nat) (o : Option α) : SVec α := match o with | some v => [(i, v)] | none => []

theorem merge_nil_nil (f : α → α → Option α) (g1 g2 : α → Option α) :
    merge f g1 g2 [] [] = [] := by
  rw [merge]

theorem merge_cons_nil (f : α → α → Option α) (g1 g2 : α → Option α) (i : Nat) (a : α) (t : SVec α) :
    merge f g1 g2 ((i, a) :: t) [] = cell i (g1 a) ++ merge f g1 g2 t [] := by
  rw [merge]; cases g1 a <;> rfl

theorem merge_nil_cons (f : α → α → Option α) (g1 g2 : α → Option α) (j : Nat) (b : α) (u : SVec α) :
    merge f g1 g2 [] ((j, b) :: u) = cell j (g2 b) ++ merge f g1 g2 [] u := by
  rw [merge]; cases g2 b <;> rfl

theorem merge_cons_cons (f : α → α → Option α) (g1 g2 : α → Option α) (i : Nat) (a : α) (t : SVec α)
    (j : Nat) (b : α) (u : SVec α) :
    merge f g1 g2 ((i, a) :: t) ((j, b) :: u) =
      if i = j then cell i (f a b) ++ merge f g1 g2 t u
      else if i < j then cell i (g1 a) ++ merge f g1 g2 t ((j, b) :: u)
      else cell j (g2 b) ++ merge f g1 g2 ((i, a) :: t) u := by
  rw [merge]
  split
  · cases f a b <;> rfl
  · split
    · cases g1 a <;> rfl
    · cases g2 b <;> rfl

theorem cell_length_le (i : Nat) (o : Option α) : (cell i o).length ≤ 1 := by
  cases o <;> simp [cell]


theorem cell_length_mono (i j : Nat) (o o' : Option α) (h : o.isSome → o'.isSome) :
    (cell i o).length ≤ (cell j o').length := by
  cases o <;> cases o' <;> simp_all [cell]

theorem cell_map_fst_subset (i : Nat) (o : Option α) (k : Nat) (h : k ∈ (cell i o).map (·.1)) : k = i := by
  cases o <;> simp_all [cell]

/-- a merge emits at most as many cells as a merge whose cell functions are defined more often -/
theorem merge_length_le (f f' : α → α → Option α) (g1 g2 g1' g2' : α → Option α)
    (hf : ∀ a b, (f a b).isSome → (f' a b).isSome)
    (h1 : ∀ a, (g1 a).isSome → (g1' a).isSome) (h2 : ∀ a, (g2 a).isSome → (g2' a).isSome)
    (x y : SVec α) :
    (merge f g1 g2 x y).length ≤ (merge f' g1' g2' x y).length := by
  induction x, y using merge.induct with
  | case1 => simp [merge_nil_nil]
  | case2 i a t ih =>
    simp only [merge_cons_nil, List.length_append]
    exact Nat.add_le_add (cell_length_mono _ _ _ _ (h1 a)) ih
  | case3 j b u ih =>
    simp only [merge_nil_cons, List.length_append]
    exact Nat.add_le_add (cell_length_mono _ _ _ _ (h2 b)) ih
  | case4 a t j b u ih =>
    simp only [merge_cons_cons, if_true, List.length_append]
    exact Nat.add_le_add (cell_length_mono _ _ _ _ (hf a b)) ih
  | case5 i a t j b u hne hlt ih =>
    simp only [merge_cons_cons, if_neg hne, if_pos hlt, List.length_append]
    exact Nat.add_le_add (cell_length_mono _ _ _ _ (h1 a)) ih
  | case6 i a t j b u hne hlt ih =>
    simp only [merge_cons_cons, if_neg hne, if_neg hlt, List.length_append]
    exact Nat.add_le_add (cell_length_mono _ _ _ _ (h2 b)) ih

/-- indices emitted by a merge come from one of the two arguments -/
theorem merge_fst_mem (f : α → α → Option α) (g1 g2 : α → Option α) (x y : SVec α) (k : Nat)
    (h : k ∈ (merge f g1 g2 x y).map (·.1)) : k ∈ x.map (·.1) ∨ k ∈ y.map (·.1) := by
  induction x, y using merge.induct with
  | case1 => simp [merge_nil_nil] at h
  | case2 i a t ih =>
    simp only [merge_cons_nil, List.map_append, List.mem_append] at h
    rcases h with h | h
    · left; simp [cell_map_fst_subset _ _ _ h]
    · rcases ih h with h | h
      · left; simp [List.mem_map] at h ⊢; right; exact h
      · simp at h
  | case3 j b u ih =>
    simp only [merge_nil_cons, List.map_append, List.mem_append] at h
    rcases h with h | h
    · right; simp [cell_map_fst_subset _ _ _ h]
    · rcases ih h with h | h
      · simp at h
      · right; simp [List.mem_map] at h ⊢; right; exact h
  | case4 a t j b u ih =>
    simp only [merge_cons_cons, if_true, List.map_append, List.mem_append] at h
    rcases h with h | h
    · left; simp [cell_map_fst_subset _ _ _ h]
    · rcases ih h with h | h
      · left; simp [List.mem_map] at h ⊢; right; exact h
      · right; simp [List.mem_map] at h ⊢; right; exact h
  | case5 i a t j b u hne hlt ih =>
    simp only [merge_cons_cons, if_neg hne, if_pos hlt, List.map_append, List.mem_append] at h
    rcases h with h | h
    · left; simp [cell_map_fst_subset _ _ _ h]
    · rcases ih h with h | h
      · left; simp [List.mem_map] at h ⊢; right; exact h
      · right; exact h
  | case6 i a t j b u hne hlt ih =>
    simp only [merge_cons_cons, if_neg hne, if_neg hlt, List.map_append, List.mem_append] at h
    rcases h with h | h
    · right; simp [cell_map_fst_subset _ _ _ h]
    · rcases ih h with h | h
      · left; exact h
      · right; simp [List.mem_map] at h ⊢; right; exact h

theorem pairwise_cell_append (i : Nat) (o : Option α) (l : SVec α)
    (hl : (l.map (·.1)).Pairwise (· < ·)) (hi : ∀ k ∈ l.map (·.1), i < k) :
    ((cell i o ++ l).map (·.1)).Pairwise (· < ·) := by
  cases o with
  | none => simpa [cell] using hl
  | some v =>
    simp only [cell, List.cons_append, List.nil_append, List.map_cons, List.pairwise_cons]
    exact ⟨hi, hl⟩

/-- merging two rows with strictly increasing indices gives strictly increasing indices -/
theorem merge_sorted (f : α → α → Option α) (g1 g2 : α → Option α) (x y : SVec α)
    (hx : (x.map (·.1)).Pairwise (· < ·)) (hy : (y.map (·.1)).Pairwise (· < ·)) :
    ((merge f g1 g2 x y).map (·.1)).Pairwise (· < ·) := by
  induction x, y using merge.induct with
  | case1 => simp [merge_nil_nil]
  | case2 i a t ih =>
    rw [merge_cons_nil]
    simp only [List.map_cons, List.pairwise_cons] at hx
    refine pairwise_cell_append _ _ _ (ih hx.2 hy) ?_
    intro k hk
    rcases merge_fst_mem _ _ _ _ _ _ hk with h | h
    · exact hx.1 k h
    · simp at h
  | case3 j b u ih =>
    rw [merge_nil_cons]
    simp only [List.map_cons, List.pairwise_cons] at hy
    refine pairwise_cell_append _ _ _ (ih hx hy.2) ?_
    intro k hk
    rcases merge_fst_mem _ _ _ _ _ _ hk with h | h
    · simp at h
    · exact hy.1 k h
  | case4 a t j b u ih =>
    rw [merge_cons_cons, if_pos rfl]
    simp only [List.map_cons, List.pairwise_cons] at hx hy
    refine pairwise_cell_append _ _ _ (ih hx.2 hy.2) ?_
    intro k hk
    rcases merge_fst_mem _ _ _ _ _ _ hk with h | h
    · exact hx.1 k h
    · exact hy.1 k h
  | case5 i a t j b u hne hlt ih =>
    rw [merge_cons_cons, if_neg hne, if_pos hlt]
    have hy' := hy
    simp only [List.map_cons, List.pairwise_cons] at hx hy'
    refine pairwise_cell_append _ _ _ (ih hx.2 hy) ?_
    intro k hk
    rcases merge_fst_mem _ _ _ _ _ _ hk with h | h
    · exact hx.1 k h
    · simp only [List.map_cons, List.mem_cons] at h
      rcases h with h | h
      · omega
      · exact lt_trans hlt (hy'.1 k h)
  | case6 i a t j b u hne hlt ih =>
    rw [merge_cons_cons, if_neg hne, if_neg hlt]
    have hx' := hx
    simp only [List.map_cons, List.pairwise_cons] at hx' hy
    refine pairwise_cell_append _ _ _ (ih hx hy.2) ?_
    intro k hk
    have hji : j < i := by omega
    rcases merge_fst_mem _ _ _ _ _ _ hk with h | h
    · simp only [List.map_cons, List.mem_cons] at h
      rcases h with h | h
      · omega
      · exact lt_trans hji (hx'.1 k h)
    · exact hy.1 k h

/-- with total cell functions every index of either argument is emitted -/
theorem merge_total_mem (f : α → α → Option α) (g1 g2 : α → Option α)
    (hf : ∀ a b, (f a b).isSome) (h1 : ∀ a, (g1 a).isSome) (h2 : ∀ a, (g2 a).isSome)
    (x y : SVec α) (k : Nat)
    (h : k ∈ x.map (·.1) ∨ k ∈ y.map (·.1)) : k ∈ (merge f g1 g2 x y).map (·.1) := by
  have hc : ∀ (i : Nat) (o : Option α), o.isSome → (cell i o).map (·.1) = [i] := by
    intro i o ho; cases o <;> simp_all [cell]
  induction x, y using merge.induct with
  | case1 => simp at h
  | case2 i a t ih =>
    simp only [merge_cons_nil, List.map_append, List.mem_append, hc _ _ (h1 a)]
    simp only [List.map_cons, List.mem_cons, List.map_nil, List.not_mem_nil, or_false] at h
    rcases h with h | h
    · left; simp [h]
    · right; exact ih (Or.inl h)
  | case3 j b u ih =>
    simp only [merge_nil_cons, List.map_append, List.mem_append, hc _ _ (h2 b)]
    simp only [List.map_cons, List.mem_cons, List.map_nil, List.not_mem_nil, false_or] at h
    rcases h with h | h
    · left; simp [h]
    · right; exact ih (Or.inr h)
  | case4 a t j b u ih =>
    simp only [merge_cons_cons, if_true, List.map_append, List.mem_append, hc _ _ (hf a b)]
    simp only [List.map_cons, List.mem_cons] at h
    rcases h with (h | h) | (h | h)
    · left; simp [h]
    · right; exact ih (Or.inl h)
    · left; simp [h]
    · right; exact ih (Or.inr h)
  | case5 i a t j b u hne hlt ih =>
    simp only [merge_cons_cons, if_neg hne, if_pos hlt, List.map_append, List.mem_append, hc _ _ (h1 a)]
    simp only [List.map_cons, List.mem_cons] at h
    rcases h with (h | h) | h
    · left; simp [h]
    · right; exact ih (Or.inl h)
    · right; exact ih (Or.inr (by simpa using h))
  | case6 i a t j b u hne hlt ih =>
    simp only [merge_cons_cons, if_neg hne, if_neg hlt, List.map_append, List.mem_append, hc _ _ (h2 b)]
    simp only [List.map_cons, List.mem_cons] at h
    rcases h with h | (h | h)
    · right; exact ih (Or.inl (by simpa using h))
    · left; simp [h]
    · right; exact ih (Or.inr h)

section sizes
variable [Add α] [Sub α] [Mul α] [Div α] [Neg α] [LT α] [LE α]
  [DecidableLT α] [DecidableLE α] [OfNat α 0] [OfNat α 1] [NatCast α]

/-- `|x ∩ y| + |x ∪ y| = |x| + |y|` for the model's sizes (no sortedness needed) -/
theorem interSize_add_unionSize (x y : SVec α) :
    interSize x y + unionSize x y = x.length + y.length := by
  unfold interSize unionSize
  induction x, y using merge.induct with
  | case1 => simp [merge_nil_nil]
  | case2 i a t ih =>
    simp only [merge_cons_nil, List.length_append, cell, List.length_cons, List.length_nil] at ih ⊢
    omega
  | case3 j b u ih =>
    simp only [merge_nil_cons, List.length_append, cell, List.length_cons, List.length_nil] at ih ⊢
    omega
  | case4 a t j b u ih =>
    simp only [merge_cons_cons, if_true, List.length_append, cell, List.length_cons, List.length_nil] at ih ⊢
    omega
  | case5 i a t j b u hne hlt ih =>
    simp only [merge_cons_cons, if_neg hne, if_pos hlt, List.length_append, cell, List.length_cons,
      List.length_nil] at ih ⊢
    omega
  | case6 i a t j b u hne hlt ih =>
    simp only [merge_cons_cons, if_neg hne, if_neg hlt, List.length_append, cell, List.length_cons,
      List.length_nil] at ih ⊢
    omega

/-- the model's `unionSize` of two rows with strictly increasing indices is the cardinality of the
    union of the index sets -/
theorem unionSize_eq_card (x y : SVec α)
    (hx : (x.map (·.1)).Pairwise (· < ·)) (hy : (y.map (·.1)).Pairwise (· < ·)) :
    unionSize x y = ((x.map (·.1)).toFinset ∪ (y.map (·.1)).toFinset).card := by
  unfold unionSize
  set m := merge (fun _ _ => some (1 : α)) (fun _ => some 1) (fun _ => some 1) x y with hm
  have hs : (m.map (·.1)).Pairwise (· < ·) := merge_sorted _ _ _ x y hx hy
  have hnd : (m.map (·.1)).Nodup := hs.imp (fun h => Nat.ne_of_lt h)
  have : (m.map (·.1)).toFinset = (x.map (·.1)).toFinset ∪ (y.map (·.1)).toFinset := by
    ext k
    simp only [List.mem_toFinset, Finset.mem_union]
    constructor
    · exact merge_fst_mem _ _ _ x y k
    · exact merge_total_mem _ _ _ (fun _ _ => rfl) (fun _ => rfl) (fun _ => rfl) x y k
  rw [← this, List.toFinset_card_of_nodup hnd, List.length_map]

end sizes

end A

/-! ### (B) the sort-based index-array helpers -/
section B
open SrcSparse

theorem sortN_perm (l : List Nat) : (sortN l).Perm l := List.mergeSort_perm l _

theorem sortN_sorted (l : List Nat) : (sortN l).Pairwise (· ≤ ·) := by
  have h := List.pairwise_mergeSort (le := fun (a b : Nat) => decide (a ≤ b))
    (by intro a b c hab hbc; simp only [decide_eq_true_eq] at *; omega)
    (by intro a b; simp only [Bool.or_eq_true, decide_eq_true_eq]; omega) l
  exact h.imp (fun h => by simpa using h)

/-- number of adjacent unequal pairs of `a :: t` -/
def neqCount : Nat → List Nat → Nat
  | _, [] => 0
  | a, b :: t => (if b != a then 1 else 0) + neqCount b t

/-- the left elements of the adjacent equal pairs of `a :: t` -/
def adjEq : Nat → List Nat → List Nat
  | _, [] => []
  | a, b :: t => (if b == a then [a] else []) ++ adjEq b t

theorem maskSel_nil_left {β : Type} (f : List Bool) : maskSel ([] : List β) f = [] := by
  simp [maskSel]

theorem maskSel_nil_right {β : Type} (a : List β) : maskSel a [] = [] := by
  simp [maskSel]

theorem maskSel_cons {β : Type} (a : β) (t : List β) (b : Bool) (f : List Bool) :
    maskSel (a :: t) (b :: f) = (if b then [a] else []) ++ maskSel t f := by
  cases b <;> simp [maskSel]

theorem uniq_mask_length (a : Nat) (t : List Nat) :
    (maskSel t (List.zipWith (fun x y => x != y) t (a :: t).dropLast)).length = neqCount a t := by
  induction t generalizing a with
  | nil => simp [maskSel_nil_left, neqCount]
  | cons b t ih =>
    have : (a :: b :: t).dropLast = a :: (b :: t).dropLast := by simp [List.dropLast]
    rw [this, List.zipWith_cons_cons, maskSel_cons, List.length_append, ih b, neqCount]
    split <;> simp

theorem inter_mask (a : Nat) (t : List Nat) :
    maskSel (a :: t).dropLast (List.zipWith (fun x y => x == y) t (a :: t).dropLast) = adjEq a t := by
  induction t generalizing a with
  | nil => simp [maskSel_nil_left, adjEq]
  | cons b t ih =>
    have : (a :: b :: t).dropLast = a :: (b :: t).dropLast := by simp [List.dropLast]
    rw [this, List.zipWith_cons_cons, maskSel_cons, ih b, adjEq]

theorem neqCount_add_adjEq (a : Nat) (t : List Nat) : neqCount a t + (adjEq a t).length = t.length := by
  induction t generalizing a with
  | nil => simp [neqCount, adjEq]
  | cons b t ih =>
    have := ih b
    simp only [neqCount, adjEq, List.length_append, List.length_cons]
    rcases eq_or_ne b a with rfl | h
    · simp; omega
    · have h' : (b == a) = false := by simpa using h
      simp [h, h']; omega

theorem neqCount_card (a : Nat) (t : List Nat) (hs : (a :: t).Pairwise (· ≤ ·)) :
    1 + neqCount a t = (a :: t).toFinset.card := by
  induction t generalizing a with
  | nil => simp [neqCount]
  | cons b t ih =>
    have hs' : (b :: t).Pairwise (· ≤ ·) := (List.pairwise_cons.mp hs).2
    have hab : a ≤ b := (List.pairwise_cons.mp hs).1 b (by simp)
    have hbt : ∀ c ∈ t, b ≤ c := (List.pairwise_cons.mp hs').1
    have ih' := ih b hs'
    rw [List.toFinset_cons (a := a), neqCount]
    by_cases h : b = a
    · subst h
      have : b ∈ (b :: t).toFinset := by simp
      rw [Finset.insert_eq_of_mem this]
      simp only [bne_self_eq_false, Bool.false_eq_true, if_false, zero_add]; exact ih'
    · have : a ∉ (b :: t).toFinset := by
        simp only [List.mem_toFinset, List.mem_cons, not_or]
        refine ⟨fun e => h e.symm, fun hm => ?_⟩
        have := hbt a hm
        omega
      rw [Finset.card_insert_of_notMem this]
      have hb : (b != a) = true := by simpa using h
      rw [hb]; simp only [if_true]; omega

theorem mem_adjEq (a : Nat) (t : List Nat) (hs : (a :: t).Pairwise (· ≤ ·)) (k : Nat) :
    k ∈ adjEq a t ↔ 2 ≤ (a :: t).count k := by
  induction t generalizing a with
  | nil => simp [adjEq, List.count_cons]; split <;> omega
  | cons b t ih =>
    have hs' : (b :: t).Pairwise (· ≤ ·) := (List.pairwise_cons.mp hs).2
    have hab : a ≤ b := (List.pairwise_cons.mp hs).1 b (by simp)
    have hat : ∀ c ∈ b :: t, a ≤ c := (List.pairwise_cons.mp hs).1
    have hbt : ∀ c ∈ t, b ≤ c := (List.pairwise_cons.mp hs').1
    have ih' := ih b hs'
    rw [adjEq, List.mem_append, ih', List.count_cons (b := a)]
    by_cases hka : a = k
    · subst hka
      simp only [beq_self_eq_true, if_true]
      by_cases hba : b = a
      · subst hba
        simp
      · have hnot : a ∉ b :: t := by
          intro hm
          rcases List.mem_cons.mp hm with e | hm
          · exact hba e.symm
          · have := hbt a hm; omega
        have hc : (b :: t).count a = 0 := List.count_eq_zero_of_not_mem hnot
        simp [hba, hc]
    · have : (a == k) = false := by simpa using hka
      simp only [this, Bool.false_eq_true, if_false, add_zero]
      constructor
      · rintro (h | h)
        · split at h
          · simp at h; exact absurd h.symm hka
          · simp at h
        · exact h
      · intro h; exact Or.inr h

theorem arrUnique_length (l : List Nat) : (arrUnique l).length = l.toFinset.card := by
  unfold arrUnique
  simp only []
  have hp := sortN_perm l
  have hsort := sortN_sorted l
  have hfin : l.toFinset = (sortN l).toFinset := (List.toFinset_eq_of_perm _ _ hp).symm
  rw [hfin]
  generalize sortN l = aux at hsort
  cases aux with
  | nil => simp [maskSel_nil_left]
  | cons a t =>
    rw [← neqCount_card a t hsort]
    simp only [List.replicate_one, List.singleton_append, List.drop_one, List.tail_cons, maskSel_cons, if_true,
      List.length_cons, uniq_mask_length]
    omega

theorem arrIntersect_eq (l1 l2 : List Nat) :
    arrIntersect l1 l2 = match sortN (l1 ++ l2) with | [] => [] | a :: t => adjEq a t := by
  unfold arrIntersect
  simp only []
  generalize sortN (l1 ++ l2) = aux
  cases aux with
  | nil => simp [maskSel_nil_left]
  | cons a t => simp only [List.drop_one, List.tail_cons, inter_mask]

theorem arrIntersect_length_add (l1 l2 : List Nat) :
    (arrIntersect l1 l2).length + (arrUnique (l1 ++ l2)).length = l1.length + l2.length := by
  have hlen : (sortN (l1 ++ l2)).length = l1.length + l2.length := by
    rw [(sortN_perm _).length_eq, List.length_append]
  rw [arrIntersect_eq]
  unfold arrUnique
  simp only []
  generalize sortN (l1 ++ l2) = aux at hlen
  cases aux with
  | nil => simp [maskSel_nil_left] at hlen ⊢; omega
  | cons a t =>
    simp only [List.replicate_one, List.singleton_append, List.drop_one, List.tail_cons, maskSel_cons, if_true,
      List.length_cons, uniq_mask_length] at hlen ⊢
    have := neqCount_add_adjEq a t
    omega

theorem arrUnion_length (l1 l2 : List Nat) (h1 : l1.Nodup) (h2 : l2.Nodup) :
    (arrUnion l1 l2).length = (l1.toFinset ∪ l2.toFinset).card := by
  unfold arrUnion
  split
  · rename_i h
    have : l1 = [] := by simpa using h
    subst this
    simp [List.toFinset_card_of_nodup h2]
  · split
    · rename_i h
      have : l2 = [] := by simpa using h
      subst this
      simp [List.toFinset_card_of_nodup h1]
    · rw [arrUnique_length, List.toFinset_append]

theorem arrIntersect_length (l1 l2 : List Nat) (h1 : l1.Nodup) (h2 : l2.Nodup) :
    (arrIntersect l1 l2).length = l1.length + l2.length - (l1.toFinset ∪ l2.toFinset).card := by
  have := arrIntersect_length_add l1 l2
  rw [arrUnique_length, List.toFinset_append] at this
  omega

theorem mem_arrIntersect (l1 l2 : List Nat) (h1 : l1.Nodup) (h2 : l2.Nodup) (k : Nat) :
    k ∈ arrIntersect l1 l2 ↔ k ∈ l1 ∧ k ∈ l2 := by
  have hc : (sortN (l1 ++ l2)).count k = l1.count k + l2.count k := by
    rw [(sortN_perm _).count_eq, List.count_append]
  have c1 : l1.count k = if k ∈ l1 then 1 else 0 := h1.count
  have c2 : l2.count k = if k ∈ l2 then 1 else 0 := h2.count
  have hsort := sortN_sorted (l1 ++ l2)
  rw [arrIntersect_eq]
  generalize sortN (l1 ++ l2) = aux at hc hsort
  cases aux with
  | nil =>
    simp only [List.count_nil] at hc
    simp only [List.not_mem_nil, false_iff]
    intro ⟨ha, hb⟩
    rw [c1, c2, if_pos ha, if_pos hb] at hc
    omega
  | cons a t =>
    simp only []
    rw [mem_adjEq a t hsort k, hc, c1, c2]
    by_cases ha : k ∈ l1 <;> by_cases hb : k ∈ l2 <;> simp [ha, hb]

end B


/-! ### (C) buffers and the fuel-bounded loops -/
section C
open SrcSparse
variable {α : Type}

/-- the pre-allocated output buffers and the fill count -/
abbrev Buf (α : Type) := List Nat × List α × Nat

/-- the conditional store `if keep: result_ind[nnz] = j; result_data[nnz] = v; nnz += 1` -/
def pushOpt (ri : List Nat) (rd : List α) (nnz : Nat) (j : Nat) (o : Option α) : Buf α :=
  match o with
  | some v => (ri.set nnz j, rd.set nnz v, nnz + 1)
  | none => (ri, rd, nnz)

/-- `s'` is `s` with the cells `l` stored at positions `nnz, nnz+1, …` (buffer sizes unchanged) -/
def Emit (s : Buf α) (l : SVec α) (s' : Buf α) : Prop :=
  s'.1.length = s.1.length ∧ s'.2.1.length = s.2.1.length ∧ s'.2.2 = s.2.2 + l.length ∧
  s'.1.take s'.2.2 = s.1.take s.2.2 ++ l.map (·.1) ∧
  s'.2.1.take s'.2.2 = s.2.1.take s.2.2 ++ l.map (·.2)

theorem Emit.refl (s : Buf α) : Emit s [] s := by simp [Emit]

theorem take_of_take_succ {β : Type} (l l' : List β) (n m : Nat) (p q : List β)
    (h : l'.take (n + m) = l.take n ++ p) (hn : n ≤ l.length) (hp : p.length = m) :
    l'.take n = l.take n := by
  have := congrArg (List.take n) h
  rw [List.take_take, Nat.min_eq_left (Nat.le_add_right n m)] at this
  rw [this, List.take_append_of_le_length (by simp [hn])]
  simp

theorem Emit.trans {s s' s'' : Buf α} {l l' : SVec α} (h : Emit s l s') (h' : Emit s' l' s'') :
    Emit s (l ++ l') s'' := by
  obtain ⟨a1, a2, a3, a4, a5⟩ := h
  obtain ⟨b1, b2, b3, b4, b5⟩ := h'
  refine ⟨by omega, by omega, by simp; omega, ?_, ?_⟩
  · rw [b4, a4]; simp
  · rw [b5, a5]; simp

theorem take_set_succ {β : Type} (l : List β) (n : Nat) (v : β) (h : n < l.length) :
    (l.set n v).take (n + 1) = l.take n ++ [v] := by
  rw [List.take_add_one, List.take_set_of_le (Nat.le_refl n)]
  simp [h]

theorem emit_pushOpt (ri : List Nat) (rd : List α) (nnz : Nat) (j : Nat) (o : Option α)
    (h1 : nnz + (cell j o).length ≤ ri.length) (h2 : nnz + (cell j o).length ≤ rd.length) :
    Emit (ri, rd, nnz) (cell j o) (pushOpt ri rd nnz j o) := by
  cases o with
  | none => simp [pushOpt, cell, Emit]
  | some v =>
    simp only [cell, List.length_cons, List.length_nil] at h1 h2
    simp only [pushOpt, cell, Emit, List.length_set, List.length_cons, List.length_nil, List.map_cons,
      List.map_nil, true_and]
    exact ⟨take_set_succ _ _ _ (by omega), take_set_succ _ _ _ (by omega)⟩

/-- what a one-sided tail loop emits -/
def tailL (g : α → Option α) (z : SVec α) : SVec α := z.flatMap (fun p => cell p.1 (g p.2))

theorem merge_left_nil (f : α → α → Option α) (g1 g2 : α → Option α) (z : SVec α) :
    merge f g1 g2 [] z = tailL g2 z := by
  induction z with
  | nil => simp [merge_nil_nil, tailL]
  | cons p u ih =>
    obtain ⟨j, b⟩ := p
    rw [merge_nil_cons, ih]; simp [tailL]

theorem merge_right_nil (f : α → α → Option α) (g1 g2 : α → Option α) (z : SVec α) :
    merge f g1 g2 z [] = tailL g1 z := by
  induction z with
  | nil => simp [merge_nil_nil, tailL]
  | cons p u ih =>
    obtain ⟨j, b⟩ := p
    rw [merge_cons_nil, ih]; simp [tailL]

theorem tailL_none (z : SVec α) : tailL (fun _ => none) z = [] := by
  induction z with
  | nil => simp [tailL]
  | cons p u ih => simp [tailL, cell] at ih ⊢

theorem drop_zip_cons {β : Type} (ind : List Nat) (data : List β) (d0 : β) (h : ind.length = data.length)
    (a : Nat) (ha : a < ind.length) :
    (ind.zip data).drop a = (ind.getD a 0, data.getD a d0) :: (ind.zip data).drop (a + 1) := by
  have hz : a < (ind.zip data).length := by simp [List.length_zip]; omega
  rw [List.drop_eq_getElem_cons hz]
  congr 1
  rw [List.getElem_zip]
  have h1 : ind.getD a 0 = ind[a] := by simp [List.getD_eq_getElem?_getD, ha]
  have h2 : data.getD a d0 = data[a]'(by omega) := by
    simp [List.getD_eq_getElem?_getD, (by omega : a < data.length)]
  rw [h1, h2]

/-- one step of the two-pointer merge loop, in terms of `pushOpt` -/
def gBody (i1 : List Nat) (d1 : List α) (i2 : List Nat) (d2 : List α) (z : α)
    (f : α → α → Option α) (g1 g2 : α → Option α)
    (st : Nat × Nat × List Nat × List α × Nat) : Nat × Nat × List Nat × List α × Nat :=
  if i1.getD st.1 0 = i2.getD st.2.1 0 then
    let r := pushOpt st.2.2.1 st.2.2.2.1 st.2.2.2.2 (i1.getD st.1 0) (f (d1.getD st.1 z) (d2.getD st.2.1 z))
    (st.1 + 1, st.2.1 + 1, r.1, r.2.1, r.2.2)
  else if i1.getD st.1 0 < i2.getD st.2.1 0 then
    let r := pushOpt st.2.2.1 st.2.2.2.1 st.2.2.2.2 (i1.getD st.1 0) (g1 (d1.getD st.1 z))
    (st.1 + 1, st.2.1, r.1, r.2.1, r.2.2)
  else
    let r := pushOpt st.2.2.1 st.2.2.2.1 st.2.2.2.2 (i2.getD st.2.1 0) (g2 (d2.getD st.2.1 z))
    (st.1, st.2.1 + 1, r.1, r.2.1, r.2.2)

/-- the main two-pointer loop: on exit one input is exhausted, and what was stored is a prefix `out`
    of the model's merge, the rest being the merge of the unconsumed suffixes -/
theorem main_loop (i1 : List Nat) (d1 : List α) (i2 : List Nat) (d2 : List α) (z : α)
    (f : α → α → Option α) (g1 g2 : α → Option α)
    (hl1 : i1.length = d1.length) (hl2 : i2.length = d2.length)
    (cond : Nat × Nat × List Nat × List α × Nat → Bool)
    (body : Nat × Nat × List Nat × List α × Nat → Nat × Nat × List Nat × List α × Nat)
    (hc : ∀ a b ri rd nnz, cond (a, b, ri, rd, nnz) = (decide (a < i1.length) && decide (b < i2.length)))
    (hb : ∀ a b ri rd nnz, body (a, b, ri, rd, nnz) = gBody i1 d1 i2 d2 z f g1 g2 (a, b, ri, rd, nnz))
    (fuel : Nat) :
    ∀ (a b : Nat) (ri : List Nat) (rd : List α) (nnz : Nat) (s1 : Nat × Nat × List Nat × List α × Nat),
      whileN fuel cond body (a, b, ri, rd, nnz) = s1 →
      a ≤ i1.length → b ≤ i2.length → (i1.length - a) + (i2.length - b) < fuel →
      nnz + (merge f g1 g2 ((i1.zip d1).drop a) ((i2.zip d2).drop b)).length ≤ ri.length →
      nnz + (merge f g1 g2 ((i1.zip d1).drop a) ((i2.zip d2).drop b)).length ≤ rd.length →
      s1.1 ≤ i1.length ∧ s1.2.1 ≤ i2.length ∧ (s1.1 = i1.length ∨ s1.2.1 = i2.length) ∧
      ∃ out, Emit (ri, rd, nnz) out s1.2.2 ∧
        merge f g1 g2 ((i1.zip d1).drop a) ((i2.zip d2).drop b)
          = out ++ merge f g1 g2 ((i1.zip d1).drop s1.1) ((i2.zip d2).drop s1.2.1) := by
  induction fuel with
  | zero => intro a b ri rd nnz s1 _ _ _ hf; omega
  | succ fuel ih =>
    intro a b ri rd nnz s1 hs ha hbd hf hc1 hc2
    rw [whileN, hc] at hs
    by_cases hcond : a < i1.length ∧ b < i2.length
    · obtain ⟨ha', hb'⟩ := hcond
      simp only [ha', hb', decide_true, Bool.and_self, if_true] at hs
      rw [hb] at hs
      have hx := drop_zip_cons i1 d1 z hl1 a ha'
      have hy := drop_zip_cons i2 d2 z hl2 b hb'
      rw [hx, hy, merge_cons_cons] at hc1 hc2 ⊢
      unfold gBody at hs
      simp only [] at hs
      by_cases e : i1.getD a 0 = i2.getD b 0
      · rw [if_pos e] at hs hc1 hc2 ⊢
        rw [List.length_append] at hc1 hc2
        have hE := emit_pushOpt ri rd nnz (i1.getD a 0) (f (d1.getD a z) (d2.getD b z)) (by omega) (by omega)
        obtain ⟨e1, e2, e3, -, -⟩ := id hE
        simp only [] at e1 e2 e3
        obtain ⟨r1, r2, r3, out, hout, hm⟩ := ih _ _ _ _ _ s1 hs (by omega) (by omega) (by omega)
          (by rw [e1, e3]; omega) (by rw [e2, e3]; omega)
        refine ⟨r1, r2, r3, _, hE.trans hout, ?_⟩
        rw [hm, List.append_assoc]
      · rw [if_neg e] at hs hc1 hc2 ⊢
        by_cases e' : i1.getD a 0 < i2.getD b 0
        · rw [if_pos e'] at hs hc1 hc2 ⊢
          rw [List.length_append] at hc1 hc2
          have hE := emit_pushOpt ri rd nnz (i1.getD a 0) (g1 (d1.getD a z)) (by omega) (by omega)
          obtain ⟨e1, e2, e3, -, -⟩ := id hE
          simp only [] at e1 e2 e3
          obtain ⟨r1, r2, r3, out, hout, hm⟩ := ih _ _ _ _ _ s1 hs (by omega) (by omega) (by omega)
            (by rw [e1, e3, hy]; omega) (by rw [e2, e3, hy]; omega)
          refine ⟨r1, r2, r3, _, hE.trans hout, ?_⟩
          rw [← hy, hm, List.append_assoc]
        · rw [if_neg e'] at hs hc1 hc2 ⊢
          rw [List.length_append] at hc1 hc2
          have hE := emit_pushOpt ri rd nnz (i2.getD b 0) (g2 (d2.getD b z)) (by omega) (by omega)
          obtain ⟨e1, e2, e3, -, -⟩ := id hE
          simp only [] at e1 e2 e3
          obtain ⟨r1, r2, r3, out, hout, hm⟩ := ih _ _ _ _ _ s1 hs (by omega) (by omega) (by omega)
            (by rw [e1, e3, hx]; omega) (by rw [e2, e3, hx]; omega)
          refine ⟨r1, r2, r3, _, hE.trans hout, ?_⟩
          rw [← hx, hm, List.append_assoc]
    · have : (decide (a < i1.length) && decide (b < i2.length)) = false := by
        simp only [Bool.and_eq_false_imp, decide_eq_true_eq, decide_eq_false_iff_not]
        intro h1 h2; exact hcond ⟨h1, h2⟩
      rw [this] at hs
      simp only [Bool.false_eq_true, if_false] at hs
      subst hs
      refine ⟨ha, hbd, by simp only []; omega, [], Emit.refl _, by simp⟩

/-- one step of a one-sided tail loop -/
def tBody (ind : List Nat) (data : List α) (z : α) (g : α → Option α)
    (st : List Nat × List α × Nat × Nat) : List Nat × List α × Nat × Nat :=
  let r := pushOpt st.1 st.2.1 st.2.2.1 (ind.getD st.2.2.2 0) (g (data.getD st.2.2.2 z))
  (r.1, r.2.1, r.2.2, st.2.2.2 + 1)

theorem tail_loop (ind : List Nat) (data : List α) (z : α) (g : α → Option α)
    (hl : ind.length = data.length)
    (cond : List Nat × List α × Nat × Nat → Bool)
    (body : List Nat × List α × Nat × Nat → List Nat × List α × Nat × Nat)
    (hc : ∀ ri rd nnz a, cond (ri, rd, nnz, a) = decide (a < ind.length))
    (hb : ∀ ri rd nnz a, body (ri, rd, nnz, a) = tBody ind data z g (ri, rd, nnz, a))
    (fuel : Nat) :
    ∀ (ri : List Nat) (rd : List α) (nnz a : Nat) (s : List Nat × List α × Nat × Nat),
      whileN fuel cond body (ri, rd, nnz, a) = s →
      ind.length - a < fuel →
      nnz + (tailL g ((ind.zip data).drop a)).length ≤ ri.length →
      nnz + (tailL g ((ind.zip data).drop a)).length ≤ rd.length →
      Emit (ri, rd, nnz) (tailL g ((ind.zip data).drop a)) (s.1, s.2.1, s.2.2.1) := by
  induction fuel with
  | zero => intro ri rd nnz a s _ hf; omega
  | succ fuel ih =>
    intro ri rd nnz a s hs hf hc1 hc2
    rw [whileN, hc] at hs
    by_cases ha : a < ind.length
    · simp only [ha, decide_true, if_true] at hs
      rw [hb] at hs
      have hx := drop_zip_cons ind data z hl a ha
      have ht : tailL g ((ind.zip data).drop a)
          = cell (ind.getD a 0) (g (data.getD a z)) ++ tailL g ((ind.zip data).drop (a + 1)) := by
        rw [hx]; simp [tailL]
      rw [ht] at hc1 hc2 ⊢
      rw [List.length_append] at hc1 hc2
      unfold tBody at hs
      simp only [] at hs
      have hE := emit_pushOpt ri rd nnz (ind.getD a 0) (g (data.getD a z)) (by omega) (by omega)
      obtain ⟨e1, e2, e3, -, -⟩ := id hE
      simp only [] at e1 e2 e3
      have := ih _ _ _ _ s hs (by omega) (by rw [e1, e3]; omega) (by rw [e2, e3]; omega)
      exact hE.trans this
    · simp only [ha, decide_false, Bool.false_eq_true, if_false] at hs
      subst hs
      have : (ind.zip data).drop a = [] := by
        apply List.drop_eq_nil_of_le; simp [List.length_zip]; omega
      rw [this]
      simpa [tailL] using Emit.refl (ri, rd, nnz)

end C

end SparseSrcLemmasS1
end Umap
