/-
  UmapProofs.SparseSrcSpec — the interface between the two halves of the tie for umap/sparse.py:
  `CoreSpec` says that the *translated* merge helpers (`Generated/SparseSrc.lean`, namespace `Umap.SrcSparse`)
  compute what the hand-written model (`UmapModel/Sparse.lean`) computes, on canonical CSR rows
  (sorted distinct indices, one value per index).  `UmapProps/C13SrcCore.lean` proves it; the metric
  equivalences (`UmapProps/C13SrcA.lean`, `C13SrcB.lean`) are stated relative to it and composed at the end.
-/
import UmapModel.Sparse
import Generated.SparseSrc

namespace Umap
namespace SparseSrcSpec
open Sparse

section
variable {α : Type}

/-- a canonical CSR row: as many values as indices, indices strictly increasing -/
def Canon (ind : List Nat) (data : List α) : Prop :=
  ind.length = data.length ∧ ind.Pairwise (· < ·)

/-- (indices, values) -> the model's list of pairs -/
def pack (ind : List Nat) (data : List α) : SVec α := ind.zip data

/-- the model's list of pairs -> (indices, values) -/
def unpack (v : SVec α) : List Nat × List α := (v.map (·.1), v.map (·.2))

variable [Add α] [Sub α] [Mul α] [Div α] [Neg α] [LT α] [LE α]
  [DecidableLT α] [DecidableLE α] [OfNat α 0] [OfNat α 1] [NatCast α] [IntCast α]

/-- the translated merge helpers agree with the model on canonical rows -/
structure CoreSpec (α : Type) [Add α] [Sub α] [Mul α] [Div α] [Neg α] [LT α] [LE α]
    [DecidableLT α] [DecidableLE α] [OfNat α 0] [OfNat α 1] [NatCast α] [IntCast α] : Prop where
  sum : ∀ (i1 : List Nat) (d1 : List α) (i2 : List Nat) (d2 : List α), Canon i1 d1 → Canon i2 d2 →
    SrcSparse.sparseSum i1 d1 i2 d2 = unpack (sparseSum (pack i1 d1) (pack i2 d2))
  diff : ∀ (i1 : List Nat) (d1 : List α) (i2 : List Nat) (d2 : List α), Canon i1 d1 → Canon i2 d2 →
    SrcSparse.sparseDiff i1 d1 i2 d2 = unpack (sparseDiff (pack i1 d1) (pack i2 d2))
  mul : ∀ (i1 : List Nat) (d1 : List α) (i2 : List Nat) (d2 : List α), Canon i1 d1 → Canon i2 d2 →
    SrcSparse.sparseMul i1 d1 i2 d2 = unpack (sparseMul (pack i1 d1) (pack i2 d2))
  unionLen : ∀ (i1 : List Nat) (d1 : List α) (i2 : List Nat) (d2 : List α), Canon i1 d1 → Canon i2 d2 →
    (SrcSparse.arrUnion i1 i2).length = unionSize (pack i1 d1) (pack i2 d2)
  interLen : ∀ (i1 : List Nat) (d1 : List α) (i2 : List Nat) (d2 : List α), Canon i1 d1 → Canon i2 d2 →
    (SrcSparse.arrIntersect i1 i2).length = interSize (pack i1 d1) (pack i2 d2)
  interMem : ∀ (i1 i2 : List Nat), i1.Pairwise (· < ·) → i2.Pairwise (· < ·) → ∀ k : Nat,
    (SrcSparse.arrIntersect i1 i2).contains k = (i1.contains k && i2.contains k)
  /-- the results are canonical again (needed where one helper's output feeds another, e.g. `sparse_canberra`) -/
  sumCanon : ∀ (i1 : List Nat) (d1 : List α) (i2 : List Nat) (d2 : List α), Canon i1 d1 → Canon i2 d2 →
    Canon (sparseSum (pack i1 d1) (pack i2 d2) |> unpack).1 (sparseSum (pack i1 d1) (pack i2 d2) |> unpack).2
  diffCanon : ∀ (i1 : List Nat) (d1 : List α) (i2 : List Nat) (d2 : List α), Canon i1 d1 → Canon i2 d2 →
    Canon (sparseDiff (pack i1 d1) (pack i2 d2) |> unpack).1 (sparseDiff (pack i1 d1) (pack i2 d2) |> unpack).2

end
end SparseSrcSpec
end Umap
