/-
  UmapProofs.GradLemmas — bridges between the list-based model (`List.ofFn`) and finite sums,
  and the calculus lemmas shared by the C14 theorems.
-/
import Mathlib.Tactic
import Mathlib.Algebra.BigOperators.Fin
import Mathlib.Analysis.Calculus.Deriv.Mul
import Mathlib.Analysis.Calculus.Deriv.Add
import Mathlib.Analysis.Calculus.Deriv.Inv
import Mathlib.Analysis.Calculus.Deriv.Abs
import Mathlib.Analysis.SpecialFunctions.Sqrt
import UmapProofs.Basic
import UmapProofs.RealT
import UmapModel.Metrics
import UmapModel.Grad

namespace Umap
open Metrics

/-! ### lists built by `List.ofFn` -/

theorem sumL_ofFn {n : ℕ} (f : Fin n → ℝ) : sumL (List.ofFn f) = ∑ j, f j := by
  rw [sumL_eq_sum, List.sum_ofFn]

theorem zip_ofFn {β γ : Type} {n : ℕ} (f : Fin n → β) (g : Fin n → γ) :
    (List.ofFn f).zip (List.ofFn g) = List.ofFn (fun j => (f j, g j)) := by
  apply List.ext_getElem
  · simp
  · intro k h1 h2
    simp

theorem map_ofFn' {β γ : Type} {n : ℕ} (f : Fin n → β) (g : β → γ) :
    (List.ofFn f).map g = List.ofFn (fun j => g (f j)) := by
  rw [List.map_ofFn]; rfl

theorem getD_ofFn {n : ℕ} (f : Fin n → ℝ) (i : Fin n) (d : ℝ) :
    (List.ofFn f).getD i.val d = f i := by
  simp [List.getD]

theorem diffs_ofFn {n : ℕ} (x y : Fin n → ℝ) :
    diffs (List.ofFn x) (List.ofFn y) = List.ofFn (fun j => x j - y j) := by
  unfold diffs
  rw [zip_ofFn, map_ofFn']

/-- sum over a zip of two `ofFn`s. -/
theorem sumL_zip_map_ofFn {n : ℕ} (x y : Fin n → ℝ) (g : ℝ × ℝ → ℝ) :
    sumL (((List.ofFn x).zip (List.ofFn y)).map g) = ∑ j, g (x j, y j) := by
  rw [zip_ofFn, map_ofFn', sumL_ofFn]

theorem dot_ofFn {n : ℕ} (x y : Fin n → ℝ) :
    dot (List.ofFn x) (List.ofFn y) = ∑ j, x j * y j := by
  unfold dot; rw [sumL_zip_map_ofFn]

/-! ### `signV`, `signPM` -/

theorem signV_pos {a : ℝ} (h : 0 < a) : signV a = 1 := by
  unfold signV; rw [if_neg (not_lt.mpr h.le), if_pos h]

theorem signV_neg {a : ℝ} (h : a < 0) : signV a = -1 := by
  unfold signV; rw [if_pos h]

theorem signV_zero : signV (0 : ℝ) = 0 := by
  unfold signV; simp

theorem signV_mul_self (a : ℝ) : signV a * a = |a| := by
  rcases lt_trichotomy a 0 with h | h | h
  · rw [signV_neg h, abs_of_neg h]; ring
  · subst h; simp
  · rw [signV_pos h, abs_of_pos h]; ring

/-! ### one coordinate varies -/

theorem sum_update {n : ℕ} (F : Fin n → ℝ → ℝ) (x : Fin n → ℝ) (i : Fin n) (t : ℝ) :
    ∑ j, F j (Function.update x i t j)
      = F i t + ∑ j ∈ Finset.univ.erase i, F j (x j) := by
  rw [← Finset.add_sum_erase _ _ (Finset.mem_univ i), Function.update_self]
  congr 1
  apply Finset.sum_congr rfl
  intro j hj
  rw [Function.update_of_ne (Finset.ne_of_mem_erase hj)]

theorem sum_update_self {n : ℕ} (F : Fin n → ℝ → ℝ) (x : Fin n → ℝ) (i : Fin n) :
    ∑ j, F j (x j) = F i (x i) + ∑ j ∈ Finset.univ.erase i, F j (x j) := by
  exact (Finset.add_sum_erase _ (fun j => F j (x j)) (Finset.mem_univ i)).symm

/-- a sum of coordinate-wise terms, as a function of coordinate `i` alone, has the derivative of
    its `i`-th term. -/
theorem hasDerivAt_sum_update {n : ℕ} (F : Fin n → ℝ → ℝ) (x : Fin n → ℝ) (i : Fin n) (f' : ℝ)
    (h : HasDerivAt (F i) f' (x i)) :
    HasDerivAt (fun t => ∑ j, F j (Function.update x i t j)) f' (x i) := by
  simp_rw [sum_update]
  exact h.add_const _

theorem hasDerivAt_update_apply {n : ℕ} (x : Fin n → ℝ) (i j : Fin n) :
    HasDerivAt (fun t => Function.update x i t j) (if j = i then 1 else 0) (x i) := by
  by_cases h : j = i
  · subst h; simp only [Function.update_self, if_true]; exact hasDerivAt_id _
  · simp only [Function.update_of_ne h, if_neg h]; exact hasDerivAt_const _ _

/-- `|t - c|` has derivative `signV (a - c)` at `a ≠ c`. -/
theorem hasDerivAt_abs_sub {a c : ℝ} (h : a ≠ c) :
    HasDerivAt (fun t => |t - c|) (signV (a - c)) a := by
  have hs : HasDerivAt (fun t : ℝ => t - c) 1 a := (hasDerivAt_id a).sub_const c
  rcases lt_or_gt_of_ne h with h | h
  · have h' : a - c < 0 := by linarith
    rw [signV_neg h']
    have := (hasDerivAt_abs_neg h').comp a hs
    simpa [Function.comp_def] using this
  · have h' : 0 < a - c := by linarith
    rw [signV_pos h']
    have := (hasDerivAt_abs_pos h').comp a hs
    simpa [Function.comp_def] using this

/-- `|t + c|` has derivative `signV (a + c)` at `a + c ≠ 0`. -/
theorem hasDerivAt_abs_add {a c : ℝ} (h : a + c ≠ 0) :
    HasDerivAt (fun t => |t + c|) (signV (a + c)) a := by
  have := hasDerivAt_abs_sub (a := a) (c := -c) (by intro h'; apply h; rw [h']; ring)
  simpa [sub_neg_eq_add] using this

/-- `|t|` has derivative `signV a` at `a ≠ 0`. -/
theorem hasDerivAt_abs_signV {a : ℝ} (h : a ≠ 0) :
    HasDerivAt (fun t => |t|) (signV a) a := by
  have := hasDerivAt_abs_sub (a := a) (c := 0) h
  simpa using this

end Umap
