/-
  UmapProofs.SrcLemmasD — bridge lemmas for the gradient kernels of `Generated/DistSrc.lean`:
  store loops (`grad.set i v` for every `i`) are mapped lists, index loops producing lists are maps over
  zips, nested `zipWith` vector expressions fuse.  No algebra on the scalars: everything holds for any type.
-/
import UmapProofs.SrcLemmas
import Mathlib.Data.List.Basic
import Mathlib.Data.List.Zip
import Mathlib.Data.List.Range

namespace Umap
namespace SrcLemmasD
open SrcLemmas

variable {α β γ δ σ : Type}

/-! ### store loops -/

theorem length_foldl_set_cond (c : Nat → Prop) [DecidablePred c] (f : Nat → α) (l : List Nat)
    (g0 : List α) :
    (l.foldl (fun g i => if c i then g.set i (f i) else g) g0).length = g0.length := by
  induction l generalizing g0 with
  | nil => rfl
  | cons a l ih =>
    simp only [List.foldl_cons]
    rw [ih]
    split <;> simp

theorem getElem?_foldl_set_cond (c : Nat → Prop) [DecidablePred c] (f : Nat → α) (k : Nat)
    (g0 : List α) (j : Nat) :
    ((List.range k).foldl (fun g i => if c i then g.set i (f i) else g) g0)[j]?
      = if j < k ∧ c j ∧ j < g0.length then some (f j) else g0[j]? := by
  induction k with
  | zero => simp
  | succ k ih =>
    rw [List.range_succ, List.foldl_append]
    simp only [List.foldl_cons, List.foldl_nil]
    have hlen := length_foldl_set_cond c f (List.range k) g0
    by_cases hc : c k
    · simp only [hc, if_true]
      rw [List.getElem?_set, hlen]
      by_cases hj : k = j
      · subst hj
        by_cases hk : k < g0.length
        · simp [hk, hc]
        · simp [hk]
      · rw [if_neg hj, ih]
        have : j < k + 1 ↔ j < k := by omega
        simp [this]
    · simp only [hc, if_false]
      rw [ih]
      by_cases hj : k = j
      · subst hj
        simp [hc]
      · have : j < k + 1 ↔ j < k := by omega
        simp [this]

/-- a loop that conditionally stores `f i` at index `i` of a constant array -/
theorem foldl_set_cond (c : Nat → Prop) [DecidablePred c] (f : Nat → α) (n : Nat) (z : α) :
    (List.range n).foldl (fun g i => if c i then g.set i (f i) else g) (List.replicate n z)
      = (List.range n).map (fun i => if c i then f i else z) := by
  apply List.ext_getElem?
  intro j
  rw [getElem?_foldl_set_cond]
  by_cases hj : j < n
  · by_cases hc : c j <;> simp [hj, hc]
  · simp [hj]

/-- a loop that stores `f i` at every index `i` -/
theorem foldl_set (f : Nat → α) (n : Nat) (z : α) :
    (List.range n).foldl (fun g i => g.set i (f i)) (List.replicate n z) = (List.range n).map f := by
  have := foldl_set_cond (fun _ => True) f n z
  simpa using this

/-- entries at or beyond the loop bound are untouched -/
theorem getD_foldl_set_ge (f : Nat → α) (k : Nat) (g0 : List α) (j : Nat) (hj : k ≤ j) (d : α) :
    ((List.range k).foldl (fun g i => g.set i (f i)) g0).getD j d = g0.getD j d := by
  have := getElem?_foldl_set_cond (fun _ => True) f k g0 j
  simp only [if_true] at this
  rw [List.getD_eq_getElem?_getD, this, if_neg (by omega), List.getD_eq_getElem?_getD]

/-- a single store into a constant array -/
theorem replicate_set (n m : Nat) (z v : α) :
    (List.replicate n z).set m v = (List.range n).map (fun i => if i = m then v else z) := by
  apply List.ext_getElem?
  intro j
  rw [List.getElem?_set]
  by_cases hj : j < n
  · by_cases hm : m = j
    · subst hm; simp [hj]
    · have : ¬ j = m := fun h => hm h.symm
      simp [hj, hm, this]
  · by_cases hm : m = j
    · subst hm; simp [hj]
    · simp [hj, hm]

theorem length_foldl_set (f : Nat → α) (l : List Nat) (g0 : List α) :
    (l.foldl (fun g i => g.set i (f i)) g0).length = g0.length := by
  induction l generalizing g0 with
  | nil => rfl
  | cons a l ih => simp only [List.foldl_cons]; rw [ih]; simp

/-- an inner loop that accumulates into a scalar and, identically, into slot `i` of an array
    (`tmp += a; grad_tmp[i] += a`): the slot ends up holding the scalar. -/
theorem foldl_inner_set (u : α → γ → α) (js : List γ) (i : Nat) (d t : α) (g : List α)
    (hi : i < g.length) :
    js.foldl (fun (s : α × List α) j => (u s.1 j, s.2.set i (u (s.2.getD i d) j))) (t, g.set i t)
      = (js.foldl u t, g.set i (js.foldl u t)) := by
  induction js generalizing t with
  | nil => rfl
  | cons j js ih =>
    simp only [List.foldl_cons]
    have : (g.set i t).getD i d = t := by
      simp [List.getD_eq_getElem?_getD, hi]
    rw [this, List.set_set]
    exact ih _

/-- the nested loop of `mahalanobis_grad`: outer loop over `i`, inner loop accumulating the same
    terms into a scalar and into slot `i` of a zero array. -/
theorem foldl_nested_set (n : Nat) (z : α) (u : Nat → α → γ → α) (R : β → Nat → α → β)
    (js : List γ) (r0 : β) (k : Nat) (hk : k ≤ n) :
    (List.range k).foldl (fun (st : List α × β) i =>
        ((js.foldl (fun (s : α × List α) j => (u i s.1 j, s.2.set i (u i (s.2.getD i z) j)))
            (z, st.1)).2,
         R st.2 i (js.foldl (fun (s : α × List α) j =>
            (u i s.1 j, s.2.set i (u i (s.2.getD i z) j))) (z, st.1)).1))
        (List.replicate n z, r0)
      = ((List.range k).foldl (fun g i => g.set i (js.foldl (u i) z)) (List.replicate n z),
         (List.range k).foldl (fun r i => R r i (js.foldl (u i) z)) r0) := by
  induction k with
  | zero => rfl
  | succ k ih =>
    rw [List.range_succ, List.foldl_append, List.foldl_append, List.foldl_append, ih (by omega)]
    simp only [List.foldl_cons, List.foldl_nil]
    generalize hG : (List.range k).foldl (fun g i => g.set i (js.foldl (u i) z))
      (List.replicate n z) = G
    have hlen : G.length = n := by rw [← hG, length_foldl_set]; simp
    have hk' : k < G.length := by omega
    have hG0 : G.getD k z = z := by
      rw [← hG, getD_foldl_set_ge _ _ _ _ (Nat.le_refl k)]
      have : k < n := by omega
      simp [List.getD_eq_getElem?_getD, this]
    have hGk : G[k] = z := by
      simpa [List.getD_eq_getElem?_getD, hk'] using hG0
    have e : G = G.set k z := by
      rw [← hGk, List.set_getElem_self]
    have := foldl_inner_set (u k) js k z z G hk'
    rw [← e] at this
    rw [this]

/-! ### index loops that build a list -/

theorem map_range_getD₂ (x : List α) (y : List β) (dx : α) (dy : β) (h : x.length = y.length)
    (F : α → β → γ) :
    (List.range x.length).map (fun i => F (x.getD i dx) (y.getD i dy))
      = (x.zip y).map (fun p => F p.1 p.2) := by
  apply List.ext_getElem
  · simp [h]
  · intro i h1 h2
    have hx : i < x.length := by simpa using h1
    have hy : i < y.length := h ▸ hx
    simp [List.getD_eq_getElem?_getD, List.getElem?_eq_getElem hx, List.getElem?_eq_getElem hy]

theorem map_range_getD₂_idx (x : List α) (y : List β) (dx : α) (dy : β) (h : x.length = y.length)
    (F : Nat → α → β → γ) :
    (List.range x.length).map (fun i => F i (x.getD i dx) (y.getD i dy))
      = (x.zip y).zipIdx.map (fun p => F p.2 p.1.1 p.1.2) := by
  apply List.ext_getElem
  · simp [h]
  · intro i h1 h2
    have hx : i < x.length := by simpa using h1
    have hy : i < y.length := h ▸ hx
    simp [List.getD_eq_getElem?_getD, List.getElem?_eq_getElem hx, List.getElem?_eq_getElem hy]

theorem map_range_getD₃ (x : List α) (y : List β) (w : List γ) (dx : α) (dy : β) (dw : γ)
    (h : x.length = y.length) (hw : x.length = w.length) (F : α → β → γ → δ) :
    (List.range x.length).map (fun i => F (x.getD i dx) (y.getD i dy) (w.getD i dw))
      = ((x.zip y).zip w).map (fun p => F p.1.1 p.1.2 p.2) := by
  apply List.ext_getElem
  · simp [← h, ← hw]
  · intro i h1 h2
    have hx : i < x.length := by simpa using h1
    have hy : i < y.length := h ▸ hx
    have hw' : i < w.length := hw ▸ hx
    simp [List.getD_eq_getElem?_getD, List.getElem?_eq_getElem hx, List.getElem?_eq_getElem hy,
      List.getElem?_eq_getElem hw']

theorem map_range_getD (x : List α) (dx : α) (F : α → γ) :
    (List.range x.length).map (fun i => F (x.getD i dx)) = x.map F := by
  apply List.ext_getElem
  · simp
  · intro i h1 h2
    have hx : i < x.length := by simpa using h1
    simp [List.getD_eq_getElem?_getD, List.getElem?_eq_getElem hx]

/-- an index loop with the index, over two lists -/
theorem foldl_range_getD₂_idx (x : List α) (y : List β) (dx : α) (dy : β) (h : x.length = y.length)
    (g : σ → Nat → α → β → σ) (s : σ) :
    (List.range x.length).foldl (fun st i => g st i (x.getD i dx) (y.getD i dy)) s
      = (x.zip y).zipIdx.foldl (fun st p => g st p.2 p.1.1 p.1.2) s := by
  have hz : (x.zip y).length = x.length := by simp [h]
  have := foldl_range_getD (x.zip y) (dx, dy) (fun st i p => g st i p.1 p.2) s
  rw [← this, hz]
  apply List.foldl_ext
  intro st i hi
  have hi' : i < x.length := List.mem_range.mp hi
  have hy : i < y.length := h ▸ hi'
  have hz' : i < (x.zip y).length := by rw [hz]; exact hi'
  rw [List.getD_eq_getElem?_getD, List.getD_eq_getElem?_getD, List.getD_eq_getElem?_getD,
    List.getElem?_eq_getElem hi', List.getElem?_eq_getElem hy, List.getElem?_eq_getElem hz']
  simp

/-- two accumulators updated under the same guard -/
theorem foldl_pair_cond (l : List γ) (c : γ → Prop) [DecidablePred c] (g₁ : α → γ → α)
    (g₂ : β → γ → β) (a : α) (b : β) :
    l.foldl (fun (st : α × β) p => if c p then (g₁ st.1 p, g₂ st.2 p) else st) (a, b)
      = (l.foldl (fun s p => if c p then g₁ s p else s) a,
         l.foldl (fun s p => if c p then g₂ s p else s) b) := by
  induction l generalizing a b with
  | nil => rfl
  | cons p l ih =>
    simp only [List.foldl_cons]
    by_cases hc : c p
    · simp only [hc, if_true]; exact ih _ _
    · simp only [hc, if_false]; exact ih _ _

/-! ### vector expressions -/

theorem zipWith_eq_map_zip (f : α → β → γ) (x : List α) (y : List β) :
    List.zipWith f x y = (x.zip y).map (fun p => f p.1 p.2) := by
  induction x generalizing y with
  | nil => simp
  | cons a x ih => cases y with
    | nil => simp
    | cons b y => simp [ih]

theorem zipWith_map_zip_map_zip (f : γ → δ → σ) (g : α → β → γ) (h : α → β → δ)
    (x : List α) (y : List β) :
    List.zipWith f ((x.zip y).map (fun p => g p.1 p.2)) ((x.zip y).map (fun p => h p.1 p.2))
      = (x.zip y).map (fun p => f (g p.1 p.2) (h p.1 p.2)) := by
  rw [List.zipWith_map_left, List.zipWith_map_right, List.zipWith_self]

end SrcLemmasD
end Umap
