/-
  UmapProofs.RealT — the real-number instance of `Transc` used by the theorems.
-/
import Mathlib.Analysis.SpecialFunctions.Pow.Real
import Mathlib.Analysis.SpecialFunctions.Arcosh
import Mathlib.Analysis.SpecialFunctions.Trigonometric.Inverse
import Mathlib.Analysis.Real.Sqrt
import Mathlib.Algebra.Order.Floor.Ring
import UmapModel.Scalar

namespace Umap

/-- the transcendental functions over ℝ. -/
noncomputable def realT : Transc ℝ where
  exp := Real.exp
  log := Real.log
  sqrt := Real.sqrt
  pow := fun x y => x ^ y
  sin := Real.sin
  cos := Real.cos
  asin := Real.arcsin
  acosh := Real.arcosh
  trunc := fun x => if 0 ≤ x then ⌊x⌋ else ⌈x⌉
  ofInt := fun z => (z : ℝ)

/-- clamping a radicand at `0` does not change its real square root (both sides are `0` for a
    non-positive radicand): `np.sqrt(max(a, 0.0))` and `np.sqrt(a)` agree over ℝ. -/
theorem sqrt_maxV_zero (a : ℝ) : Real.sqrt (maxV 0 a) = Real.sqrt a := by
  unfold maxV
  split_ifs with h
  · rfl
  · rw [Real.sqrt_zero, Real.sqrt_eq_zero_of_nonpos (not_lt.1 h)]

end Umap
