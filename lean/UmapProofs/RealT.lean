/-
  UmapProofs.RealT — the real-number instance of `Transc` used by the theorems.
-/
import Mathlib.Analysis.SpecialFunctions.Pow.Real
import Mathlib.Analysis.SpecialFunctions.Arcosh
import Mathlib.Analysis.SpecialFunctions.Trigonometric.Inverse
import Mathlib.Analysis.Real.Sqrt
import Mathlib.Algebra.Order.Floor.Ring
import UmapModel.Scalar

namespace Umap

/-- the transcendental functions over ℝ. -/
noncomputable def realT : Transc ℝ where
  exp := Real.exp
  log := Real.log
  sqrt := Real.sqrt
  pow := fun x y => x ^ y
  sin := Real.sin
  cos := Real.cos
  asin := Real.arcsin
  acosh := Real.arcosh
  trunc := fun x => if 0 ≤ x then ⌊x⌋ else ⌈x⌉
  ofInt := fun z => (z : ℝ)

end Umap
