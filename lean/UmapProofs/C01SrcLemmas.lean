/-
  C01SrcLemmas — store loops over a flat `n × k` table (`l.set (i * k + j) v`, with skipped cells).
  Used by `UmapProps/C01Src.lean` (`compute_membership_strengths`).
-/
import Mathlib.Data.List.Basic
import Mathlib.Data.List.Range
import Mathlib.Tactic

namespace Umap
namespace C01SrcLemmas

variable {β : Type}

/-- one row of conditional stores at positions `base + j`, `j < m`. -/
def rowStore (skip : Nat → Bool) (v : Nat → β) (base : Nat) (l : List β) (m : Nat) : List β :=
  (List.range m).foldl (fun l j => if skip j then l else l.set (base + j) (v j)) l

theorem rowStore_succ (skip : Nat → Bool) (v : Nat → β) (base : Nat) (l : List β) (m : Nat) :
    rowStore skip v base l (m + 1)
      = if skip m then rowStore skip v base l m
        else (rowStore skip v base l m).set (base + m) (v m) := by
  simp [rowStore, List.range_succ, List.foldl_append]

theorem rowStore_length (skip : Nat → Bool) (v : Nat → β) (base : Nat) (l : List β) (m : Nat) :
    (rowStore skip v base l m).length = l.length := by
  induction m with
  | zero => simp [rowStore]
  | succ m ih =>
    rw [rowStore_succ]
    split
    · exact ih
    · simp [ih]

theorem getD_set' (l : List β) (i p : Nat) (a d : β) :
    (l.set i a).getD p d = if i = p ∧ p < l.length then a else l.getD p d := by
  simp only [List.getD_eq_getElem?_getD, List.getElem?_set]
  by_cases h : i = p
  · subst h
    by_cases h2 : i < l.length
    · simp [h2]
    · simp [h2]
  · simp [h]

theorem rowStore_getD (skip : Nat → Bool) (v : Nat → β) (base : Nat) (l : List β) (m p : Nat)
    (d : β) :
    (rowStore skip v base l m).getD p d
      = if base ≤ p ∧ p < base + m ∧ skip (p - base) = false ∧ p < l.length then v (p - base)
        else l.getD p d := by
  induction m with
  | zero =>
    have : ¬ (base ≤ p ∧ p < base + 0 ∧ skip (p - base) = false ∧ p < l.length) := by omega
    rw [if_neg this]; simp [rowStore]
  | succ m ih =>
    rw [rowStore_succ]
    by_cases hs : skip m = true
    · rw [if_pos hs, ih]
      by_cases hp : p = base + m
      · subst hp
        have h1 : ¬ (base ≤ base + m ∧ base + m < base + m ∧
            skip (base + m - base) = false ∧ base + m < l.length) := by omega
        have h2 : ¬ (base ≤ base + m ∧ base + m < base + (m + 1) ∧
            skip (base + m - base) = false ∧ base + m < l.length) := by
          rintro ⟨-, -, h, -⟩
          rw [Nat.add_sub_cancel_left] at h
          rw [h] at hs
          exact Bool.false_ne_true hs
        rw [if_neg h1, if_neg h2]
      · have : (base ≤ p ∧ p < base + m ∧ skip (p - base) = false ∧ p < l.length)
            ↔ (base ≤ p ∧ p < base + (m + 1) ∧ skip (p - base) = false ∧ p < l.length) := by
          constructor
          · rintro ⟨a, b, c, e⟩; exact ⟨a, by omega, c, e⟩
          · rintro ⟨a, b, c, e⟩; exact ⟨a, by omega, c, e⟩
        rw [if_congr this rfl rfl]
    · rw [if_neg hs, getD_set', rowStore_length, ih]
      have hs' : skip m = false := by simpa using hs
      by_cases hp : base + m = p
      · subst hp
        by_cases hl : base + m < l.length
        · have h2 : (base ≤ base + m ∧ base + m < base + (m + 1) ∧
              skip (base + m - base) = false ∧ base + m < l.length) := by
            refine ⟨by omega, by omega, ?_, hl⟩
            rw [Nat.add_sub_cancel_left]; exact hs'
          rw [if_pos ⟨rfl, hl⟩, if_pos h2, Nat.add_sub_cancel_left]
        · have h0 : ¬ (base + m = base + m ∧ base + m < l.length) := fun h => hl h.2
          have h1 : ¬ (base ≤ base + m ∧ base + m < base + m ∧
              skip (base + m - base) = false ∧ base + m < l.length) := fun h => hl h.2.2.2
          have h2 : ¬ (base ≤ base + m ∧ base + m < base + (m + 1) ∧
              skip (base + m - base) = false ∧ base + m < l.length) := fun h => hl h.2.2.2
          rw [if_neg h0, if_neg h1, if_neg h2]
      · have h0 : ¬ (base + m = p ∧ p < l.length) := fun h => hp h.1
        have : (base ≤ p ∧ p < base + m ∧ skip (p - base) = false ∧ p < l.length)
            ↔ (base ≤ p ∧ p < base + (m + 1) ∧ skip (p - base) = false ∧ p < l.length) := by
          constructor
          · rintro ⟨a, b, c, e⟩; exact ⟨a, by omega, c, e⟩
          · rintro ⟨a, b, c, e⟩; exact ⟨a, by omega, c, e⟩
        rw [if_neg h0, if_congr this rfl rfl]

/-- `n` rows of `k` conditional stores at flat positions `i * k + j`. -/
def gridStore (skip : Nat → Nat → Bool) (v : Nat → Nat → β) (k : Nat) (l : List β) (n : Nat) :
    List β :=
  (List.range n).foldl (fun l i => rowStore (skip i) (v i) (i * k) l k) l

theorem gridStore_succ (skip : Nat → Nat → Bool) (v : Nat → Nat → β) (k : Nat) (l : List β)
    (n : Nat) :
    gridStore skip v k l (n + 1) = rowStore (skip n) (v n) (n * k) (gridStore skip v k l n) k := by
  simp [gridStore, List.range_succ, List.foldl_append]

theorem gridStore_length (skip : Nat → Nat → Bool) (v : Nat → Nat → β) (k : Nat) (l : List β)
    (n : Nat) : (gridStore skip v k l n).length = l.length := by
  induction n with
  | zero => simp [gridStore]
  | succ n ih => rw [gridStore_succ, rowStore_length, ih]

/-- every cell `(i, j)` of the flat table after the double loop: flat positions of distinct cells are
    distinct, so the cell holds its own store (if in range, not skipped) or its initial value. -/
theorem gridStore_getD (skip : Nat → Nat → Bool) (v : Nat → Nat → β) (k : Nat) (l : List β)
    (n i j : Nat) (hj : j < k) (d : β) :
    (gridStore skip v k l n).getD (i * k + j) d
      = if i < n ∧ skip i j = false ∧ i * k + j < l.length then v i j
        else l.getD (i * k + j) d := by
  induction n with
  | zero =>
    have : ¬ (i < 0 ∧ skip i j = false ∧ i * k + j < l.length) := by omega
    rw [if_neg this]; simp [gridStore]
  | succ n ih =>
    rw [gridStore_succ, rowStore_getD, gridStore_length, ih]
    rcases Nat.lt_trichotomy i n with hlt | heq | hgt
    · have hmul : (i + 1) * k ≤ n * k := Nat.mul_le_mul_right k hlt
      rw [Nat.succ_mul] at hmul
      have h1 : ¬ (n * k ≤ i * k + j ∧ i * k + j < n * k + k ∧
          skip n (i * k + j - n * k) = false ∧ i * k + j < l.length) := by omega
      rw [if_neg h1]
      have : (i < n ∧ skip i j = false ∧ i * k + j < l.length)
          ↔ (i < n + 1 ∧ skip i j = false ∧ i * k + j < l.length) := by
        constructor
        · rintro ⟨a, b, c⟩; exact ⟨by omega, b, c⟩
        · rintro ⟨a, b, c⟩; exact ⟨hlt, b, c⟩
      rw [if_congr this rfl rfl]
    · subst heq
      have hsub : i * k + j - i * k = j := Nat.add_sub_cancel_left _ _
      rw [hsub]
      have h0 : ¬ (i < i ∧ skip i j = false ∧ i * k + j < l.length) := by omega
      rw [if_neg h0]
      have : (i * k ≤ i * k + j ∧ i * k + j < i * k + k ∧ skip i j = false ∧
            i * k + j < l.length)
          ↔ (i < i + 1 ∧ skip i j = false ∧ i * k + j < l.length) := by
        constructor
        · rintro ⟨_, _, b, c⟩; exact ⟨by omega, b, c⟩
        · rintro ⟨_, b, c⟩; exact ⟨by omega, by omega, b, c⟩
      rw [if_congr this rfl rfl]
    · have hmul : (n + 1) * k ≤ i * k := Nat.mul_le_mul_right k hgt
      rw [Nat.succ_mul] at hmul
      have h1 : ¬ (n * k ≤ i * k + j ∧ i * k + j < n * k + k ∧
          skip n (i * k + j - n * k) = false ∧ i * k + j < l.length) := by omega
      have h2 : ¬ (i < n ∧ skip i j = false ∧ i * k + j < l.length) := by omega
      have h3 : ¬ (i < n + 1 ∧ skip i j = false ∧ i * k + j < l.length) := by omega
      rw [if_neg h1, if_neg h2, if_neg h3]

/-- a fold over a 4-tuple whose components evolve independently. -/
theorem foldl_prod4 {A B C D ι : Type} (f1 : A → ι → A) (f2 : B → ι → B) (f3 : C → ι → C)
    (f4 : D → ι → D) (xs : List ι) (st : A × B × C × D) :
    xs.foldl (fun st x => (f1 st.1 x, f2 st.2.1 x, f3 st.2.2.1 x, f4 st.2.2.2 x)) st
      = (xs.foldl f1 st.1, xs.foldl f2 st.2.1, xs.foldl f3 st.2.2.1, xs.foldl f4 st.2.2.2) := by
  induction xs generalizing st with
  | nil => rfl
  | cons x xs ih => simp only [List.foldl_cons, ih]

/-- the double loop over four flat tables written simultaneously (the fourth only when `rd`). -/
theorem grid4 {A B C D : Type} (skip : Nat → Nat → Bool) (a : Nat → Nat → A) (b : Nat → Nat → B)
    (c : Nat → Nat → C) (e : Nat → Nat → D) (rd : Bool) (n k : Nat)
    (st0 : List A × List B × List C × List D) :
    (List.range n).foldl (fun st i =>
        (List.range k).foldl (fun st j =>
          if skip i j then st
          else (st.1.set (i * k + j) (a i j), st.2.1.set (i * k + j) (b i j),
                st.2.2.1.set (i * k + j) (c i j),
                if rd then st.2.2.2.set (i * k + j) (e i j) else st.2.2.2)) st) st0
      = (gridStore skip a k st0.1 n, gridStore skip b k st0.2.1 n, gridStore skip c k st0.2.2.1 n,
         gridStore (fun i j => skip i j || !rd) e k st0.2.2.2 n) := by
  have inner : ∀ i : Nat,
      (fun (st : List A × List B × List C × List D) (j : Nat) =>
          if skip i j then st
          else (st.1.set (i * k + j) (a i j), st.2.1.set (i * k + j) (b i j),
                st.2.2.1.set (i * k + j) (c i j),
                if rd then st.2.2.2.set (i * k + j) (e i j) else st.2.2.2))
        = (fun st j =>
            ((fun l j => if skip i j then l else l.set (i * k + j) (a i j)) st.1 j,
             (fun l j => if skip i j then l else l.set (i * k + j) (b i j)) st.2.1 j,
             (fun l j => if skip i j then l else l.set (i * k + j) (c i j)) st.2.2.1 j,
             (fun l j => if (skip i j || !rd) then l else l.set (i * k + j) (e i j)) st.2.2.2 j)) := by
    intro i
    funext st j
    cases hs : skip i j <;> cases rd <;> simp [hs]
  have step : ∀ (i : Nat) (st : List A × List B × List C × List D),
      (List.range k).foldl (fun st j =>
          if skip i j then st
          else (st.1.set (i * k + j) (a i j), st.2.1.set (i * k + j) (b i j),
                st.2.2.1.set (i * k + j) (c i j),
                if rd then st.2.2.2.set (i * k + j) (e i j) else st.2.2.2)) st
        = (rowStore (skip i) (a i) (i * k) st.1 k, rowStore (skip i) (b i) (i * k) st.2.1 k,
           rowStore (skip i) (c i) (i * k) st.2.2.1 k,
           rowStore (fun j => skip i j || !rd) (e i) (i * k) st.2.2.2 k) := by
    intro i st
    exact (congrArg (fun f => List.foldl f st (List.range k)) (inner i)).trans
      (foldl_prod4
        (fun l j => if skip i j then l else l.set (i * k + j) (a i j))
        (fun l j => if skip i j then l else l.set (i * k + j) (b i j))
        (fun l j => if skip i j then l else l.set (i * k + j) (c i j))
        (fun l j => if (skip i j || !rd) then l else l.set (i * k + j) (e i j))
        (List.range k) st)
  simp only [step]
  exact foldl_prod4
    (fun l i => rowStore (skip i) (a i) (i * k) l k)
    (fun l i => rowStore (skip i) (b i) (i * k) l k)
    (fun l i => rowStore (skip i) (c i) (i * k) l k)
    (fun l i => rowStore (fun j => skip i j || !rd) (e i) (i * k) l k)
    (List.range n) st0

end C01SrcLemmas
end Umap
