/-
  UmapProofs.SrcLemmas — bridges between the index loops the translator emits
  (`(List.range n).foldl (fun st i => … x.getD i 0 …) s`) and the list combinators the hand-written model
  uses (`zip`, `map`, `sumL`).  No algebra on the scalars is needed: everything here holds for any type.
-/
import UmapModel.Scalar
import Mathlib.Data.List.Basic
import Mathlib.Data.List.Zip
import Mathlib.Data.List.Range

namespace Umap
namespace SrcLemmas

variable {α β γ σ : Type}

/-- an index loop over one list is a fold over the list -/
theorem foldl_range_getD (x : List α) (d : α) (g : σ → Nat → α → σ) (s : σ) :
    (List.range x.length).foldl (fun st i => g st i (x.getD i d)) s
      = x.zipIdx.foldl (fun st p => g st p.2 p.1) s := by
  induction x using List.reverseRecOn generalizing s with
  | nil => simp
  | append_singleton xs a ih =>
    simp only [List.length_append, List.length_singleton, List.range_succ, List.foldl_append,
      List.foldl_cons, List.foldl_nil, List.zipIdx_append, List.zipIdx_singleton, Nat.zero_add]
    have h : (List.range xs.length).foldl (fun st i => g st i ((xs ++ [a]).getD i d)) s
        = (List.range xs.length).foldl (fun st i => g st i (xs.getD i d)) s := by
      apply List.foldl_ext
      intro st i hi
      have : i < xs.length := List.mem_range.mp hi
      simp [List.getD_eq_getElem?_getD, List.getElem?_append_left this, this]
    rw [h, ih]
    simp

/-- an index loop that ignores the index -/
theorem foldl_range_getD' (x : List α) (d : α) (g : σ → α → σ) (s : σ) :
    (List.range x.length).foldl (fun st i => g st (x.getD i d)) s = x.foldl g s := by
  have := foldl_range_getD x d (fun st _ a => g st a) s
  rw [this]
  clear this
  induction x using List.reverseRecOn generalizing s with
  | nil => simp
  | append_singleton xs a ih => simp [List.zipIdx_append, ih]

/-- an index loop over two lists of the same length is a fold over their zip -/
theorem foldl_range_getD₂ (x : List α) (y : List β) (dx : α) (dy : β) (h : x.length = y.length)
    (g : σ → α → β → σ) (s : σ) :
    (List.range x.length).foldl (fun st i => g st (x.getD i dx) (y.getD i dy)) s
      = (x.zip y).foldl (fun st p => g st p.1 p.2) s := by
  have hz : (x.zip y).length = x.length := by simp [h]
  have := foldl_range_getD' (x.zip y) (dx, dy) (fun st p => g st p.1 p.2) s
  rw [← this, hz]
  apply List.foldl_ext
  intro st i hi
  have hi' : i < x.length := List.mem_range.mp hi
  have hy : i < y.length := h ▸ hi'
  have hz' : i < (x.zip y).length := by rw [hz]; exact hi'
  rw [List.getD_eq_getElem?_getD, List.getD_eq_getElem?_getD, List.getD_eq_getElem?_getD,
    List.getElem?_eq_getElem hi', List.getElem?_eq_getElem hy, List.getElem?_eq_getElem hz']
  simp

/-- … and over three lists -/
theorem foldl_range_getD₃ (x : List α) (y : List β) (w : List γ) (dx : α) (dy : β) (dw : γ)
    (h : x.length = y.length) (hw : x.length = w.length) (g : σ → α → β → γ → σ) (s : σ) :
    (List.range x.length).foldl (fun st i => g st (x.getD i dx) (y.getD i dy) (w.getD i dw)) s
      = ((x.zip y).zip w).foldl (fun st p => g st p.1.1 p.1.2 p.2) s := by
  have hz : ((x.zip y).zip w).length = x.length := by simp [← h, ← hw]
  have := foldl_range_getD' ((x.zip y).zip w) ((dx, dy), dw) (fun st p => g st p.1.1 p.1.2 p.2) s
  rw [← this, hz]
  apply List.foldl_ext
  intro st i hi
  have hi' : i < x.length := List.mem_range.mp hi
  have hy : i < y.length := h ▸ hi'
  have hw' : i < w.length := hw ▸ hi'
  have hz' : i < ((x.zip y).zip w).length := by rw [hz]; exact hi'
  simp only [List.getD_eq_getElem?_getD]
  rw [List.getElem?_eq_getElem hi', List.getElem?_eq_getElem hy, List.getElem?_eq_getElem hw',
    List.getElem?_eq_getElem hz']
  simp

/-- two independent accumulators in one loop -/
theorem foldl_pair (l : List γ) (g₁ : α → γ → α) (g₂ : β → γ → β) (a : α) (b : β) :
    l.foldl (fun (st : α × β) p => (g₁ st.1 p, g₂ st.2 p)) (a, b) = (l.foldl g₁ a, l.foldl g₂ b) := by
  induction l generalizing a b with
  | nil => rfl
  | cons p l ih => simp [ih]

/-- an accumulating sum is `sumL` of the mapped list -/
theorem foldl_add_eq_sumL [Add α] [OfNat α 0] (l : List γ) (f : γ → α) :
    l.foldl (fun acc p => acc + f p) 0 = sumL (l.map f) := by
  simp [sumL, List.foldl_map]

end SrcLemmas
end Umap
