/-
  UmapProofs.Basic — helper lemmas shared by the property files.
-/
import Mathlib.Tactic.Ring
import Mathlib.Tactic.Linarith
import Mathlib.Tactic.Positivity
import Mathlib.Tactic.FieldSimp
import Mathlib.Algebra.Order.Field.Basic
import UmapModel.Scalar
import UmapModel.Graph

namespace Umap

section
variable {K : Type} [Field K] [LinearOrder K] [IsStrictOrderedRing K]

@[simp] theorem eqV_iff (a b : K) : eqV a b = true ↔ a = b := by
  unfold eqV
  simp only [Bool.and_eq_true, decide_eq_true_eq]
  constructor
  · rintro ⟨h1, h2⟩; exact le_antisymm h1 h2
  · rintro rfl; exact ⟨le_refl _, le_refl _⟩

@[simp] theorem Graph.isZero_iff (a : K) : Graph.isZero a = true ↔ a = 0 := by
  unfold Graph.isZero; exact eqV_iff a 0

theorem absV_eq_abs (a : K) : absV a = |a| := by
  unfold absV
  split_ifs with h
  · exact (abs_of_neg h).symm
  · exact (abs_of_nonneg (not_lt.mp h)).symm

end
end Umap

namespace Umap

theorem sumL_eq_sum {M : Type} [AddCommMonoid M] (xs : List M) : sumL xs = xs.sum := by
  unfold sumL
  rw [← List.sum_eq_foldl]

@[simp] theorem sumL_nil {M : Type} [AddCommMonoid M] : sumL ([] : List M) = 0 := by
  simp [sumL]

@[simp] theorem sumL_cons {M : Type} [AddCommMonoid M] (x : M) (xs : List M) :
    sumL (x :: xs) = x + sumL xs := by
  simp [sumL_eq_sum]

/-- an invariant preserved by every step holds after any number of iterations of a fold that
    ignores its list argument. -/
theorem foldl_inv {σ β : Type} (P : σ → Prop) (f : σ → β → σ) (h : ∀ s b, P s → P (f s b))
    (l : List β) (s : σ) (hs : P s) : P (l.foldl f s) := by
  induction l generalizing s with
  | nil => simpa
  | cons b l ih => exact ih _ (h s b hs)

end Umap
