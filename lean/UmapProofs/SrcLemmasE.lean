/-
  UmapProofs.SrcLemmasE — further bridges for the gradient kernels: loops that *store* into a
  pre-allocated list (`grad.set i v`), triple accumulators, `zip`/`zipWith` normalisation.
  As in `SrcLemmas`, nothing here needs algebra on the scalars.
-/
import UmapProofs.SrcLemmas
import Mathlib.Data.List.Basic
import Mathlib.Data.List.Zip
import Mathlib.Data.List.Range

namespace Umap
namespace SrcLemmas

variable {α β γ δ σ : Type}

/-- three independent accumulators in one loop -/
theorem foldl_triple (l : List δ) (g₁ : α → δ → α) (g₂ : β → δ → β) (g₃ : γ → δ → γ)
    (a : α) (b : β) (c : γ) :
    l.foldl (fun (st : α × β × γ) p => (g₁ st.1 p, g₂ st.2.1 p, g₃ st.2.2 p)) (a, b, c)
      = (l.foldl g₁ a, l.foldl g₂ b, l.foldl g₃ c) := by
  induction l generalizing a b c with
  | nil => rfl
  | cons p l ih => simp [ih]

/-- the invariant of a storing loop: after `k` rounds the first `k` cells are filled. -/
theorem foldl_range_set_acc_aux (f : Nat → α) (d : α) (g : σ → Nat → α → σ) (l0 : List α) (s0 : σ)
    (k : Nat) (hk : k ≤ l0.length) :
    (List.range k).foldl (fun (st : List α × σ) i =>
        ((st.1.set i (f i)), g st.2 i ((st.1.set i (f i)).getD i d))) (l0, s0)
      = ((List.range k).map f ++ l0.drop k, (List.range k).foldl (fun s i => g s i (f i)) s0) := by
  induction k with
  | zero => simp
  | succ k ih =>
    have hk' : k < l0.length := hk
    rw [List.range_succ, List.foldl_append, ih (Nat.le_of_lt hk')]
    have hlen : ((List.range k).map f).length = k := by simp
    have hset : ((List.range k).map f ++ l0.drop k).set k (f k)
        = (List.range k).map f ++ [f k] ++ l0.drop (k + 1) := by
      rw [List.set_append_right _ _ (by simp)]
      simp only [hlen, Nat.sub_self]
      rw [List.drop_eq_getElem_cons hk']
      simp only [List.set_cons_zero, List.append_assoc, List.singleton_append]
    simp only [List.foldl_cons, List.foldl_nil, hset, List.map_append, List.map_cons, List.map_nil,
      List.foldl_append]
    congr 2
    rw [List.getD_eq_getElem?_getD, List.append_assoc, List.getElem?_append_right (by simp)]
    simp

/-- a loop that stores `f i` in cell `i` of a length-`n` list while other accumulators read the
    cell just written (`grad_term[i] = …; result += grad_term[i]`). -/
theorem foldl_range_set_acc (f : Nat → α) (d : α) (g : σ → Nat → α → σ) (l0 : List α) (s0 : σ)
    (n : Nat) (hn : l0.length = n) :
    (List.range n).foldl (fun (st : List α × σ) i =>
        ((st.1.set i (f i)), g st.2 i ((st.1.set i (f i)).getD i d))) (l0, s0)
      = ((List.range n).map f, (List.range n).foldl (fun s i => g s i (f i)) s0) := by
  rw [foldl_range_set_acc_aux f d g l0 s0 n (by omega)]
  simp [← hn]

/-- a loop that stores `f i` in cell `i` of a length-`n` list is `map f` over the indices. -/
theorem foldl_range_set (f : Nat → α) (l0 : List α) (n : Nat) (hn : l0.length = n) :
    (List.range n).foldl (fun (st : List α) i => st.set i (f i)) l0 = (List.range n).map f := by
  have h := foldl_range_set_acc f (f 0) (fun (_ : Unit) _ _ => ()) l0 () n hn
  have h2 : ∀ (l : List Nat) (st : List α × Unit),
      (l.foldl (fun (st : List α × Unit) i =>
        ((st.1.set i (f i)), (fun (_ : Unit) _ _ => ()) st.2 i ((st.1.set i (f i)).getD i (f 0)))) st).1
      = l.foldl (fun (st : List α) i => st.set i (f i)) st.1 := by
    intro l
    induction l with
    | nil => intro st; rfl
    | cons a l ih => intro st; simp only [List.foldl_cons]; rw [ih]
  have := h2 (List.range n) (l0, ())
  rw [h] at this
  exact this.symm

/-- mapping over the indices of two lists of the same length is mapping over their zip -/
theorem map_range_getD₂ (x : List α) (y : List β) (dx : α) (dy : β) (h : x.length = y.length)
    (f : α → β → γ) :
    (List.range x.length).map (fun i => f (x.getD i dx) (y.getD i dy))
      = (x.zip y).map (fun p => f p.1 p.2) := by
  apply List.ext_getElem
  · simp [h]
  · intro i h1 h2
    have hx : i < x.length := by simpa using h1
    have hy : i < y.length := h ▸ hx
    simp [List.getD_eq_getElem?_getD, List.getElem?_eq_getElem hx, List.getElem?_eq_getElem hy]

/-- the same with the bound given separately (`range(x.shape[0])` indexing two other arrays) -/
theorem map_range_getD₂' (n : Nat) (x : List α) (y : List β) (dx : α) (dy : β) (hx : x.length = n)
    (hy : y.length = n) (f : α → β → γ) :
    (List.range n).map (fun i => f (x.getD i dx) (y.getD i dy))
      = (x.zip y).map (fun p => f p.1 p.2) := by
  subst hx
  exact map_range_getD₂ x y dx dy hy.symm f

/-- an index loop whose bound is given separately, over two lists of that length -/
theorem foldl_range_getD₂' (n : Nat) (x : List α) (y : List β) (dx : α) (dy : β) (hx : x.length = n)
    (hy : y.length = n) (g : σ → α → β → σ) (s : σ) :
    (List.range n).foldl (fun st i => g st (x.getD i dx) (y.getD i dy)) s
      = (x.zip y).foldl (fun st p => g st p.1 p.2) s := by
  subst hx
  exact foldl_range_getD₂ x y dx dy hy.symm g s

/-- a vector expression combining `g(x, y)` and `h(y, x)` elementwise -/
theorem zipWith_zipWith_swap {ε : Type} (f : γ → δ → ε) (g : α → β → γ) (h : β → α → δ)
    (x : List α) (y : List β) :
    List.zipWith f (List.zipWith g x y) (List.zipWith h y x)
      = List.zipWith (fun a b => f (g a b) (h b a)) x y := by
  induction x generalizing y with
  | nil => simp
  | cons a x ih => cases y with
    | nil => simp
    | cons b y => simp [ih]

/-- a vector expression combining `g(x, y)` and `h(x, y)` elementwise -/
theorem zipWith_zipWith_same {ε : Type} (f : γ → δ → ε) (g : α → β → γ) (h : α → β → δ)
    (x : List α) (y : List β) :
    List.zipWith f (List.zipWith g x y) (List.zipWith h x y)
      = List.zipWith (fun a b => f (g a b) (h a b)) x y := by
  induction x generalizing y with
  | nil => simp
  | cons a x ih => cases y with
    | nil => simp
    | cons b y => simp [ih]

/-- mapping over the indices of one list -/
theorem map_range_getD (x : List α) (dx : α) (f : α → γ) :
    (List.range x.length).map (fun i => f (x.getD i dx)) = x.map f := by
  apply List.ext_getElem
  · simp
  · intro i h1 h2
    have hx : i < x.length := by simpa using h1
    simp [List.getD_eq_getElem?_getD, List.getElem?_eq_getElem hx]

/-- `zip` of a list with itself -/
theorem map_zip_self (x : List α) (f : α × α → γ) :
    (x.zip x).map f = x.map (fun a => f (a, a)) := by
  induction x with
  | nil => rfl
  | cons a x ih => rw [List.zip_cons_cons, List.map_cons, List.map_cons, ih]

/-- `np.zeros(n)` against the model's `x.map (fun _ => 0)` -/
theorem replicate_length_eq_map (x : List α) (c : γ) :
    List.replicate x.length c = x.map (fun _ => c) := by
  simp

/-- a fold over a zip that only looks at the first components -/
theorem foldl_zip_fst (x : List α) (y : List β) (h : x.length = y.length) (g : σ → α → σ) (s : σ) :
    (x.zip y).foldl (fun st p => g st p.1) s = x.foldl g s := by
  have := List.foldl_map (f := Prod.fst) (g := g) (l := x.zip y) (init := s)
  rw [← this, List.map_fst_zip (by omega)]

/-- a fold over a zip that only looks at the second components -/
theorem foldl_zip_snd (x : List α) (y : List β) (h : x.length = y.length) (g : σ → β → σ) (s : σ) :
    (x.zip y).foldl (fun st p => g st p.2) s = y.foldl g s := by
  have := List.foldl_map (f := Prod.snd) (g := g) (l := x.zip y) (init := s)
  rw [← this, List.map_snd_zip (by omega)]

end SrcLemmas
end Umap
