/-
  UmapProofs.AssembleLemmas — lemmas about `Graph.assemble` (the directed membership matrix built
  from the per-row output of `Knn.memberRow`) and `Graph.memberRows`.
-/
import UmapProofs.GraphLemmas
import Mathlib.Tactic

namespace Umap
namespace Graph

variable {K : Type} [Field K] [LinearOrder K] [IsStrictOrderedRing K]

/-- a row of the directed membership table, as produced by `Knn.memberRow`. -/
abbrev MRow (K : Type) := List (Option (Nat × Option K))

/-- the `(row, col, strength)` triples before the NaN check and `eliminate_zeros`. -/
def rawTriples (rows : List (MRow K)) : List (Nat × Nat × Option K) :=
  (rows.zipIdx.map fun (row, i) =>
      row.filterMap (fun e => e.map (fun (c, v) => (i, c, v)))).flatten

/-- the matrix `assemble` returns when no strength is NaN. -/
def assembled (rows : List (MRow K)) : Coo K :=
  elimZeros ((rawTriples rows).filterMap (fun t => t.2.2.map (fun v => (t.1, t.2.1, v))))

theorem assemble_eq (rows : List (MRow K)) :
    assemble rows =
      if (rawTriples rows).any (fun t => t.2.2.isNone) then none else some (assembled rows) := rfl

theorem mem_rawTriples (rows : List (MRow K)) (i j : Nat) (v : Option K) :
    (i, j, v) ∈ rawTriples rows ↔ ∃ row, rows[i]? = some row ∧ some (j, v) ∈ row := by
  unfold rawTriples
  simp only [List.mem_flatten, List.mem_map, Prod.exists, List.mk_mem_zipIdx_iff_getElem?]
  constructor
  · rintro ⟨l, ⟨row, i', hrow, rfl⟩, hmem⟩
    rw [List.mem_filterMap] at hmem
    obtain ⟨e, he, heq⟩ := hmem
    cases e with
    | none => simp at heq
    | some cv =>
      obtain ⟨c, w⟩ := cv
      simp only [Option.map_some, Option.some.injEq, Prod.mk.injEq] at heq
      obtain ⟨rfl, rfl, rfl⟩ := heq
      exact ⟨row, hrow, he⟩
  · rintro ⟨row, hrow, hmem⟩
    refine ⟨_, ⟨row, i, hrow, rfl⟩, ?_⟩
    rw [List.mem_filterMap]
    exact ⟨some (j, v), hmem, rfl⟩

/-- no strength is NaN. -/
def NoNan (rows : List (MRow K)) : Prop := ∀ row ∈ rows, ∀ c, some (c, none) ∉ row

theorem assemble_of_noNan (rows : List (MRow K)) (h : NoNan rows) :
    assemble rows = some (assembled rows) := by
  rw [assemble_eq, if_neg]
  rw [List.any_eq_true]
  rintro ⟨⟨i, j, v⟩, hm, hv⟩
  cases v with
  | some v => simp at hv
  | none =>
    obtain ⟨row, hrow, hmem⟩ := (mem_rawTriples rows i j none).1 hm
    exact h row (List.mem_of_getElem? hrow) j hmem

theorem assemble_eq_some_iff (rows : List (MRow K)) (A : Coo K) :
    assemble rows = some A ↔ NoNan rows ∧ A = assembled rows := by
  constructor
  · intro h
    rw [assemble_eq] at h
    split_ifs at h with hany
    simp only [Option.some.injEq] at h
    refine ⟨?_, h.symm⟩
    intro row hrow c hc
    apply hany
    rw [List.any_eq_true]
    obtain ⟨i, hi, rfl⟩ := List.mem_iff_getElem.1 hrow
    exact ⟨(i, c, none), (mem_rawTriples rows i c none).2 ⟨_, List.getElem?_eq_getElem hi, hc⟩, rfl⟩
  · rintro ⟨h, rfl⟩
    exact assemble_of_noNan rows h

/-- a triple is stored in the assembled matrix iff it is a non-zero (non-NaN) strength of the
    corresponding row. -/
theorem mem_assembled (rows : List (MRow K)) (i j : Nat) (v : K) :
    (i, j, v) ∈ assembled rows ↔
      v ≠ 0 ∧ ∃ row, rows[i]? = some row ∧ some (j, some v) ∈ row := by
  unfold assembled elimZeros
  rw [List.mem_filter, List.mem_filterMap]
  constructor
  · rintro ⟨⟨⟨a, b, w⟩, hm, heq⟩, hz⟩
    cases w with
    | none => simp at heq
    | some w =>
      simp only [Option.map_some, Option.some.injEq, Prod.mk.injEq] at heq
      obtain ⟨rfl, rfl, rfl⟩ := heq
      refine ⟨?_, (mem_rawTriples rows a b (some w)).1 hm⟩
      intro h0
      rw [(isZero_iff _).2 h0] at hz
      simp at hz
  · rintro ⟨hne, hrow⟩
    refine ⟨⟨(i, j, some v), (mem_rawTriples rows i j (some v)).2 hrow, rfl⟩, ?_⟩
    cases hz : isZero v with
    | false => rfl
    | true => exact absurd ((isZero_iff _).1 hz) hne

/-- the columns of a row are pairwise distinct. -/
def RowDistinct (row : MRow K) : Prop :=
  row.Pairwise (fun e e' => ∀ c v c' v', e = some (c, v) → e' = some (c', v') → c ≠ c')

/-- rows with distinct columns assemble to a matrix without duplicate positions. -/
theorem nodup_assembled (rows : List (MRow K)) (h : ∀ row ∈ rows, RowDistinct row) :
    NoDup (assembled rows) := by
  unfold NoDup assembled elimZeros List.Nodup
  rw [List.pairwise_map]
  apply List.Pairwise.filter
  -- distinct positions on the raw triples
  have hraw : (rawTriples rows).Pairwise (fun t t' => (t.1, t.2.1) ≠ (t'.1, t'.2.1)) := by
    unfold rawTriples
    rw [List.pairwise_flatten]
    constructor
    · intro l hl
      rw [List.mem_map] at hl
      obtain ⟨⟨row, i⟩, hri, rfl⟩ := hl
      have hrow : row ∈ rows := (List.mem_zipIdx' hri).2 ▸ List.getElem_mem _
      have := h row hrow
      unfold RowDistinct at this
      refine List.Pairwise.filterMap _ ?_ this
      intro e e' hR t ht t' ht'
      cases e with
      | none => simp at ht
      | some cv =>
        cases e' with
        | none => simp at ht'
        | some cv' =>
          obtain ⟨c, v⟩ := cv
          obtain ⟨c', v'⟩ := cv'
          simp only [Option.map_some, Option.some.injEq] at ht ht'
          subst ht; subst ht'
          intro heq
          simp only [Prod.mk.injEq, true_and] at heq
          exact hR c v c' v' rfl rfl heq
    · rw [List.pairwise_map]
      have hidx : (rows.zipIdx).Pairwise (fun a b => a.2 ≠ b.2) := by
        have := List.nodup_range' (s := 0) (n := rows.length) (step := 1)
        rw [← List.zipIdx_map_snd 0 rows] at this
        unfold List.Nodup at this
        exact List.pairwise_map.1 this
      refine hidx.imp ?_
      rintro ⟨row, i⟩ ⟨row', i'⟩ hne t ht t' ht' heq
      rw [List.mem_filterMap] at ht ht'
      obtain ⟨e, _, he⟩ := ht
      obtain ⟨e', _, he'⟩ := ht'
      cases e with
      | none => simp at he
      | some cv =>
        cases e' with
        | none => simp at he'
        | some cv' =>
          simp only [Option.map_some, Option.some.injEq] at he he'
          subst he; subst he'
          simp only [Prod.mk.injEq] at heq
          exact hne heq.1
  refine List.Pairwise.filterMap _ ?_ hraw
  intro t t' hR u hu u' hu'
  obtain ⟨a, b, w⟩ := t
  obtain ⟨a', b', w'⟩ := t'
  cases w with
  | none => simp at hu
  | some w =>
    cases w' with
    | none => simp at hu'
    | some w' =>
      simp only [Option.map_some, Option.some.injEq] at hu hu'
      subst hu; subst hu'
      exact hR

/-! ### `memberRow` and `memberRows` -/

/-- one entry of `Knn.memberRow` (non-bipartite case) as a function of the `(index, distance)` pair. -/
def memberEntry (T : Transc K) (self : Nat) (sigma : K) (r : Ext K)
    (p : Option Nat × Option K) : Option (Nat × Option K) :=
  match p.1 with
  | none => none
  | some c =>
    if c = self then some (c, some 0)
    else match p.2 with
      | some d => some (c, Knn.memberExt T d r sigma)
      | none => some (c, match r with
          | .fin _ => some 0
          | .inf => none
          | .nan => none)

theorem memberRow_eq (T : Transc K) (self : Nat) (sigma : K) (r : Ext K)
    (ix : List (Option Nat)) (d : List (Option K)) :
    Knn.memberRow T false self sigma r ix d = (ix.zip d).map (memberEntry T self sigma r) := by
  unfold Knn.memberRow
  apply List.map_congr_left
  rintro ⟨i, x⟩ _
  unfold memberEntry
  cases i with
  | none => rfl
  | some c =>
    by_cases hc : c = self
    · simp [hc]
    · simp [hc]
      cases x <;> cases r <;> rfl

theorem memberEntry_some (T : Transc K) (self : Nat) (sigma : K) (r : Ext K)
    (p : Option Nat × Option K) (c : Nat) (v : Option K)
    (h : memberEntry T self sigma r p = some (c, v)) : p.1 = some c := by
  obtain ⟨i, x⟩ := p
  unfold memberEntry at h
  cases i with
  | none => simp at h
  | some c' =>
    simp only at h
    split_ifs at h with hc
    · simp only [Option.some.injEq, Prod.mk.injEq] at h; rw [h.1]
    · cases x <;> simp only [Option.some.injEq, Prod.mk.injEq] at h <;> rw [h.1]

theorem pairwise_zip_fst {β γ : Type} {R : β → β → Prop} {l : List β} (h : l.Pairwise R)
    (l' : List γ) : (l.zip l').Pairwise (fun p q => R p.1 q.1) := by
  induction l generalizing l' with
  | nil => simp
  | cons a l ih =>
    cases l' with
    | nil => simp
    | cons b l' =>
      rw [List.zip_cons_cons, List.pairwise_cons]
      rw [List.pairwise_cons] at h
      refine ⟨?_, ih h.2 l'⟩
      rintro ⟨q1, q2⟩ hq
      exact h.1 q1 (List.of_mem_zip hq).1

/-- distinct (non-skipped) neighbour indices give a row with distinct columns. -/
theorem rowDistinct_memberRow (T : Transc K) (self : Nat) (sigma : K) (r : Ext K)
    (ix : List (Option Nat)) (d : List (Option K)) (h : (ix.filterMap id).Nodup) :
    RowDistinct (Knn.memberRow T false self sigma r ix d) := by
  rw [memberRow_eq]
  unfold RowDistinct
  rw [List.pairwise_map]
  unfold List.Nodup at h
  rw [List.pairwise_filterMap] at h
  refine (pairwise_zip_fst h d).imp ?_
  intro p q hR c v c' v' hp hq
  exact hR c (memberEntry_some T self sigma r p c v hp) c' (memberEntry_some T self sigma r q c' v' hq)

/-- row `i` of `memberRows` is `memberRow` applied to row `i` of the two tables, with the
    bandwidth and rho of that row. -/
theorem memberRows_getElem? (T : Transc K) (tol minScale target : K) (lcIdx : Nat) (lcFrac : K)
    (nIter : Nat) (idx : List (List (Option Nat))) (ds : List (List (Option K))) (i : Nat)
    (row : MRow K) :
    (memberRows T tol minScale target lcIdx lcFrac nIter idx ds)[i]? = some row ↔
      ∃ ix d, idx[i]? = some ix ∧ ds[i]? = some d ∧
        row = Knn.memberRow T false i
          (Knn.smoothKnnRow T tol minScale target lcIdx lcFrac nIter (Knn.finiteMean ds.flatten) d).1
          (Knn.smoothKnnRow T tol minScale target lcIdx lcFrac nIter (Knn.finiteMean ds.flatten) d).2
          ix d := by
  unfold memberRows Knn.smoothKnn
  simp only [List.getElem?_map, List.getElem?_zipIdx, Option.map_eq_some_iff, Nat.zero_add,
    List.getElem?_zip_eq_some, Prod.exists, Prod.mk.injEq]
  constructor
  · rintro ⟨ix, d, s, rh, i', ⟨ix', d', s', rh', ⟨h1, h2, d'', h3, h4⟩, ⟨e1, e2, e3, e4⟩, e5⟩, rfl⟩
    subst e1 e2 e3 e4 e5
    rw [h2] at h3
    simp only [Option.some.injEq] at h3
    subst h3
    refine ⟨ix', d', h1, h2, ?_⟩
    rw [h4]
  · rintro ⟨ix, d, h1, h2, rfl⟩
    exact ⟨ix, d, _, _, i, ⟨ix, d, _, _, ⟨h1, h2, d, h2, rfl⟩, ⟨rfl, rfl, rfl, rfl⟩, rfl⟩, rfl⟩

end Graph
end Umap
