#!/usr/bin/env python3
"""assemble /verif/seeded/<prop>-<X>/ from the sub-agents' output and this session's confirmation logs"""
import glob
import json
import os
import re
import shutil

SRCS = [("/tmp/mut", ""), ("/tmp/mut3", "3"), ("/tmp/mut4", "4"), ("/tmp/mut5", "5")]      # (directory of the sub-agents' worktrees, wave prefix of the ids)
CONF = "/tmp/confirm"
OUT = "/verif/seeded"
det = json.load(open("/verif/seeded/detection.json")) if os.path.exists("/verif/seeded/detection.json") else {}
os.makedirs(OUT, exist_ok=True)
for d, wave in [(d, w) for SRC, w in SRCS for d in sorted(glob.glob(f"{SRC}/C*/_mutant"))]:
    prop = d.split("/")[-2]
    for diff in sorted(glob.glob(f"{d}/?.diff") + glob.glob(f"{d}/?x.diff")):
        x0 = os.path.basename(diff)[:-5]
        if len(x0) == 1 and os.path.exists(f"{d}/{x0}x.diff"):
            # superseded by its rebase onto the repaired tree (a later fix: commit touched the same lines)
            shutil.rmtree(f"{OUT}/{prop}-{wave}{x0}", ignore_errors=True)
            continue
        x = wave + x0
        log = f"{CONF}/{prop}_{x}.log"
        if not os.path.exists(log):
            print("no confirmation yet:", prop, x)
            continue
        L = open(log).read()
        ex = re.findall(r"exit=(\d+)", L)
        passed = re.search(r"(\d+) passed", L)
        ok = len(ex) >= 2 and ex[0] == "0" and ex[1] != "0" and passed and int(passed.group(1)) >= 144 and " failed" not in L.split("test-suite")[-1]
        if not ok:
            print("NOT confirmed:", prop, x, ex, passed.group(0) if passed else None)
            continue
        dst = f"{OUT}/{prop}-{x}"
        os.makedirs(dst, exist_ok=True)
        shutil.copy(diff, f"{dst}/patch.diff")
        demo = f"{d}/{x0}_demo.py"
        shutil.copy(demo, f"{dst}/demo.py")
        meta_src = f"{d}/{x0[0]}_meta.json"
        am = json.load(open(meta_src)) if os.path.exists(meta_src) else {}
        meta = {
            "id": f"{prop}-{x}",
            "breaks_property": prop,
            "files": am.get("files"),
            "summary": am.get("summary"),
            "needs_to_manifest": am.get("needs"),
            "produced_by": "sub-agent given only the property text and a private worktree of /repo",
            "confirmed_here": {
                "how": "fresh scratch worktree of /repo HEAD: demo on the unmodified tree, patch applied, demo again, full test-suite "
                       "(pytest, the two always-failing sokalmichener tests deselected); worktree removed afterwards",
                "demo_exit_unmodified": int(ex[0]), "demo_exit_with_patch": int(ex[1]),
                "test_suite_with_patch": re.search(r"\d+ passed[^\n]*", L).group(0),
            },
            "detected_by": det.get(f"{prop}-{x}"),
            "how_to_run": f"git -C /repo apply /verif/seeded/{prop}-{x}/patch.diff && (cd /verif && ./check {prop}); git -C /repo checkout -- .",
        }
        json.dump(meta, open(f"{dst}/meta.json", "w"), indent=1)
        print("kept", prop, x)
