#!/bin/bash
# apply every kept seeded change (or only the ids given as arguments) to /repo, run its property's quick check, undo;
# results -> seeded/detection.json (merged into the existing records when ids are given)
cd /verif
export SWEEP_IDS="$*"
python3 - <<'PY'
import glob, json, os, subprocess
only = os.environ.get("SWEEP_IDS", "").split()
det = json.load(open('/verif/seeded/detection.json')) if only and os.path.exists('/verif/seeded/detection.json') else {}
for d in sorted(glob.glob('/verif/seeded/C*-*')):
    sid = os.path.basename(d)
    if only and sid not in only:
        continue
    prop = sid.split('-')[0]
    r = subprocess.run(['git', '-C', '/repo', 'apply', f'{d}/patch.diff'], capture_output=True, text=True)
    if r.returncode != 0:
        r = subprocess.run(['git', '-C', '/repo', 'apply', '--3way', f'{d}/patch.diff'], capture_output=True, text=True)
    if r.returncode != 0:
        det[sid] = {"applies": False, "note": r.stderr[-200:]}
        subprocess.run(['git', '-C', '/repo', 'checkout', 'HEAD', '--', '.'])
        continue
    p = subprocess.run(['./check', prop, '--tier', 'quick'], capture_output=True, text=True)
    lines = [l for l in p.stdout.split('\n') if l.strip() and not l.startswith('KNOWN-FINDING')]
    viol = [l for l in lines if l.startswith('VIOLATION')]
    first = next((l for l in lines if 'violation(s)' in l or 'no longer check' in l), '')
    det[sid] = {"check": f"./check {prop} --tier quick", "exit": p.returncode, "violation_line": viol[0] if viol else None,
                "first": first[:300], "failing_input_found": bool(viol) and 'no-failing-input-found' not in viol[0]}
    subprocess.run(['git', '-C', '/repo', 'checkout', 'HEAD', '--', '.'])
    print(sid, p.returncode, first[:120], flush=True)
json.dump(det, open('/verif/seeded/detection.json', 'w'), indent=1)
PY
(cd /verif/harness && /venv/bin/python -W ignore regen.py > /dev/null)
git -C /repo status --short | grep -v '^??'
